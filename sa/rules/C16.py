"""C16 MSM estimator: constructor parameters, pipeline order, save/load
agreement, spectrum, implied timescales, ensemble propagation.

The constructs are located by ROLE (the call to assigns_to_counts, the call
of the builder, the dict that is json-dumped, the object that is returned,
the name that is advanced inside the loop ...) and compared after expansion
of temporaries (FuncInfo.expand) through match.classify, so that renames,
named sub-expressions, inverted branches, positional/keyword spelling and
reordered independent statements do not matter.  A construct that cannot be
located is reported as analysis-incomplete, never as a violation."""
import ast

from ..cfg import Assume
from ..core import (AnalysisIncomplete, arg_or_kw, call_name, const_value,
                    kwarg, names_loaded, params, target_names, u, walk_expr,
                    walk_local)
from ..match import C, CS, canon, classify
from ..patterns import (Cmp, assigns_to, calls_in, check_no_arg_mutation,
                        conjuncts, finfo, returns_of, subscript_stores)
from .msm_common import TM, MS, TS, SD, BU, check_spectrum
from .C11 import mapping_rules

EXPLANATION = (
    'Static decision of the structural necessary conditions of the MSM '
    'estimator contract: (D1) every constructor parameter is stored '
    'unmodified in the attribute of the same name and fit forwards each to '
    'the parameter of the same meaning; (D2) fit runs counts -> optional trim '
    '-> builder in that order on one data flow, identity mapping otherwise; '
    '(D3) save and load agree on keys, writer/reader pairs and orientation, '
    'probabilities are written with >= 17 significant digits, the pickled '
    'config covers every constructor parameter; (D4) the spectrum is sorted by '
    'descending real part with one permutation for values and columns, column '
    '0 sum-normalised, ARPACK asked for which="LR"; (D5) implied timescales '
    'are -lag/log(lambda_k), k>=1, from one extra eigenvalue; the ensemble is '
    'advanced by left multiplication n_steps-1 times from a copy of the '
    'initial populations. Fifth wave: every exit of MSM.__eq__ answers False only '
    'after a difference and True only after all fitted parts compared equal; the '
    'model directory leads every os.path.join, the temporary directory is '
    'published to `path` for the default flags, load does not refuse '
    'directories; sparse-only attributes are read under issparse; a default '
    'for a None parameter is computed only when it is None; the padding of a '
    'timescale row has n_times - len(row) entries and runs whenever that is '
    'positive; n_times is only reduced, to assigns.max(); eigenspectrum refuses '
    'only n_eigs < 2. Numerical equality of estimator and pipeline is not '
    'decided.')


# ---------------------------------------------------------------------------
# role / data-flow helpers (candidates for a shared module)

def _last(call):
    """Last component of the dotted callee name ('scipy.io.mmwrite' -> 'mmwrite')."""
    if not isinstance(call, ast.Call):
        return ''
    if isinstance(call.func, ast.Attribute):
        return call.func.attr
    return (call_name(call) or '').split('.')[-1]


def _cx(e):
    return u(canon(e))


def _short(x, n=120):
    t = x if isinstance(x, str) else u(x)
    return t if len(t) <= n else t[:n - 3] + '...'


def peel(fi, e):
    """Follow a chain of temporaries from a Name use to the ORIGINAL node of
    its defining expression (top level only; the result is a node of the
    analysed tree, so reaching definitions can be asked for it)."""
    d = 0
    while isinstance(e, ast.Name) and d < 8:
        v = fi.temp_value(e)
        if v is None:
            break
        e, d = v, d + 1
    return e


def leaf_names(fi, expr, stop=()):
    """Original Name(Load) nodes the value of `expr` is built from, after
    looking through temporaries."""
    out = []

    def go(e, d):
        for n in walk_expr(e):
            if isinstance(n, ast.Name) and isinstance(n.ctx, ast.Load):
                v = fi.temp_value(n) if (d > 0 and n.id not in stop) else None
                if v is not None:
                    go(v, d - 1)
                else:
                    out.append(n)
    go(expr, 8)
    return out


def defs_of(fi, n):
    try:
        return set(fi.defs_of_use(n))
    except Exception:
        return set()


def is_param(fi, e, p):
    """`e` denotes the unmodified parameter p (possibly through temporaries)."""
    e = peel(fi, e)
    return isinstance(e, ast.Name) and e.id == p and defs_of(fi, e) == {'PARAM'}


def params_intact(fi, expr, names):
    """Every leaf name of expr that is one of `names` still denotes the parameter."""
    return all(defs_of(fi, n) == {'PARAM'} for n in leaf_names(fi, expr) if n.id in names)


def origins(fi, name_node):
    """Terminal definition sites {(site, name)} of a Name use, looking through
    plain copies `a = b` on every path."""
    out, seen = set(), set()

    def go(n):
        for d in defs_of(fi, n):
            if d in ('PARAM', 'UNBOUND'):
                out.add((d, n.id))
                continue
            v = fi.def_value(d, n.id)
            if isinstance(v, ast.Name):
                if (id(d), n.id) not in seen:
                    seen.add((id(d), n.id))
                    go(v)
            else:
                out.add((d, n.id))
    go(name_node)
    return out


def guard_atom_nodes(fi, stmt):
    """Atomic conditions known to hold at stmt: the conjuncts of every
    dominating branch assumption, as (canonical expanded text, polarity,
    expanded node).  None if a dominating assumption is a disjunction."""
    out = {}
    for n in fi.cfg.nodes:
        if isinstance(n, Assume) and fi.cfg.dominates(n, stmt):
            cj = conjuncts(n.test, n.polarity)
            if cj is None:
                return None
            for c in cj:
                if isinstance(c, Cmp):
                    e = ast.Compare(left=fi.expand(c.lhs), ops=[c.op()], comparators=[fi.expand(c.rhs)])
                    out.setdefault((_cx(e), True), canon(e))
                else:
                    out.setdefault((fi.xu(c[1]), c[2]), canon(fi.expand(c[1])))
    return [(t, pol, out[(t, pol)]) for t, pol in sorted(out)]


def guard_atoms(fi, stmt):
    """guard_atom_nodes as (canonical expanded text, polarity)."""
    r = guard_atom_nodes(fi, stmt)
    return None if r is None else [(t, pol) for t, pol, _ in r]


# --- a guard as a function of ONE flag: truth table over the abstract classes of
# Python objects that `is` / `==` / bool() / isinstance(., bool) can tell apart
#   'T' the singleton True      't' any other truthy object (np.True_, 1, 'yes')
#   'F' the singleton False     'f' any other falsy object  (np.False_, 0, None, '')
# (own three-valued interpreter of the SYNTAX of the condition - nothing from
# the analysed code is executed); None = not decided for that class.
_FLAG_CLASSES = ('T', 'F', 't', 'f')
_FLAG_CLASS_TEXT = {'T': 'the singleton True', 'F': 'the singleton False',
                    't': 'a truthy flag that is not the singleton True (numpy.bool_ of a comparison, 1, a non-empty string)',
                    'f': 'a falsy flag that is not the singleton False (numpy.bool_, 0, None)'}


def _abs_truth(v):
    return None if v is None else v in ('T', 't')


def _abs_bool(b):
    return None if b is None else ('T' if b else 'F')


def _abs_flag_value(e, flag, cls):
    """Abstract value ('T','F','t','f', None=unknown) of expression e when the
    sub-expression whose canonical text is `flag` has class cls."""
    if _cx(e) == flag:
        return cls
    if isinstance(e, ast.Constant):
        if e.value is True:
            return 'T'
        if e.value is False:
            return 'F'
        if e.value is None or isinstance(e.value, (int, float, str, bytes)):
            return 't' if e.value else 'f'
        return None
    if isinstance(e, ast.UnaryOp) and isinstance(e.op, ast.Not):
        t = _abs_truth(_abs_flag_value(e.operand, flag, cls))
        return _abs_bool(None if t is None else not t)
    if isinstance(e, ast.BoolOp):
        cur = None
        for i, x in enumerate(e.values):
            cur = _abs_flag_value(x, flag, cls)
            t = _abs_truth(cur)
            if t is None:
                return None
            if t != isinstance(e.op, ast.And):      # short circuit: falsy in `and`, truthy in `or`
                return cur
        return cur
    if isinstance(e, ast.Call) and not e.keywords and len(e.args) == 1 and call_name(e) == 'bool':
        return _abs_bool(_abs_truth(_abs_flag_value(e.args[0], flag, cls)))
    if isinstance(e, ast.Call) and not e.keywords and len(e.args) == 2 and call_name(e) == 'isinstance' \
            and isinstance(e.args[1], ast.Name) and e.args[1].id == 'bool':
        v = _abs_flag_value(e.args[0], flag, cls)
        return _abs_bool(None if v is None else v in ('T', 'F'))    # True and False are the only instances of bool
    if isinstance(e, ast.Compare) and len(e.ops) == 1:
        a, b = _abs_flag_value(e.left, flag, cls), _abs_flag_value(e.comparators[0], flag, cls)
        if a is None or b is None:
            return None
        op = e.ops[0]
        single = lambda x: x in ('T', 'F')
        same = None
        if isinstance(op, (ast.Is, ast.IsNot)):
            if single(a) and single(b):
                same = a == b
            elif single(a) != single(b):
                same = False            # a singleton is identical to nothing else
            res = same if isinstance(op, ast.Is) else (None if same is None else not same)
            return _abs_bool(res)
        if isinstance(op, (ast.Eq, ast.NotEq)):
            if single(a) and single(b):
                same = a == b
            elif {a, b} in ({'T', 'f'}, {'F', 't'}):
                same = False            # True equals only truthy objects (1, np.True_), False only falsy ones
            res = same if isinstance(op, ast.Eq) else (None if same is None else not same)
            return _abs_bool(res)
    return None


def flag_guard_table(atoms, flag):
    """{class: True/False/None}: does the conjunction of the guard atoms
    (text, polarity, node) hold for a flag of that class?  None as a whole if
    an atom involves anything but the flag and constants."""
    for _, _, node in atoms:
        rest = [n for n in ast.walk(node) if isinstance(n, ast.Name) and isinstance(n.ctx, ast.Load)
                and n.id not in ('bool', 'isinstance', 'True', 'False', 'None')]
        inside = {id(n) for x in ast.walk(node) if _cx(x) == flag for n in ast.walk(x)}
        if any(id(n) not in inside for n in rest) or not inside and _cx(node) != flag:
            return None
    table = {}
    for cls in _FLAG_CLASSES:
        val = True
        for _, pol, node in atoms:
            t = _abs_truth(_abs_flag_value(node, flag, cls))
            if t is None:
                val = None if val is not False else False
            elif t != pol:
                val = False
        table[cls] = val
    return table


def _atoms_text(atoms):
    return ' and '.join(('' if p else 'not ') + a for a, p in atoms) or 'unconditional'


def bind_args(call, callee_params):
    """{parameter: argument expression} of a call against the callee's
    positional parameter list; None if it cannot be bound statically."""
    if any(isinstance(a, ast.Starred) for a in call.args) or any(k.arg is None for k in call.keywords):
        return None
    if len(call.args) > len(callee_params):
        return None
    b = {callee_params[i]: a for i, a in enumerate(call.args)}
    for k in call.keywords:
        b[k.arg] = k.value
    return b


def attr_stores(fn, base):
    """(stmt, attr, value, index) for every store `base.attr = v`.  Tuple
    targets are paired with a literal tuple on the right (index None); for a
    tuple target unpacked from a non-literal value `value` is the whole right
    side and `index` the position of the attribute in the target."""
    out = []
    for s in walk_local(fn):
        if isinstance(s, ast.Assign):
            tv = [(t, s.value) for t in s.targets]
        elif isinstance(s, ast.AnnAssign) and s.value is not None:
            tv = [(s.target, s.value)]
        elif isinstance(s, ast.AugAssign):
            tv = [(s.target, None)]
        else:
            continue
        for t, v in tv:
            if isinstance(t, ast.Attribute) and isinstance(t.value, ast.Name) and t.value.id == base:
                out.append((s, t.attr, v, None))
            elif isinstance(t, (ast.Tuple, ast.List)):
                paired = isinstance(v, (ast.Tuple, ast.List)) and len(v.elts) == len(t.elts) and \
                    not any(isinstance(e, ast.Starred) for e in list(v.elts) + list(t.elts))
                for i, e in enumerate(t.elts):
                    if isinstance(e, ast.Attribute) and isinstance(e.value, ast.Name) and e.value.id == base:
                        out.append((s, e.attr, v.elts[i], None) if paired else (s, e.attr, v, i))
    return out


def _opaque_attr_writes(fn, base, plain_methods=()):
    """The function may set attributes of `base` in a way attr_stores does
    not see: setattr / __dict__, a method of `base` (other than the known
    plain callables stored on it), a call that receives `base`, super()."""
    for n in walk_local(fn):
        if isinstance(n, ast.Call):
            if call_name(n) in ('setattr', 'vars', 'object.__setattr__', 'super'):
                return True
            if isinstance(n.func, ast.Attribute) and isinstance(n.func.value, ast.Name) and n.func.value.id == base \
                    and n.func.attr not in plain_methods:
                return True
            if any(isinstance(a, ast.Name) and a.id == base for a in list(n.args) + [k.value for k in n.keywords]):
                return True
        if isinstance(n, ast.Attribute) and n.attr == '__dict__':
            return True
    return False


def component_of(fi, value, index, st, call_stmt, call):
    """Which element of the tuple returned by `call` (evaluated in statement
    `call_stmt`) does a stored value denote?  int: that element; 'other': the
    value does not involve the call result at all; None: not recognised.
    (value, index, st) are as returned by attr_stores."""
    if value is None:
        return None
    if index is not None:
        e = peel(fi, value)
        if e is call:
            return index
        if isinstance(e, ast.Name) and defs_of(fi, e) == {call_stmt} and isinstance(call_stmt, ast.Assign) \
                and call_stmt.value is call and len(call_stmt.targets) == 1 and isinstance(call_stmt.targets[0], ast.Name):
            return index
        return None if _involves(fi, value, call_stmt, call) else 'other'
    e = peel(fi, value)
    if isinstance(e, ast.Name):
        ds = defs_of(fi, e)
        if ds == {call_stmt} and isinstance(call_stmt, ast.Assign) and call_stmt.value is call:
            t = call_stmt.targets[0]
            if isinstance(t, (ast.Tuple, ast.List)) and not any(isinstance(x, ast.Starred) for x in t.elts):
                for i, x in enumerate(t.elts):
                    if isinstance(x, ast.Name) and x.id == e.id:
                        return i
            return None
    if isinstance(e, ast.Subscript) and isinstance(const_value(e.slice), int) and const_value(e.slice) >= 0:
        b = peel(fi, e.value)
        if b is call:
            return const_value(e.slice)
        if isinstance(b, ast.Name) and defs_of(fi, b) == {call_stmt} and isinstance(call_stmt, ast.Assign) \
                and call_stmt.value is call and isinstance(call_stmt.targets[0], ast.Name):
            return const_value(e.slice)
    return None if _involves(fi, value, call_stmt, call) else 'other'


def result_component(fi, d, name, call_stmt, call):
    """Which element of the tuple returned by `call` (evaluated in statement
    `call_stmt`) does the definition site `d` bind to `name`?  int: that
    element - `a, b = f(..)`, `r = f(..); b = r[1]`, `b = f(..)[1]`;
    'other': a value that does not involve the call result; None: not
    recognised (e.g. the whole tuple)."""
    if d in ('PARAM', 'UNBOUND'):
        return 'other'
    if d is call_stmt and isinstance(d, ast.Assign) and d.value is call:
        for t in d.targets:
            if isinstance(t, (ast.Tuple, ast.List)) and not any(isinstance(x, ast.Starred) for x in t.elts):
                for i, x in enumerate(t.elts):
                    if isinstance(x, ast.Name) and x.id == name:
                        return i
        return None
    v = fi.def_value(d, name) if isinstance(d, (ast.Assign, ast.AnnAssign)) else None
    if v is None:
        return None
    return component_of(fi, v, None, d, call_stmt, call)


def _involves(fi, value, call_stmt, call):
    if any(n is call for n in ast.walk(value)):
        return True
    for n in leaf_names(fi, value):
        if call_stmt in defs_of(fi, n):
            return True
        if any(d not in ('PARAM', 'UNBOUND') and fi.def_value(d, n.id) is None and call_stmt is d for d in defs_of(fi, n)):
            return True
    # a name that is neither a parameter nor defined by a recognisable pure
    # expression may carry the result through a helper: look one level down
    for n in leaf_names(fi, value):
        for d in defs_of(fi, n):
            if d in ('PARAM', 'UNBOUND'):
                continue
            v = fi.def_value(d, n.id)
            if v is not None and any(call_stmt in defs_of(fi, m) for m in leaf_names(fi, v)):
                return True
    return False


def matrix_side(fi, e, T, depth=6):
    """Which matrix does `e` denote relative to the parameter T: 'T' (T itself
    up to value-preserving container conversions / aslinearoperator), 'TT'
    (its transpose), None (not recognised).  Names with several reaching
    definitions (operator built in both arms of an if) must agree."""
    flip = {'T': 'TT', 'TT': 'T', None: None}
    if depth < 0 or e is None:
        return None
    e = peel(fi, e)
    if isinstance(e, ast.Name):
        ds = defs_of(fi, e)
        if e.id == T and ds == {'PARAM'}:
            return 'T'
        if not ds or any(isinstance(d, str) for d in ds):
            return None
        sides = set()
        for d in ds:
            v = fi.def_value(d, e.id) if isinstance(d, (ast.Assign, ast.AnnAssign)) else None
            sides.add(matrix_side(fi, v, T, depth - 1))
        return sides.pop() if len(sides) == 1 else None
    if isinstance(e, ast.IfExp):
        a, b = matrix_side(fi, e.body, T, depth - 1), matrix_side(fi, e.orelse, T, depth - 1)
        return a if a == b else None
    if isinstance(e, ast.Attribute) and e.attr == 'T':
        return flip[matrix_side(fi, e.value, T, depth - 1)]
    if isinstance(e, ast.Call):
        if isinstance(e.func, ast.Attribute) and not e.args and not e.keywords:
            if e.func.attr in ('tocsr', 'tocsc', 'tocoo', 'tolil', 'toarray', 'todense', 'copy', 'asfptype'):
                return matrix_side(fi, e.func.value, T, depth - 1)
            if e.func.attr == 'transpose':
                return flip[matrix_side(fi, e.func.value, T, depth - 1)]
        if len(e.args) == 1 and not e.keywords:
            if _last(e) in ('aslinearoperator', 'asarray', 'array', 'asanyarray', 'ascontiguousarray', 'csr_matrix', 'csc_matrix',
                            'coo_matrix', 'csr_array', 'csc_array'):
                return matrix_side(fi, e.args[0], T, depth - 1)
            if call_name(e) in ('np.transpose', 'numpy.transpose'):
                return flip[matrix_side(fi, e.args[0], T, depth - 1)]
    return None


# ---------------------------------------------------------------------------
# D1

def d1_constructor(ck, mod):
    rule = 'C16.D1.constructor'
    init = mod.func('MSM.__init__')
    ck.analysed(mod, init)
    fi = finfo(mod, init)
    me = params(init)[0]
    ps = [p for p in params(init) if p != me]
    stores = {}
    for s, attr, v, idx in attr_stores(init, me):
        stores.setdefault(attr, []).append((s, v, idx))
    opaque = _opaque_attr_writes(init, me)
    for p in ps:
        ss = stores.get(p, [])
        if not ss:
            if opaque:
                ck.missing(rule, 'store of constructor parameter `%s` (attributes are set indirectly)' % p)
            else:
                ck.bad(rule, mod, init, 'MSM.__init__', 'self.%s' % p,
                       'constructor parameter `%s` is never stored: the argument is silently dropped' % p)
            continue
        if p == 'method':
            continue
        for s, v, idx in ss:
            if v is None or idx is not None:
                ck.missing(rule, 'value stored in self.%s not recognised: %s' % (p, _short(s)))
                continue
            verdict = classify(fi.expand(v), [p], scope=set(ps))
            if verdict[0] == 'match' and not is_param(fi, v, p):
                verdict = ('near', 1, p)     # the parameter was rebound before it is stored
            ck.decide(verdict, rule, mod, s, 'MSM.__init__', u(s),
                      'parameter stored unmodified under its own name',
                      'self.%s must be the constructor argument `%s`; found `%s` (the argument is ignored or altered)' % (p, p, _short(fi.xu(v))))
    if 'method' in ps and stores.get('method'):
        _method_cases(ck, rule + '.method', mod, fi, init, stores['method'])
    # fit forwards every attribute
    fit = mod.func('MSM.fit')
    ck.analysed(mod, fit)
    ffi = finfo(mod, fit)
    fme = params(fit)[0]
    ac = [c for c in calls_in(fit) if _last(c) == 'assigns_to_counts']
    if len(ac) != 1:
        ck.missing(rule + '.fit', 'assigns_to_counts call in fit (found %d)' % len(ac))
        return
    c = ac[0]
    callee = ck.repo.mod(TM).func('assigns_to_counts')
    bind = bind_args(c, params(callee))
    if bind is None:
        ck.missing(rule + '.fit', 'arguments of %s cannot be bound statically' % _short(c))
        return
    want = {'assigns': params(fit)[1], 'lag_time': '%s.lag_time' % fme, 'max_n_states': '%s.max_n_states' % fme,
            'sliding_window': '%s.sliding_window' % fme}
    for k, v in want.items():
        got = bind.get(k)
        if got is None:
            verdict, txt = 'near', 'MISSING (callee default)'
        else:
            # another attribute / parameter / constant in this position is a different value (near);
            # a helper or a method of self the rule cannot see through is not decided (far)
            txt = ffi.xu(got)
            verdict = classify(ffi.expand(got), [v], scope={fme, params(fit)[1]})[0]
            if verdict == 'match' and k == 'assigns' and not is_param(ffi, got, v):
                verdict = 'far'
            if verdict == 'match' and k != 'assigns' and not params_intact(ffi, got, {fme}):
                verdict = 'far'
        ck.decide(verdict, rule + '.fit', mod, c, 'MSM.fit', '%s=%s' % (k, _short(txt)),
                  'fit forwards %s to assigns_to_counts(%s=)' % (v, k),
                  'fit must call assigns_to_counts with %s=%s; it passes %s, so the configured value is '
                  'not the one used for counting' % (k, v, _short(txt) if got is not None else 'nothing (callee default)'))


def _method_cases(ck, rule, mod, fi, init, ms):
    """self.method is the argument if it is callable, else builders.<name>:
    decided per case over the guarded stores (any branch order, conditional
    expression or if/else)."""
    ms = sorted(ms, key=lambda x: (x[0].lineno, x[0].col_offset))
    test = 'callable(method)'
    guarded = []
    for s, v, idx in ms:
        atoms = guard_atoms(fi, s)
        if atoms is None or v is None or idx is not None or any(a != test for a, _ in atoms):
            ck.missing(rule, 'store of self.method under an unrecognised condition: %s [%s]' % (_short(s), _atoms_text(atoms or [])))
            return
        guarded.append((s, v, {p for _, p in atoms}))
    construct = '; '.join(u(s) for s, _, _ in ms)
    for case, want, okmsg, badmsg in (
            (True, 'method', 'a callable builder is kept as given',
             'when `method` is callable it must be stored unchanged as self.method'),
            (False, 'getattr(builders, method)', 'a builder name is resolved in enspara.msm.builders',
             'when `method` is not callable it must be resolved with getattr(builders, method)')):
        live = [(s, v) for s, v, pols in guarded if (not case) not in pols]
        if not live:
            ck.bad(rule, mod, init, 'MSM.__init__', construct,
                   'self.method is not stored when callable(method) is %s: %s' % (case, badmsg))
            continue
        s, v = live[-1]
        e = fi.expand(v)
        while isinstance(e, ast.IfExp):
            t = _cx(e.test)
            if t == test:
                e = e.body if case else e.orelse
            elif t == 'not ' + test:
                e = e.orelse if case else e.body
            else:
                break
        verdict = classify(e, [want], scope={'method', 'builders', 'getattr', 'callable'})
        if verdict[0] == 'match' and not params_intact(fi, v, {'method'}):
            verdict = ('far', 0, None)
        ck.decide(verdict, rule, mod, s, 'MSM.__init__', '%s  [callable(method) is %s]' % (u(s), case), okmsg,
                  'method must be kept if callable, else resolved with getattr(builders, method): ' + badmsg)


# ---------------------------------------------------------------------------
# D2 (also used for calc_imp_times, and by C11 through d2_pipeline)

# value-preserving container conversions of a matrix (not a different matrix)
_SAME_MATRIX = ('%s', '%s.copy()', '%s.tocsr()', '%s.tocsc()', '%s.tocoo()', '%s.tolil()', '%s.toarray()', 'np.asarray(%s)',
                'np.array(%s)', 'np.asanyarray(%s)', 'scipy.sparse.csr_matrix(%s)', 'sparse.csr_matrix(%s)')


def _pipeline(ck, rule, mod, fn, qual, is_builder, trim_atom):
    """counts -> optional trim -> builder on one data flow.  Returns
    (fi, builder statement, builder call) or None."""
    fi = finfo(mod, fn)
    acs = [c for c in calls_in(fn) if _last(c) == 'assigns_to_counts']
    trs = [c for c in calls_in(fn) if _last(c) == 'trim_disconnected']
    bds = [c for c in calls_in(fn) if is_builder(fi, c)]
    if not (len(acs) == 1 and len(trs) == 1 and len(bds) == 1):
        ck.missing(rule, 'counts / trim / builder calls in %s (found %d / %d / %d)' % (qual, len(acs), len(trs), len(bds)))
        return None
    ac, tr, bd = acs[0], trs[0], bds[0]
    sa, st, sb = fi.stmt(ac), fi.stmt(tr), fi.stmt(bd)
    if not (isinstance(sa, ast.Assign) and sa.value is ac and len(sa.targets) == 1 and isinstance(sa.targets[0], ast.Name)):
        ck.missing(rule, 'the counts are not bound to a name: %s' % _short(sa))
        return None
    cn = sa.targets[0].id
    # role: trim_disconnected returns (mapping, trimmed counts); the elements are
    # identified by def-use from the call (tuple unpacking, `r = trim(..)` + r[0] / r[1],
    # `trim(..)[1]`), see result_component
    if st is None or isinstance(st, (ast.Return, ast.Expr)):
        ck.missing(rule, 'the trimming result is not bound: %s' % _short(st if st is not None else tr))
        return None
    if not isinstance(sb, (ast.Assign, ast.Expr, ast.Return, ast.AnnAssign)):
        ck.missing(rule, 'statement of the builder call not recognised')
        return None
    dom, reach = fi.cfg.dominates, fi.cfg.reachable
    ok = dom(sa, st) and dom(sa, sb) and reach(st, sb) and not reach(sb, st)
    ck.check(ok, rule + '.order', mod, sb, qual, '%s ; %s ; %s' % (u(sa)[:40], u(st)[:60], u(sb)[:60]),
             'counts -> optional trim -> builder', '%s must count, then (optionally) trim, then call the builder' % qual)
    # --- trimming: iff the trim flag, on the counted matrix
    tps = params(ck.repo.mod(TM).func('trim_disconnected'))
    tb = bind_args(tr, tps)
    targ = tb.get(tps[0]) if tb is not None else None
    atom_nodes = guard_atom_nodes(fi, st)
    atoms = None if atom_nodes is None else [(t, pol) for t, pol, _ in atom_nodes]
    if targ is None or atoms is None:
        ck.missing(rule + '.trim', 'argument / condition of the trimming call: %s' % _short(st))
    else:
        a = peel(fi, targ)
        if not isinstance(a, ast.Name):
            ck.missing(rule + '.trim', 'matrix handed to trim_disconnected is not a variable: %s' % _short(targ))
        else:
            src = origins(fi, a)
            okc = src == {(sa, cn)}
            okg = atoms == [(trim_atom, True)]
            # definite: the call does not depend on the flag being set (unconditional, negated, or guarded by
            # conditions that do not mention it); the flag inside a richer condition is not decided
            # (unconditional, negated, guarded by conditions that do not mention it), or it depends on the flag AND
            # on the counted data (trimming must be a function of the configuration alone)
            import re
            flag_note = ''
            mentions = lambda t, name: re.search(r'(?<![\w.])%s(?![\w])' % re.escape(name), t) is not None
            flag_pos = (trim_atom, True) in atoms
            richer = any(mentions(t, trim_atom) and t != trim_atom for t, _ in atoms)
            if okg:
                vg = 'match'
            elif not richer and not flag_pos:
                vg = 'near'
            elif not richer and flag_pos and any(t != trim_atom and mentions(t, cn) for t, _ in atoms):
                vg = 'near'
            else:
                vg = 'far'
                # the flag inside a richer condition that is a function of the flag ALONE (`flag is True`,
                # `flag == 1`, `isinstance(flag, bool) and flag`): decided by its truth table over the classes
                # of flag objects; the choice must act through its truthiness, as in every other consumer
                table = flag_guard_table(atom_nodes, trim_atom)
                if table is not None:
                    wrong = [c for c in _FLAG_CLASSES if table[c] is not None and table[c] != (c in ('T', 't'))]
                    if wrong:
                        vg = 'near'
                        flag_note = '; for %s the trimming is %s' % (
                            _FLAG_CLASS_TEXT[wrong[0]], 'skipped' if wrong[0] in ('T', 't') else 'performed')
                    elif all(table[c] is not None for c in _FLAG_CLASSES):
                        vg = 'match'
            # definite: a parameter or a pure numpy function of the counts other than a container conversion
            vc = 'match'
            if not okc:
                vc = 'near'
                for d, nm in src:
                    if (d is sa and nm == cn) or d == 'PARAM':
                        continue
                    v = fi.def_value(d, nm) if not isinstance(d, str) else None
                    if v is None or classify(fi.expand(v), [f % cn for f in _SAME_MATRIX], scope={cn})[0] != 'near':
                        vc = 'far'
            ck.decide(_worst(vg, vc), rule + '.trim', mod, st, qual, u(st),
                      'trimming iff %s, applied to the counted matrix' % trim_atom,
                      'trim must be conditional on %s (found: %s%s) and be applied to the counts produced by assigns_to_counts%s'
                      % (trim_atom, _atoms_text(atoms), flag_note, '' if okc else ' (it receives `%s`, which is not that matrix)' % u(a)))
    # --- the builder receives the counted, possibly trimmed matrix
    if any(isinstance(x, ast.Starred) for x in bd.args) or any(k.arg is None for k in bd.keywords):
        ck.missing(rule + '.builder', 'arguments of the builder call: %s' % _short(bd))
    elif len(bd.args) != 1 or bd.keywords:
        ck.bad(rule + '.builder', mod, sb, qual, u(sb),
               'the builder must be called with exactly the counts matrix (builders are arbitrary callables C -> (C, T, pi)); found %s' % _short(bd))
    else:
        a = peel(fi, bd.args[0])
        if not isinstance(a, ast.Name):
            verdict = classify(fi.expand(bd.args[0]), [cn], scope={cn})
            ck.decide(verdict if verdict[0] != 'match' else ('far', 0, None), rule + '.builder', mod, sb, qual, u(sb),
                      '', 'the builder must receive the counted (and possibly trimmed) matrix itself')
        else:
            src = origins(fi, a)
            kinds = {}
            for d, nm in src:
                kinds[(d, nm)] = 'counts' if (d is sa and nm == cn) else result_component(fi, d, nm, st, tr)
            ks = set(kinds.values())
            ok = 1 in ks and ks <= {'counts', 1}
            # definite: the mapping (element 0), a parameter, or only the untrimmed counts reach the builder;
            # an origin that could not be classified (helper, arithmetic on the counts ...) is not decided
            unknown = [k for k, v in kinds.items() if v is None or (v == 'other' and k[0] not in ('PARAM', 'UNBOUND'))
                       or (isinstance(v, int) and v > 1)]
            why = ''
            if 0 in ks:
                why = ' (it receives the MAPPING returned by trim_disconnected)'
            elif ks == {'counts'}:
                why = ' (the trimmed counts never reach the builder)'
            elif not ok:
                why = ' (it may receive a value that is neither the counts nor the trimmed counts)'
            # an unclassified origin that is a pure numpy function of the counts alone is a DIFFERENT matrix
            sc = {cn} | {nm for _, nm in src}
            altered = [k for k in unknown if not isinstance(k[0], str) and fi.def_value(k[0], k[1]) is not None and
                       classify(fi.expand(fi.def_value(k[0], k[1])), [f % n for n in sorted(sc) for f in _SAME_MATRIX], scope=sc)[0] == 'near']
            if not ok and unknown and 0 not in ks and len(altered) < len(unknown):
                ck.missing(rule + '.builder', 'origin of the matrix handed to the builder not recognised: %s' % '; '.join(
                    _short(k[0], 60) if not isinstance(k[0], str) else k[0] for k in unknown[:3]))
            else:
                ck.check(ok, rule + '.builder', mod, sb, qual, u(sb), 'the builder gets exactly the counted (and possibly trimmed) matrix',
                         'the builder must be called on the counts produced above, trimmed if requested' + why)
    return fi, sb, bd


def d2_pipeline(ck, mod):
    rule = 'C16.D2.pipeline'
    fit = mod.func('MSM.fit')
    ck.analysed(mod, fit)
    me = params(fit)[0]
    r = _pipeline(ck, rule, mod, fit, 'MSM.fit', lambda fi, c: fi.xu(c.func) == '%s.method' % me, '%s.trim' % me)
    if r is None:
        return
    fi, sb, bd = r
    # builder result (C, T, pi) -> tcounts_, tprobs_, eq_probs_
    stores = {}
    for s, attr, v, idx in attr_stores(fit, me):
        stores.setdefault(attr, []).append((s, v, idx))
    opaque = _opaque_attr_writes(fit, me, plain_methods=('method',))
    for i, attr in enumerate(('tcounts_', 'tprobs_', 'eq_probs_')):
        ss = stores.get(attr, [])
        if not ss:
            if opaque:
                ck.missing(rule + '.builder', 'store of %s.%s in fit' % (me, attr))
            else:
                ck.bad(rule + '.builder', mod, sb, 'MSM.fit', 'self.%s' % attr, 'fit never stores self.%s (element %d of the builder result)' % (attr, i))
            continue
        # a store that another store of the same attribute follows on every path to the exit
        # (a reset before fitting) does not determine the fitted state
        final = [x for x in ss if not any(y[0] is not x[0] and fi.cfg.postdominates(y[0], x[0]) and not fi.cfg.reachable(y[0], x[0])
                                          for y in ss)]
        for s, v, idx in final or ss:
            comp = component_of(fi, v, idx, s, sb, bd)
            if comp is None:
                ck.missing(rule + '.builder', 'value stored in self.%s not traced to the builder result: %s' % (attr, _short(s)))
                continue
            ck.check(comp == i, rule + '.builder', mod, s, 'MSM.fit', 'self.%s <- %s' % (attr, _short(s, 100)),
                     'builder result (C, T, pi) stored in order: self.%s is element %d' % (attr, i),
                     'builders return (counts, tprobs, eq_probs): self.%s must be element %d of the result of self.method(...); it is %s'
                     % (attr, i, 'a value that does not come from the builder (`%s`)' % _short(fi.xu(v) if idx is None else u(v), 60)
                        if comp == 'other' else 'element %d' % comp))


# ---------------------------------------------------------------------------
# D3

_SERIALISERS = {'mmwrite', 'mmread', 'savetxt', 'loadtxt', 'genfromtxt', 'save', 'load', 'savez', 'dump', 'dumps', 'loads',
                'tofile', 'fromfile', 'write', 'read', 'writerows', 'save_npz', 'load_npz', 'to_csv', 'read_csv'}


# (writer, readers...) of the serialisation families the rule knows
_FAMILIES = (('mmwrite', 'mmread'), ('savetxt', 'loadtxt', 'genfromtxt'), ('save', 'load'), ('savez', 'load'),
             ('save_npz', 'load_npz'), ('dump', 'load'), ('dumps', 'loads'), ('tofile', 'fromfile'), ('to_csv', 'read_csv'),
             ('write', 'read'), ('writerows', 'reader'))


def _pair_verdict(calls, accept):
    """'match' if one of the calls is an accepted (de)serialiser, 'near' if a
    different known one is used instead, 'far' otherwise."""
    if any(accept(c) for c in calls):
        return 'match'
    if any(_last(c) in _SERIALISERS for c in calls):
        return 'near'
    return 'far'


def _worst(*vs):
    return 'near' if 'near' in vs else ('far' if 'far' in vs else 'match')


def _keyed_copy_loops(fn, fi, is_source):
    """Loops that build a dict with exactly the keys of a mapping M accepted
    by the predicate is_source(name node, loop): `D2 = {}` (the only binding of D2, dominating the loop), then
    `for k, v in M.items(): D2[k] = <expr>` / `for k in M[.keys()]: D2[k] =
    <expr>` with the store unconditional in the loop body, no exit from the
    body, the key variable not rebound, and no other mutation of D2 anywhere
    in the function (it is only indexed / read through get, items, keys,
    values).  Yields (loop, Name node of M in the header, Name node of D2 in
    the store, 'D2', the statement `D2 = {}`).  The loop form of `{k: <expr> for k, v in M.items()}`."""
    parent = {}
    for n in ast.walk(fn):
        for c in ast.iter_child_nodes(n):
            parent[c] = n
    for lp in walk_local(fn):
        if not isinstance(lp, ast.For) or lp.orelse:
            continue
        it, tg = lp.iter, lp.target
        src = key = None
        if isinstance(it, ast.Call) and isinstance(it.func, ast.Attribute) and not it.args and not it.keywords and \
                isinstance(it.func.value, ast.Name):
            if it.func.attr == 'items' and isinstance(tg, ast.Tuple) and len(tg.elts) == 2:
                src, key = it.func.value, tg.elts[0]
            elif it.func.attr == 'keys':
                src, key = it.func.value, tg
        elif isinstance(it, ast.Name):
            src, key = it, tg
        if not isinstance(key, ast.Name) or not is_source(src, lp):
            continue
        if any(isinstance(x, (ast.Break, ast.Continue, ast.Return, ast.Raise, ast.Yield, ast.YieldFrom)) for b in lp.body for x in ast.walk(b)):
            continue
        if any(isinstance(x, ast.Name) and x.id == key.id and isinstance(x.ctx, (ast.Store, ast.Del)) for b in lp.body for x in ast.walk(b)):
            continue
        st = [b for b in lp.body if isinstance(b, ast.Assign) and len(b.targets) == 1 and isinstance(b.targets[0], ast.Subscript)
              and isinstance(b.targets[0].value, ast.Name) and isinstance(b.targets[0].slice, ast.Name) and b.targets[0].slice.id == key.id]
        if len(st) != 1:
            continue
        base = st[0].targets[0].value
        name = base.id
        if name == src.id:
            continue
        inits = [a for a in assigns_to(fn, name)]
        if sum(1 for x in ast.walk(fn) if isinstance(x, ast.Name) and x.id == name and isinstance(x.ctx, (ast.Store, ast.Del))) != 1:
            continue
        if len(inits) != 1 or not isinstance(inits[0], ast.Assign) or len(inits[0].targets) != 1 or not isinstance(inits[0].targets[0], ast.Name):
            continue
        v = inits[0].value
        empty = (isinstance(v, ast.Dict) and not v.keys) or (isinstance(v, ast.Call) and call_name(v) in ('dict', 'collections.OrderedDict', 'OrderedDict')
                                                             and not v.args and not v.keywords)
        if not empty or not fi.cfg.dominates(inits[0], lp):
            continue
        clean = True
        for n in walk_local(fn):
            if not (isinstance(n, ast.Name) and n.id == name) or n is base or n is inits[0].targets[0]:
                continue
            par = parent.get(n)
            gp = parent.get(par)
            if isinstance(par, ast.Subscript) and par.value is n and isinstance(par.ctx, ast.Load):
                continue
            if isinstance(par, ast.Attribute) and par.value is n and par.attr in ('get', 'items', 'keys', 'values') and \
                    isinstance(gp, ast.Call) and gp.func is par:
                continue
            clean = False
        if clean:
            yield lp, src, base, name, inits[0]


# ---- options of the (de)serialiser calls that change the REPRESENTATION of what is written / read back.
# Positional parameter lists of the library functions (scipy.io.mmwrite / mmread, numpy.savetxt / loadtxt, pickle.dump / load).
_IO_SIGS = {
    'mmwrite': ('target', 'a', 'comment', 'field', 'precision', 'symmetry'),
    'mmread': ('source',),
    'savetxt': ('fname', 'X', 'fmt', 'delimiter', 'newline', 'header', 'footer', 'comments', 'encoding'),
    'loadtxt': ('fname', 'dtype', 'comments', 'delimiter', 'converters', 'skiprows', 'usecols', 'unpack', 'ndmin', 'encoding', 'max_rows'),
    'dump': ('obj', 'file', 'protocol'),
    'load': ('file',),
}
# parameters that name the file / the data (decided by C16.D3.save-load.pairs) or that cannot change the values
_IO_NEUTRAL = {
    'mmwrite': ('target', 'a', 'comment'), 'mmread': ('source',),
    'savetxt': ('fname', 'X', 'header', 'footer', 'encoding'), 'loadtxt': ('fname', 'ndmin', 'encoding'),
    'dump': ('obj', 'file', 'protocol', 'fix_imports'), 'load': ('file', 'fix_imports'),
}
_FLOAT_TYPES = ('float', 'np.float64', 'numpy.float64', 'np.double', 'numpy.double', 'np.float_', 'np.longdouble', "'float64'", "'f8'",
                "'d'", "'float'", "'<f8'")
_LOSSY_TYPES = ('int', 'bool', 'np.int32', 'np.int64', 'np.intp', 'np.int_', 'np.uint8', 'np.uint32', 'np.uint64', 'np.float32',
                'np.float16', 'np.single', 'np.half', 'np.bool_', "'int'", "'i4'", "'i8'", "'f4'", "'f2'", "'float32'", "'int64'",
                "'int32'", "'float16'", "'bool'", "'i'", "'f'", "'l'")


def _fmt_roundtrips(fmt):
    """True / False for a printf format of ONE float64 whose text reads back
    as the same float64 / as another one; None if not understood."""
    import re
    if not isinstance(fmt, str):
        return None
    m = re.fullmatch(r'%[-+ #0]*\d*(?:\.(\d+))?([a-zA-Z])', fmt)
    if not m:
        return None
    prec, conv = m.group(1), m.group(2)
    if conv in 'diouxXc':
        return False                    # integer conversions truncate
    if conv == 'r':
        return True
    if conv == 's':
        return prec is None             # str(float64) is the shortest round-tripping repr; a precision cuts it
    p = 6 if prec is None else int(prec)
    if conv in 'eE':
        return p >= 16                  # 1 + p significant digits
    if conv in 'gG':
        return p >= 17
    if conv in 'fF':
        return False                    # fixed number of decimals: small values lose all their digits
    return None


def _io_option(fam, name, value, fi):
    """(verdict, why) for one option of a (de)serialiser call: 'match' -
    the values written / read are unchanged by it; 'near' - it definitely
    stores / returns other values for some model; 'far' - not decided."""
    e = fi.expand(value)
    lit = const_value(e, default=Ellipsis)
    is_none = isinstance(e, ast.Constant) and e.value is None
    txt = _cx(e)
    if name in _IO_NEUTRAL.get(fam, ()):
        return 'match', ''
    if fam == 'mmwrite':
        if name == 'field':
            if is_none or lit == 'real':
                return 'match', ''
            if lit in ('integer', 'pattern'):
                return 'near', ("field=%r makes the Matrix Market writer store %s: counts / probabilities are real numbers (a symmetrising "
                                "builder returns (C + C^T)/2, prior counts are fractional), so the matrix read back differs from the one saved"
                                % (lit, 'every entry truncated to an integer' if lit == 'integer' else 'only the sparsity pattern'))
            return 'far', 'field=%s' % txt
        if name == 'precision':
            if is_none:
                return 'match', ''
            if isinstance(lit, int) and not isinstance(lit, bool):
                return ('match', '') if lit >= 16 else ('near', 'precision=%d writes fewer significant digits than a float64 needs to round-trip (17)' % lit)
            return 'far', 'precision=%s' % txt
        if name == 'symmetry':
            if is_none or (isinstance(lit, str) and lit.lower() in ('general', 'auto')):
                return 'match', ''
            if isinstance(lit, str) and lit.lower() in ('symmetric', 'skew-symmetric', 'hermitian'):
                return 'near', ('symmetry=%r stores one triangle only: transition counts / probabilities are not symmetric in general, '
                                'the other triangle is lost' % lit)
            return 'far', 'symmetry=%s' % txt
    if fam == 'mmread':
        if name == 'spmatrix':
            return 'match', ''          # container class only (MSM.__eq__ coerces)
    if fam == 'savetxt':
        if name == 'fmt':
            rt = _fmt_roundtrips(lit) if isinstance(lit, str) else None
            if rt is None:
                return 'far', 'fmt=%s' % txt
            return ('match', '') if rt else ('near', 'fmt=%r does not write the 17 significant digits a float64 needs to round-trip' % lit)
        if name == 'delimiter':
            return ('match', '') if lit == ' ' else ('far', 'delimiter=%s' % txt)
        if name == 'newline':
            return ('match', '') if lit == '\n' else ('far', 'newline=%s' % txt)
        if name == 'comments':
            return ('match', '') if lit == '# ' or lit == '#' else ('far', 'comments=%s' % txt)
    if fam == 'loadtxt':
        if name == 'dtype':
            if is_none or txt in _FLOAT_TYPES:
                return 'match', ''
            if txt in _LOSSY_TYPES:
                return 'near', 'dtype=%s converts the float64 values that were written to a narrower type' % txt
            return 'far', 'dtype=%s' % txt
        if name == 'comments':
            return ('match', '') if lit == '#' or lit == '# ' else ('far', 'comments=%s' % txt)
        if name == 'delimiter':
            return ('match', '') if is_none or lit == ' ' else ('far', 'delimiter=%s' % txt)
        if name == 'skiprows':
            if lit == 0 and not isinstance(lit, bool):
                return 'match', ''
            if isinstance(lit, int) and not isinstance(lit, bool) and lit > 0:
                return 'far', 'skiprows=%d (rows are dropped unless save writes as many extra lines)' % lit
            return 'far', 'skiprows=%s' % txt
        if name == 'unpack':
            return ('match', '') if lit is False else ('far', 'unpack=%s' % txt)
        if name == 'max_rows':
            return ('match', '') if is_none else ('far', 'max_rows=%s' % txt)
        if name in ('converters', 'usecols'):
            return ('match', '') if is_none else ('far', '%s=%s' % (name, txt))
    if fam in ('dump', 'load'):
        if name in ('encoding', 'errors', 'buffers', 'buffer_callback'):
            return ('match', '') if is_none or name in ('encoding', 'errors') else ('far', '%s=%s' % (name, txt))
    return 'far', '%s=%s' % (name, txt)


def _io_options(ck, rule, mod, fi, qual, key, call):
    """Every argument of a located writer / reader call, beyond the file and
    the data, is one the rule knows to leave the stored values unchanged."""
    fam = _last(call)
    sig = _IO_SIGS.get(fam)
    if sig is None:
        return
    b = bind_args(call, sig)
    if b is None:
        ck.missing(rule, 'arguments of %s cannot be bound statically' % _short(call))
        return
    vs, whys = [], []
    for name, value in b.items():
        v, why = _io_option(fam, name, value, fi)
        vs.append(v)
        if v != 'match':
            whys.append((v, why))
    verdict = _worst(*vs) if vs else 'match'
    why = '; '.join(w for v, w in whys if v == verdict)
    opts = ', '.join('%s=%s' % (n, _short(fi.xu(x), 30)) for n, x in b.items() if n not in _IO_NEUTRAL.get(fam, ())[:2])
    ck.decide(verdict, rule, mod, call, qual, '%s: %s(%s)' % (key, fam, opts),
              'no option of the %s call changes the values that are %s' % (fam, 'written' if qual.endswith('save') else 'read back'),
              '`%s`: %s - MSM.load(save(m)) is then not equal to m' % (_short(call, 100), why) if verdict == 'near' else
              'option of `%s` not recognised (%s)' % (_short(call, 100), why))


def d3_saveload(ck, mod):
    rule = 'C16.D3.save-load'
    save, load = mod.func('MSM.save'), mod.func('MSM.load')
    ck.analysed(mod, save)
    ck.analysed(mod, load)
    fs, fl = finfo(mod, save), finfo(mod, load)
    me = params(save)[0]

    # ---- save: the manifest dict is the dict literal that is json-dumped
    fd = None
    for c in calls_in(save):
        if call_name(c) in ('json.dump', 'json.dumps') and c.args and isinstance(c.args[0], ast.Name):
            ds = [d for d in defs_of(fs, c.args[0]) if isinstance(d, ast.Assign) and isinstance(fs.def_value(d, c.args[0].id), ast.Dict)]
            if len(ds) == 1 and len(defs_of(fs, c.args[0])) == 1:
                fd = ds[0]
    if fd is None:
        cand = [s for s in walk_local(save) if isinstance(s, ast.Assign) and isinstance(s.value, ast.Dict) and len(s.targets) == 1
                and isinstance(s.targets[0], ast.Name) and s.value.keys and all(isinstance(const_value(k), str) for k in s.value.keys)]
        cand = [s for s in cand if s.targets[0].id == 'fname_dict'] or cand
        if len(cand) != 1:
            ck.missing(rule, 'the manifest dict (key -> file name) in save')
            return
        fd = cand[0]
    D = fd.targets[0].id
    if not all(isinstance(const_value(k), str) for k in fd.value.keys):
        ck.missing(rule, 'manifest dict with non-literal keys')
        return
    keys = {k.value for k in fd.value.keys}
    helpers = set()
    for n in walk_local(save):
        if isinstance(n, ast.FunctionDef) and len(params(n)) == 1:
            p = params(n)[0]
            if any(isinstance(x, ast.Subscript) and isinstance(x.value, ast.Name) and x.value.id == D and
                   isinstance(x.slice, ast.Name) and x.slice.id == p for r in ast.walk(n) if isinstance(r, ast.Return) and r.value is not None
                   for x in ast.walk(r.value)):
                helpers.add(n.name)

    recognised = set()      # literal key nodes that were understood as naming a file

    def path_key(expr, depth=6):
        """Manifest key of the file a path expression names: D['key'] or
        helper('key') somewhere in it, looking through names with a single
        reaching definition (the key is a literal, so the value of such a
        name cannot denote another entry)."""
        if expr is None:
            return None
        for n in walk_expr(expr):
            if isinstance(n, ast.Subscript) and isinstance(n.value, ast.Name) and n.value.id == D and isinstance(const_value(n.slice), str):
                recognised.add(n.slice)
                return const_value(n.slice)
            if isinstance(n, ast.Call) and isinstance(n.func, ast.Name) and n.func.id in helpers:
                a = n.args[0] if n.args else (n.keywords[0].value if n.keywords else None)
                if isinstance(const_value(a), str):
                    recognised.add(a)
                    return const_value(a)
            if isinstance(n, ast.Name) and isinstance(n.ctx, ast.Load) and n.id != D and n.id not in helpers and depth > 0:
                ds = defs_of(fs, n)
                d = next(iter(ds)) if len(ds) == 1 else None
                v = fs.def_value(d, n.id) if d is not None and d not in ('PARAM', 'UNBOUND') else None
                if v is not None:
                    k = path_key(v, depth - 1)
                    if k is not None:
                        return k
        return None

    written = {}        # key -> (anchor node, [writer calls])
    opened = set()      # open(...) calls whose file was identified
    for w in walk_local(save):
        if isinstance(w, ast.With):
            for item in w.items:
                ce = item.context_expr
                if isinstance(ce, ast.Call) and _last(ce) == 'open':
                    key = path_key(arg_or_kw(ce, 0, 'file'))
                    if key is None:
                        if any(isinstance(c, ast.Call) and call_name(c) in ('json.dump', 'json.dumps')
                               for b in w.body for c in ast.walk(b)):
                            opened.add(ce)      # the manifest itself
                        continue
                    opened.add(ce)
                    h = item.optional_vars.id if isinstance(item.optional_vars, ast.Name) else None
                    body = [c for s in w.body for c in ast.walk(s) if isinstance(c, ast.Call)]
                    uses = [c for c in body if h and any(isinstance(a, ast.Name) and a.id == h
                                                         for a in list(c.args) + [k.value for k in c.keywords])]
                    ent = written.setdefault(key, (w, []))
                    ent[1].extend(uses)
        elif isinstance(w, ast.Call) and _last(w) != 'open' and not (isinstance(w.func, ast.Name) and w.func.id in helpers):
            for a in list(w.args) + [k.value for k in w.keywords]:
                key = path_key(a)
                if key is not None and not any(isinstance(x, ast.Call) and _last(x) == 'open' for x in ast.walk(a)):
                    written.setdefault(key, (w, []))[1].append(w)

    # ---- load: the manifest is what json.load returns; key-preserving re-mappings of it count too
    jl = [c for c in calls_in(load) if call_name(c) in ('json.load', 'json.loads')]
    sj = fl.stmt(jl[0]) if len(jl) == 1 else None
    if not (isinstance(sj, ast.Assign) and len(sj.targets) == 1 and isinstance(sj.targets[0], ast.Name)):
        ck.missing(rule, 'manifest read with json.load in load')
        return
    # def-use, not names: a use denotes the manifest iff every definition that reaches it (through plain copies) is
    # the json.load statement or a recognised key-preserving re-mapping of the manifest
    PM = {sj.targets[0].id}
    sites = {sj}
    ready = {}          # definition site -> statement that must dominate a read (the filling loop of a dict built by a loop)
    remapped = set()    # id() of the manifest uses inside a recognised key-preserving re-mapping

    def is_manifest(n, at=None):
        o = origins(fl, n)
        if not o or not all(d in sites for d, _ in o):
            return False
        return all(d not in ready or (at is not None and fl.cfg.dominates(ready[d], at)) for d, _ in o)
    grew = True
    while grew:
        grew = False
        for s in walk_local(load):
            if not (isinstance(s, ast.Assign) and len(s.targets) == 1 and isinstance(s.targets[0], ast.Name)) or s in sites:
                continue
            v = s.value
            key = gen = None
            if isinstance(v, ast.DictComp) and len(v.generators) == 1:
                key, gen = v.key, v.generators[0]
            elif isinstance(v, ast.Call) and call_name(v) == 'dict' and len(v.args) == 1 and isinstance(v.args[0], (ast.GeneratorExp, ast.ListComp)) \
                    and len(v.args[0].generators) == 1 and isinstance(v.args[0].elt, ast.Tuple) and len(v.args[0].elt.elts) == 2:
                key, gen = v.args[0].elt.elts[0], v.args[0].generators[0]
            if gen is None or gen.ifs:
                continue
            it, tg = gen.iter, gen.target
            if isinstance(it, ast.Call) and isinstance(it.func, ast.Attribute) and it.func.attr == 'items' and \
                    isinstance(it.func.value, ast.Name) and is_manifest(it.func.value, s) and isinstance(tg, ast.Tuple) and \
                    len(tg.elts) == 2 and isinstance(key, ast.Name) and u(key) == u(tg.elts[0]):
                PM.add(s.targets[0].id)
                remapped.add(id(it.func.value))
                sites.add(s)
                grew = True
        # the same re-mapping spelled as a loop: `D2 = {}` ; `for k, v in M.items(): D2[k] = <expr>` (or `for k in M`)
        for lp, src, base, name, init in _keyed_copy_loops(load, fl, lambda n, lp: is_manifest(n, lp)):
            if init not in sites:
                PM.add(name)
                remapped.update((id(src), id(base)))
                sites.add(init)
                ready[init] = lp
                grew = True
    read = {}           # key -> [Subscript nodes]
    for x in walk_local(load):
        if isinstance(x, ast.Subscript) and isinstance(x.value, ast.Name) and isinstance(const_value(x.slice), str) \
                and isinstance(x.ctx, ast.Load) and x.value.id in PM and is_manifest(x.value, fl.stmt(x)):
            read.setdefault(const_value(x.slice), []).append(x)

    # A declared key that is not seen written (read) is a violation only if the
    # function shows no trace of it: a file opened under a path that could not be
    # identified, the manifest handed to / iterated by something else, or the key
    # spelled somewhere the rule did not understand mean "not recognised".
    def unexplained(fn, dict_names, known_nodes, missing_keys):
        out = []
        for n in walk_local(fn):
            if isinstance(n, ast.Constant) and n.value in missing_keys and n not in known_nodes:
                out.append('key %r used at line %s' % (n.value, getattr(n, 'lineno', '?')))
            if isinstance(n, ast.Name) and n.id in dict_names and isinstance(n.ctx, ast.Load):
                par = mod.parent.get(n)
                gp = mod.parent.get(par) if par is not None else None
                if isinstance(par, ast.Subscript) and par.value is n and isinstance(const_value(par.slice), str):
                    continue
                if isinstance(par, ast.Call) and call_name(par) in ('json.dump', 'json.dumps') and par.args and par.args[0] is n:
                    continue
                if isinstance(par, ast.Attribute) and par.attr == 'update' and isinstance(gp, ast.Call) and gp.func is par:
                    continue
                if id(n) in remapped:
                    continue
                out.append('`%s` used at line %s' % (n.id, getattr(n, 'lineno', '?')))
        return out

    lost = keys - set(written)
    why = unexplained(save, {D}, set(fd.value.keys) | recognised, lost) if lost else []
    why += ['file opened under an unidentified path at line %s' % c.lineno for c in calls_in(save)
            if lost and _last(c) == 'open' and c not in opened]
    if lost and why:
        ck.missing(rule + '.keys', 'writer of %s in save not recognised (%s)' % (sorted(lost), '; '.join(why[:4])))
    else:
        ck.check(set(written) == keys, rule + '.keys', mod, fd, 'MSM.save', 'declared %s written %s' % (sorted(keys), sorted(written)),
                 'every declared file is written', 'save declares files it does not write (or vice versa): %s' % sorted(keys ^ set(written)))
    lost = keys - set(read)
    why = unexplained(load, PM, {x.slice for xs in read.values() for x in xs}, lost) if lost else []
    if lost and why:
        ck.missing(rule + '.keys', 'reader of %s in load not recognised (%s)' % (sorted(lost), '; '.join(why[:4])))
    else:
        ck.check(set(read) == keys, rule + '.keys', mod, load, 'MSM.load', 'read %s' % sorted(read),
                 'load reads exactly the files save writes', 'load and save disagree on the file keys: %s' % sorted(keys ^ set(read)))

    # ---- the object that load returns and how it is built
    rets = [r for r in returns_of(load) if r.value is not None]
    R = cons = cfgname = None
    if len(rets) == 1 and isinstance(peel(fl, rets[0].value), ast.Name):
        rn = peel(fl, rets[0].value)
        ds = defs_of(fl, rn)
        if len(ds) == 1:
            d = next(iter(ds))
            v = fl.def_value(d, rn.id) if d not in ('PARAM', 'UNBOUND') else None
            if isinstance(v, ast.Call):
                R, cons = rn.id, v
    if cons is None:
        ck.missing(rule + '.config', 'the object returned by load is not built by a single constructor call')
    else:
        cls = params(load)[0]
        star = [k for k in cons.keywords if k.arg is None]
        is_ctor = call_name(cons) in ('MSM', cls)
        ok = is_ctor and len(star) == 1 and not cons.args and len(cons.keywords) == 1
        verdict, detail = ('match' if ok else 'far'), 'load must rebuild the model as MSM(**config)'
        if is_ctor and not ok and not star:
            # explicit form MSM(p=config['p'], ...): every constructor parameter must be taken from the one saved
            # mapping under its own key; a parameter that is left out is reset to its default by load (definite);
            # constants only: the saved configuration is not used at all (definite); other values are not decided
            init_ps0 = params(mod.func('MSM.__init__'))[1:]
            b = bind_args(cons, init_ps0)
            vals = list(cons.args) + [k.value for k in cons.keywords]
            if (vals and all(isinstance(a, ast.Constant) for a in vals)) or (not vals and not _opaque_attr_writes(load, R)):
                verdict, detail = 'near', 'load builds the model from constants: the saved configuration is ignored'
            elif b is not None:
                srcs, odd, base_node = set(), [], None
                for pn, a in b.items():
                    e = peel(fl, a)
                    key = base = None
                    if isinstance(e, ast.Subscript) and isinstance(const_value(e.slice), str):
                        key, base = const_value(e.slice), peel(fl, e.value)
                    elif isinstance(e, ast.Call) and isinstance(e.func, ast.Attribute) and e.func.attr in ('get', 'pop') and \
                            len(e.args) == 1 and isinstance(const_value(e.args[0]), str):
                        key, base = const_value(e.args[0]), peel(fl, e.func.value)
                    if key is None or not isinstance(base, ast.Name) or pn not in init_ps0:
                        odd.append(pn)
                    else:
                        srcs.add(base.id)
                        base_node = base
                        if key != pn:
                            verdict, detail = 'near', 'constructor parameter `%s` is rebuilt from the saved entry %r' % (pn, key)
                if not odd and len(srcs) == 1:
                    cfgname = base_node
                if not odd and len(srcs) == 1 and verdict != 'near':
                    left_out = [pn for pn in init_ps0 if pn not in b]
                    if left_out:
                        verdict, detail = 'near', ('load rebuilds the model from explicit entries of the saved configuration and leaves out '
                                                   '%s: after save/load %s reset to the constructor default' % (
                                                       ', '.join('`%s`' % x for x in left_out), 'it is' if len(left_out) == 1 else 'they are'))
                    else:
                        verdict = 'match'
        ck.decide(verdict, rule + '.config', mod, cons, 'MSM.load',
                  u(cons) if not ok else 'MSM(**config)',
                  'model rebuilt from the saved configuration', detail)
        if ok:
            cfgname = peel(fl, star[0].value)

    path_funcs = ('os.path.join', 'os.path.abspath', 'os.path.normpath', 'os.path.expanduser', 'os.fspath', 'str',
                  'pathlib.Path', 'Path')

    def consumers(x, depth=4):
        """Calls that consume the file named by the manifest read x: the call
        the path is an argument of (path-building calls and temporaries that
        hold the path are looked through), or - for open(...) as h - the
        calls in the with body that take h."""
        n, call = x, None
        while n is not None and not isinstance(n, ast.stmt):
            n = mod.parent.get(n)
            if isinstance(n, ast.Call) and call_name(n) not in path_funcs:
                call = n
                break
        if call is None:
            if depth > 0 and isinstance(n, ast.Assign) and len(n.targets) == 1 and isinstance(n.targets[0], ast.Name):
                first, out = None, []
                for m in walk_local(load):
                    if isinstance(m, ast.Name) and m.id == n.targets[0].id and isinstance(m.ctx, ast.Load) and defs_of(fl, m) == {n}:
                        s2, cs = consumers(m, depth - 1)
                        first = first or s2
                        out.extend(cs)
                return first, out
            return None, []
        if _last(call) != 'open':
            return fl.stmt(call), [call]
        w = fl.stmt(call)
        if isinstance(w, ast.With):
            for item in w.items:
                if item.context_expr is call and isinstance(item.optional_vars, ast.Name):
                    h = item.optional_vars.id
                    return w, [c for s in w.body for c in ast.walk(s) if isinstance(c, ast.Call) and
                               any(isinstance(a, ast.Name) and a.id == h for a in list(c.args) + [k.value for k in c.keywords])]
        return w, []

    data_forms = lambda attr: [attr, 'np.array(%s)' % attr, 'np.asarray(%s)' % attr, '%s.copy()' % attr,
                               'np.ascontiguousarray(%s)' % attr, 'np.asanyarray(%s)' % attr]
    pairs = {'tcounts_': ('mmwrite', 'mmread', 1, 'a'), 'tprobs_': ('mmwrite', 'mmread', 1, 'a'),
             'eq_probs_': ('np.savetxt', 'np.loadtxt', 1, 'X'), 'config': ('pickle.dump', 'pickle.load', 0, 'obj'),
             'mapping_': ('self.mapping_.write', 'TrimMapping.load', None, None)}
    for k, (wfn, rfn, dpos, dkw) in pairs.items():
        attr = '%s.%s' % (me, k)
        wl, rl = wfn.split('.')[-1], rfn.split('.')[-1]
        # writer
        w = written.get(k)
        vw = 'far'
        io_calls = []       # located (function, FuncInfo, call) of the writer and of the reader(s)
        if w is not None:
            if k == 'mapping_':
                acc = lambda c: isinstance(c.func, ast.Attribute) and c.func.attr in ('write', 'save') and fs.xu(c.func.value) == attr
            else:
                acc = lambda c: _last(c) == wl
            vw = _pair_verdict(w[1], acc)
            if vw == 'match' and k != 'mapping_':
                wc = [c for c in w[1] if acc(c)][0]
                io_calls.append(('MSM.save', fs, wc))
                data = arg_or_kw(wc, dpos, dkw)
                if data is None:
                    vw = 'far'
                else:
                    vw = classify(fs.expand(data), data_forms(attr), scope={me})[0]
        # reader
        vr = 'far'
        for x in read.get(k, []):
            st, cs = consumers(x)
            if k == 'mapping_':
                acc = lambda c: isinstance(c.func, ast.Attribute) and c.func.attr in ('load', 'read') and \
                    u(c.func.value).split('.')[-1] == 'TrimMapping'
            else:
                acc = lambda c: _last(c) == rl and (k != 'config' or (call_name(c) or '').startswith('pickle.'))
            v1 = _pair_verdict(cs, acc)
            if v1 == 'match':
                rc = [c for c in cs if acc(c)][0]
                rs = fl.stmt(rc)
                if k != 'mapping_':
                    io_calls.append(('MSM.load', fl, rc))
                if k == 'config':
                    # the unpickled dict is what the constructor is called with
                    if cfgname is None:
                        v1 = 'far'
                    elif isinstance(cfgname, ast.Name) and isinstance(rs, ast.Assign) and defs_of(fl, cfgname) == {rs} \
                            and peel(fl, rs.value) is rc:
                        v1 = 'match'
                    elif cfgname is rc:
                        v1 = 'match'
                    else:
                        v1 = 'near' if isinstance(cfgname, ast.Name) and all(
                            d in ('PARAM', 'UNBOUND') or fl.def_value(d, cfgname.id) is not None for d in defs_of(fl, cfgname)) else 'far'
                else:
                    # role: the attribute of the returned object that receives what the reader returned, directly
                    # or through a temporary (`x = mmread(..); m.tprobs_ = x`)
                    def from_reader(v):
                        if peel(fl, v) is rc:
                            return True
                        return isinstance(v, ast.Name) and isinstance(rs, ast.Assign) and defs_of(fl, v) == {rs} and \
                            rs.value is rc and len(rs.targets) == 1 and isinstance(rs.targets[0], ast.Name)
                    tg = [a for s, a, v, idx in attr_stores(load, R) if idx is None and v is not None and from_reader(v)] if R else []
                    if R is None or not isinstance(rs, ast.Assign):
                        v1 = 'far'
                    elif not tg:
                        v1 = 'near' if isinstance(rs.targets[0], ast.Attribute) and rs.value is rc else 'far'
                    else:
                        v1 = 'match' if all(a == k for a in tg) else 'near'
            vr = v1
            if v1 != 'match':
                break
        # a consistent pair of another known (de)serialiser family is a different file format, not a mismatch
        if vw == 'near' and vr == 'near' and w is not None:
            wf = {i for c in w[1] for i, fam in enumerate(_FAMILIES) if _last(c) == fam[0]}
            rf = {i for x in read.get(k, []) for c in consumers(x)[1] for i, fam in enumerate(_FAMILIES) if _last(c) in fam[1:]}
            if wf & rf:
                vw = vr = 'far'
        ck.decide(_worst(vw, vr), rule + '.pairs', mod, w[0] if w else save, 'MSM.save/load', '%s: %s <-> %s' % (k, wfn, rfn),
                  'matching writer/reader for %s, same attribute on both sides' % k,
                  '`%s` must be written with %s(%s) and read back with %s into msm.%s (writer: %s, reader: %s)' % (
                      k, wfn, attr, rfn, k, {'match': 'ok', 'near': 'differs', 'far': 'not recognised'}[vw],
                      {'match': 'ok', 'near': 'differs', 'far': 'not recognised'}[vr]))
        # representation: no option of the located writer / reader changes the values (field=, fmt=, dtype= ...)
        for qual, f_i, call in io_calls:
            _io_options(ck, rule + '.representation', mod, f_i, qual, k, call)
    # ---- precision of the probabilities
    w = written.get('tprobs_')
    if w:
        wc = [c for c in w[1] if _last(c) == 'mmwrite']
        pe = kwarg(wc[0], 'precision') if wc else None
        if pe is None and wc and len(wc[0].args) > 4:
            pe = wc[0].args[4]
        pr = const_value(fs.expand(pe)) if pe is not None else None
        if wc and pe is not None and pr is None:
            ck.missing(rule + '.precision', 'precision of the probabilities is not a literal: %s' % _short(pe))
        elif wc:
            ck.check(isinstance(pr, int) and pr >= 17, rule + '.precision', mod, wc[0], 'MSM.save', 'mmwrite(tprobs_) precision=%s' % pr,
                     'probabilities written with %s significant digits (>= 17 round-trips float64)' % pr,
                     'float64 needs 17 significant digits to round-trip through text; tprobs are written with precision=%s' % pr)
    # ---- config covers __init__ parameters
    cfg = mod.func('MSM.config')
    ck.analysed(mod, cfg)
    fc = finfo(mod, cfg)
    cme = params(cfg)[0]
    r = [x for x in returns_of(cfg) if x.value is not None]
    init_ps = params(mod.func('MSM.__init__'))[1:]
    ckeys = None
    if len(r) == 1:
        e = peel(fc, r[0].value)
        if isinstance(e, ast.Dict) and all(isinstance(const_value(k), str) for k in e.keys):
            ckeys = {const_value(k): v for k, v in zip(e.keys, e.values)}
        elif isinstance(e, ast.Call) and call_name(e) == 'dict' and not e.args and all(k.arg for k in e.keywords):
            ckeys = {k.arg: k.value for k in e.keywords}
    if ckeys is None:
        ck.missing(rule + '.config', 'MSM.config does not return a dict literal')
    else:
        for p in init_ps:
            got = ckeys.get(p)
            # missing key / another attribute of self: definite; a value the rule cannot see through: not decided
            verdict = 'near' if got is None else classify(fc.expand(got), ['%s.%s' % (cme, p)], scope={cme})[0]
            ck.decide(verdict, rule + '.config', mod, r[0], 'MSM.config', "'%s': %s" % (p, fc.xu(got) if got is not None else None),
                      'constructor parameter %s is part of the saved configuration' % p,
                      'config lacks constructor parameter `%s` (or maps it to another attribute): MSM(**config) '
                      'after load resets it to its default' % p)
        extra = set(ckeys) - set(init_ps)
        ck.check(not extra, rule + '.config', mod, r[0], 'MSM.config', 'extra keys %s' % sorted(extra),
                 'every config key is a constructor parameter', 'config has keys that __init__ does not accept: MSM(**config) raises TypeError')
    mapping_rules(ck)


# ---------------------------------------------------------------------------
# D5

def d5_timescales(ck):
    rule = 'C16.D5.timescales'
    mod = ck.repo.mod(TS)
    fn = mod.func('calc_imp_times')
    ck.analysed(mod, fn)
    Q = 'calc_imp_times'
    ps = params(fn)
    if len(ps) < 7:
        ck.missing(rule, 'signature calc_imp_times(assigns, lag_time, n_states, n_times, method, sliding_window, trim)')
        return
    assigns, lag, nst, ntm, meth, slw, trim = ps[:7]
    # counts -> optional trim -> builder (same rule as MSM.fit)
    r = _pipeline(ck, rule + '.pipeline', mod, fn, Q, lambda fi, c: is_param(fi, c.func, meth), trim)
    fi = finfo(mod, fn)
    # the counting call receives the same lag, window and state count
    ac = [c for c in calls_in(fn) if _last(c) == 'assigns_to_counts']
    bind = bind_args(ac[0], params(ck.repo.mod(TM).func('assigns_to_counts'))) if len(ac) == 1 else None
    if bind is None:
        ck.missing(rule + '.pipeline', 'assigns_to_counts call in calc_imp_times')
    else:
        want = {'assigns': assigns, 'lag_time': lag, 'max_n_states': nst, 'sliding_window': slw}
        bad, unknown = [], []
        for k, p in want.items():
            if bind.get(k) is None:
                bad.append(k)
            elif not is_param(fi, bind[k], p):
                # another parameter / a pure function of the parameters: a different value; anything else is not decided
                (bad if classify(fi.expand(bind[k]), [p], scope=set(ps))[0] == 'near' else unknown).append(k)
        if unknown and not bad:
            ck.missing(rule + '.pipeline', 'arguments of %s not recognised: %s' % (_short(ac[0], 60), ', '.join(
                '%s=%s' % (k, _short(fi.xu(bind[k]), 40)) for k in unknown)))
        else:
            ck.check(not bad and set(bind) == set(want), rule + '.pipeline', mod, ac[0], Q, u(ac[0]),
                 'counts use the same lag, window and state count',
                 'assigns_to_counts must receive assigns, lag_time, sliding_window and max_n_states=n_states (wrong: %s)' % ', '.join(
                     '%s=%s' % (k, _short(fi.xu(bind[k]), 40) if bind.get(k) is not None else 'MISSING') for k in bad or sorted(set(bind) ^ set(want))))
    # eigenspectrum(T, n_eigs = n_times + 1)
    es = [c for c in calls_in(fn) if _last(c) == 'eigenspectrum']
    if len(es) != 1:
        ck.missing(rule + '.count', 'eigenspectrum call in calc_imp_times (found %d)' % len(es))
        return
    e = es[0]
    se = fi.stmt(e)
    eps = params(ck.repo.mod(TM).func('eigenspectrum'))
    eb = bind_args(e, eps)
    if eb is None or len(eps) < 2 or eps[0] not in eb:
        ck.missing(rule + '.count', 'arguments of %s' % _short(e))
        return
    targ, narg = eb.get(eps[0]), eb.get(eps[1])
    if r is not None:
        _, sb, bd = r
        comp = component_of(fi, targ, None, se, sb, bd)
        if comp is None:
            ck.missing(rule + '.pipeline', 'matrix handed to eigenspectrum not traced to the builder result: %s' % _short(targ))
        else:
            ck.check(comp == 1, rule + '.pipeline', mod, sb, Q, '%s ; %s' % (_short(sb, 60), _short(e, 60)),
                     'T is the second element of the builder result',
                     'builders return (C, T, pi): the matrix decomposed must be taken from position 1 (found: %s)' % (
                         'a value that is not the builder result' if comp == 'other' else 'position %d' % comp))
    # one extra eigenvalue: n_eigs is n_times + 1
    verdict, shown = 'far', u(narg) if narg is not None else 'MISSING'
    if narg is None:
        verdict = 'near'
    else:
        n = peel(fi, narg)
        if isinstance(n, ast.Name) and n.id == ntm:
            ds = defs_of(fi, n)
            if ds == {'PARAM'}:
                verdict = 'near'
            elif len(ds) == 1 and isinstance(next(iter(ds)), ast.AugAssign):
                a = next(iter(ds))
                shown = '%s ; %s' % (u(a), u(e))
                if fi.rd.defs_at(a, ntm) == {'PARAM'}:
                    verdict = 'match' if isinstance(a.op, ast.Add) and const_value(fi.expand(a.value)) == 1 else 'near'
            elif len(ds) == 1 and isinstance(next(iter(ds)), ast.Assign):
                a = next(iter(ds))
                shown = '%s ; %s' % (u(a), u(e))
                v = fi.def_value(a, ntm)
                if v is not None and all(fi.rd.defs_at(a, m.id) == {'PARAM'} for m in walk_expr(v) if isinstance(m, ast.Name) and m.id == ntm):
                    verdict = classify(v, ['%s + 1' % ntm, '1 + %s' % ntm], scope={ntm})[0]
        else:
            verdict = classify(fi.expand(narg), ['%s + 1' % ntm, '1 + %s' % ntm], scope={ntm})[0]
            if verdict == 'match' and not params_intact(fi, narg, {ntm}):
                verdict = 'far'
    ck.decide(verdict, rule + '.count', mod, e, Q, shown,
              'one extra eigenvalue is requested for the stationary mode', 'n_times + 1 eigenvalues of T must be requested')
    # formula on the returned value
    rets = [x for x in returns_of(fn) if x.value is not None]
    # role: the eigenvalues are element 0 of what eigenspectrum returns -
    # `vals, vecs = eigenspectrum(..)`, `s = eigenspectrum(..)` used as s[0], or `vals = eigenspectrum(..)[0]`
    E = EN = None
    others = set()
    tt = se.targets[0] if isinstance(se, ast.Assign) and len(se.targets) == 1 else None
    if tt is not None and se.value is e:
        if isinstance(tt, (ast.Tuple, ast.List)) and len(tt.elts) == 2 and isinstance(tt.elts[0], ast.Name):
            E = EN = tt.elts[0].id
            others = {x.id for x in tt.elts[1:] if isinstance(x, ast.Name)}
        elif isinstance(tt, ast.Name):
            E, EN = '%s[0]' % tt.id, tt.id
    elif isinstance(tt, ast.Name) and isinstance(se.value, ast.Subscript) and se.value.value is e and const_value(se.value.slice) == 0:
        E = EN = tt.id
    if not rets or E is None:
        ck.missing(rule + '.formula', 'returned value / unpacking of eigenspectrum in calc_imp_times')
    # every return path (early return of the bare row / return of the padded row) yields the formula
    for ret in (rets if E is not None else []):
        val = ret.value
        anchor = fi.stmt(peel(fi, val)) if isinstance(val, ast.Name) and peel(fi, val) is not val else ret
        base = _unpadded(fi, val)
        if base is not None:
            anchor, val = base
        forms = ['-%s / np.log(%s[1:])' % (lag, E), '-(%s / np.log(%s[1:]))' % (lag, E), '%s / -np.log(%s[1:])' % (lag, E),
                 '-1 * %s / np.log(%s[1:])' % (lag, E), '-1.0 * %s / np.log(%s[1:])' % (lag, E), '%s / np.log(%s[1:]) * -1' % (lag, E),
                 '-%s / np.log(%s)[1:]' % (lag, E), '(-%s / np.log(%s))[1:]' % (lag, E), 'np.negative(%s) / np.log(%s[1:])' % (lag, E),
                 '-np.divide(%s, np.log(%s[1:]))' % (lag, E), 'np.divide(-%s, np.log(%s[1:]))' % (lag, E)]
        verdict = classify(fi.expand(val), forms, scope={lag, EN} | others)
        if verdict[0] == 'match':
            leaves = leaf_names(fi, val)
            if not all(defs_of(fi, n) == ({'PARAM'} if n.id == lag else {se}) for n in leaves if n.id in (lag, EN)):
                verdict = ('far', 0, None)
        ck.decide(verdict, rule + '.formula', mod, anchor or ret, Q, 'returns %s' % _short(fi.xu(val)),
                  't_k = -lag / log(lambda_k) for k >= 1 (stationary eigenvalue skipped)',
                  'implied timescales must be -lag_time / np.log(e_vals[1:])')
    # implied_timescales forwards its arguments to the parameter of the same meaning
    fn2 = mod.func('implied_timescales')
    ck.analysed(mod, fn2)
    f2 = finfo(mod, fn2)
    cs = [c for c in calls_in(fn2) if _last(c) == 'calc_imp_times']
    b2 = bind_args(cs[0], ps) if len(cs) == 1 else None
    if b2 is None:
        ck.missing(rule + '.pipeline', 'calc_imp_times call in implied_timescales')
        return
    c = cs[0]
    p2 = params(fn2)
    lags = p2[1] if len(p2) > 1 else 'lag_times'
    # the lag argument iterates over lag_times
    lv = b2.get(lag)
    lag_ok = None
    if isinstance(lv, ast.Name):
        n = c
        while n is not None and n is not fn2:
            n = mod.parent.get(n)
            gens = n.generators if isinstance(n, (ast.ListComp, ast.GeneratorExp, ast.SetComp)) else []
            for g in gens:
                if isinstance(g.target, ast.Name) and g.target.id == lv.id:
                    lag_ok = is_param(f2, g.iter, lags) and not g.ifs
            if isinstance(n, ast.For) and isinstance(n.target, ast.Name) and n.target.id == lv.id and lag_ok is None:
                lag_ok = is_param(f2, n.iter, lags) and defs_of(f2, lv) == {n}
            if lag_ok is not None:
                break
    same = {assigns: 'assigns', meth: 'method', slw: 'sliding_window', trim: 'trim'}
    a2 = p2[0] if p2 else 'assigns'
    wrong, unknown = [], []
    for k in ps[:7]:
        got = b2.get(k)
        if got is None:
            wrong.append('%s=MISSING' % k)
        elif k == lag:
            if lag_ok is None:
                unknown.append('%s=%s' % (k, _short(u(got), 40)))
            elif not lag_ok:
                wrong.append('%s=%s' % (k, _short(u(got), 40)))
        elif k in same:
            if not (same[k] in p2 and is_param(f2, got, same[k])):
                wrong.append('%s=%s' % (k, _short(f2.xu(got), 40)))
        else:
            # n_states / n_times: the local of implied_timescales with the same
            # meaning (n_states = assigns.max() + 1; n_times is the clipped argument)
            local = {nst: 'n_states', ntm: 'n_times'}.get(k, k)
            g = peel(f2, got)
            if k == nst:
                # role: the number of states is the largest state id + 1, whatever the local is called
                vn = classify(f2.expand(got), ['%s.max() + 1' % a2, '1 + %s.max()' % a2, 'int(%s.max()) + 1' % a2, 'int(%s.max() + 1)' % a2,
                                               'np.amax(%s) + 1' % a2, 'int(np.amax(%s)) + 1' % a2, '%s.max(axis=None) + 1' % a2,
                                               'max(%s.flatten()) + 1' % a2, '%s.flatten().max() + 1' % a2, '%s.ravel().max() + 1' % a2],
                              scope={a2})[0]
                if vn == 'match' and params_intact(f2, got, {a2}):
                    continue
                if vn == 'near':
                    wrong.append('%s=%s (the state count is %s.max() + 1)' % (k, _short(f2.xu(got), 40), a2))
                    continue
                if isinstance(got, ast.Name) and got.id == local and len(defs_of(f2, got)) != 1:
                    continue        # several definitions of the local (not expanded): as before, accepted by name
                unknown.append('%s=%s' % (k, _short(f2.xu(got), 40)))
                continue
            if isinstance(got, ast.Name) and got.id == local or isinstance(g, ast.Name) and g.id == local:
                continue
            if isinstance(g, ast.Name) and (g.id in p2 or g.id in ('n_states', 'n_times') or (isinstance(lv, ast.Name) and g.id == lv.id)):
                wrong.append('%s=%s' % (k, g.id))
            else:
                unknown.append('%s=%s' % (k, _short(f2.xu(got), 40)))
    if unknown and not wrong:
        ck.missing(rule + '.pipeline', 'arguments of %s not recognised: %s' % (_short(c), ', '.join(unknown)))
    else:
        ck.check(not wrong, rule + '.pipeline', mod, c, 'implied_timescales', u(c),
                 'arguments forwarded to the parameters of the same meaning',
                 'calc_imp_times(assigns, lag_time, n_states, n_times, method, sliding_window, trim) must receive each argument in the '
                 'position of the same meaning (wrong: %s)' % ', '.join(wrong))


def d5_clip(ck):
    """How implied_timescales derives the number of timescales it asks
    calc_imp_times for from its `n_times` argument.  Besides the default for
    None (C16.D8.optional-arguments) the argument may only be REDUCED, to the
    number of non-stationary modes `n_states - 1 = assigns.max()`:
    every store `n_times = B` executed under a comparison of n_times with a
    bound B' (and every `n_times = min(n_times, B)`) is an upper clamp
    (B' < n_times or B' <= n_times), compares with the bound it assigns
    (B' = B), and that bound is assigns.max().  Decided with integer-linear
    forms over the parameters (lin_form)."""
    rule = 'C16.D5.timescales.clip'
    mod = ck.repo.mod(TS)
    fn = mod.func('implied_timescales')
    fi = finfo(mod, fn)
    ps = params(fn)
    if len(ps) < 4:
        return
    a2 = ps[0]
    p = 'n_times' if 'n_times' in ps else ps[3]
    Q = 'implied_timescales'
    SMAX = ('expr', C('%s.max()' % a2))
    bound_ok = lambda f: f == {SMAX: 1}
    show = lambda f: ' + '.join(('%s%s' % ('' if c == 1 else '%d*' % c, s_[1]) if s_ != 1 else str(c)) for s_, c in sorted(
        f.items(), key=lambda x: str(x[0]))) or '0'
    for st in assigns_to(fn, p):
        if not isinstance(st, (ast.Assign, ast.AnnAssign)):
            continue
        v = fi.def_value(st, p)
        if v is None:
            continue
        # form (ii): n_times = min(n_times, B) / max(...)
        if isinstance(v, ast.Call) and call_name(v) in ('min', 'max', 'np.minimum', 'np.maximum', 'np.min', 'np.max') and len(v.args) == 2 \
                and not v.keywords and any(isinstance(a, ast.Name) and a.id == p for a in v.args):
            B = [a for a in v.args if not (isinstance(a, ast.Name) and a.id == p)]
            Bf = _lin_clean(lin_form(fi, B[0], st)) if len(B) == 1 else None
            upper = call_name(v) in ('min', 'np.minimum', 'np.min')
            if Bf is None:
                ck.missing(rule, 'bound of the clamp %s' % _short(st, 80))
            else:
                ck.check(upper and bound_ok(Bf), rule, mod, st, Q, 'clamp of `%s`: %s' % (p, _short(st, 80)),
                         '`%s` is reduced to the number of non-stationary modes' % p,
                         '`%s` %s; the argument may only be reduced, to n_states - 1 = %s.max() (bound here: %s)' % (
                             _short(st, 80), 'limits `%s` from above' % p if upper else 'RAISES `%s` to the bound' % p, a2, show(Bf)))
            continue
        if p in names_loaded(v):
            continue
        # form (i): guarded store
        cmps = []
        for a in fi.cfg.nodes:
            if isinstance(a, Assume) and fi.cfg.dominates(a, st):
                for cj in definite_atoms(a.test, a.polarity):
                    if isinstance(cj, Cmp) and cj.as_less() is not None and any(
                            isinstance(x, ast.Name) and x.id == p for x in (cj.lhs, cj.rhs)):
                        cmps.append((a, cj))
        if not cmps:
            continue                # not a clamp (the default for None ...)
        Bf = _lin_clean(lin_form(fi, v, st))
        for a, cj in cmps:
            small, strict, big = cj.as_less()
            upper = isinstance(big, ast.Name) and big.id == p
            other = small if upper else big
            Of = _lin_clean(lin_form(fi, other, a.owner))
            construct = 'clamp of `%s`: if %r: %s' % (p, cj, _short(st, 60))
            if not upper:
                ck.bad(rule, mod, a.owner, Q, construct,
                       '`%s` is executed when `%s` is BELOW the bound: a smaller number of timescales requested by the caller is raised to '
                       'the bound, a larger one is not limited; the argument may only be reduced (to n_states - 1)' % (_short(st, 60), p))
                continue
            if Bf is None or Of is None:
                ck.missing(rule, 'bounds of the clamp `if %r: %s`' % (cj, _short(st, 60)))
                continue
            if Bf != Of:
                ck.bad(rule, mod, a.owner, Q, construct,
                       'the bound that `%s` is compared with (%s) is not the bound it is set to (%s): values in between are not clamped / '
                       'the clamp changes values that are within range' % (p, show(Of), show(Bf)))
                continue
            ck.check(bound_ok(Bf), rule, mod, a.owner, Q, construct, '`%s` is reduced to the number of non-stationary modes' % p,
                     '`%s` must be limited to n_states - 1 = %s.max() (one eigenvalue is the stationary one); the bound here is %s' % (
                         p, a2, show(Bf)))


# padding / length normalisation of a 1-d result (its-trim-ragged)
_PADDERS = ('np.concatenate', 'np.append', 'np.hstack', 'np.pad', 'np.resize', 'np.full', 'np.r_')


def _is_pad_of(fi, v, name):
    """`v` extends the array `name` at its END by filler values:
    np.concatenate([name, <filler>]) / np.append(name, <filler>) /
    np.hstack((name, <filler>)) / np.pad(name, (0, k), ...)."""
    if not isinstance(v, ast.Call):
        return False
    cn = call_name(v)
    if cn in ('np.concatenate', 'np.hstack') and v.args and isinstance(v.args[0], (ast.List, ast.Tuple)) and len(v.args[0].elts) == 2:
        a, b = v.args[0].elts
        return isinstance(a, ast.Name) and a.id == name and not any(isinstance(x, ast.Name) and x.id == name for x in walk_expr(b))
    if cn == 'np.append' and len(v.args) >= 2:
        a, b = v.args[0], v.args[1]
        return isinstance(a, ast.Name) and a.id == name and not any(isinstance(x, ast.Name) and x.id == name for x in walk_expr(b))
    if cn == 'np.pad' and len(v.args) >= 2 and isinstance(v.args[0], ast.Name) and v.args[0].id == name:
        w = v.args[1]
        return isinstance(w, (ast.Tuple, ast.List)) and len(w.elts) == 2 and const_value(w.elts[0]) == 0
    return False


def _unpadded(fi, val):
    """(definition statement, expression) of the array that a returned Name
    holds before an optional trailing padding: the name has exactly one
    reaching definition that is not of the form `name = <pad of name>`, and
    every padding definition pads the value of that one.  None otherwise."""
    e = peel(fi, val)
    if isinstance(e, ast.Call):
        # return np.concatenate([<formula>, <filler>]) / np.append(<formula>, <filler>) / np.pad(<formula>, (0, k))
        cn = call_name(e)
        first = None
        if cn in ('np.concatenate', 'np.hstack') and e.args and isinstance(e.args[0], (ast.List, ast.Tuple)) and len(e.args[0].elts) == 2:
            first = e.args[0].elts[0]
        elif cn in ('np.append', 'np.pad') and len(e.args) >= 2:
            first = e.args[0]
            if cn == 'np.pad' and not (isinstance(e.args[1], (ast.Tuple, ast.List)) and len(e.args[1].elts) == 2 and const_value(e.args[1].elts[0]) == 0):
                first = None
        if first is not None:
            return (fi.stmt(e) or fi.stmt(val)), first
        return None
    if not isinstance(val, ast.Name):
        return None
    ds = defs_of(fi, val)
    if len(ds) < 2 or 'PARAM' in ds or 'UNBOUND' in ds:
        return None
    pads, bases = [], []
    for d in ds:
        v = fi.def_value(d, val.id) if isinstance(d, (ast.Assign, ast.AnnAssign)) else None
        (pads if v is not None and _is_pad_of(fi, v, val.id) else bases).append(d)
    if len(bases) != 1 or fi.def_value(bases[0], val.id) is None:
        return None
    for d in pads:
        inner = fi.rd.defs_at(d, val.id)
        if not inner <= (set(pads) | set(bases)):
            return None
    return bases[0], fi.def_value(bases[0], val.id)


def lin_form(fi, e, st, depth=10):
    """Integer-linear form {symbol: coefficient} (symbol 1 = the constant) of
    the expression `e` as evaluated at statement `st`, over the symbols
    ('param', p) - the value of parameter p at entry - and ('len', X, defs) -
    the length of the array X as defined at `defs`.  Names are resolved
    through their single reaching definition (`n = <expr>`, `n += c`,
    `n -= c`).  None if the expression is not of that kind."""
    if depth < 0 or e is None:
        return None
    add = lambda a, b, k=1: None if a is None or b is None else {s: a.get(s, 0) + k * b.get(s, 0) for s in set(a) | set(b)}
    cv = const_value(e, default=None)
    if isinstance(cv, int) and not isinstance(cv, bool):
        return {1: cv}
    if isinstance(e, ast.Name):
        ds = fi.rd.defs_at(st, e.id)
        if ds == {'PARAM'}:
            return {('param', e.id): 1}
        if len(ds) != 1:
            return None
        d = next(iter(ds))
        if isinstance(d, ast.AugAssign) and isinstance(d.target, ast.Name) and d.target.id == e.id and isinstance(d.op, (ast.Add, ast.Sub)):
            return add(lin_form(fi, ast.Name(id=e.id, ctx=ast.Load()), d, depth - 1), lin_form(fi, d.value, d, depth - 1),
                       1 if isinstance(d.op, ast.Add) else -1)
        v = fi.def_value(d, e.id) if isinstance(d, (ast.Assign, ast.AnnAssign)) else None
        return lin_form(fi, v, d, depth - 1) if v is not None else None
    if isinstance(e, ast.BinOp) and isinstance(e.op, (ast.Add, ast.Sub)):
        return add(lin_form(fi, e.left, st, depth - 1), lin_form(fi, e.right, st, depth - 1), 1 if isinstance(e.op, ast.Add) else -1)
    if isinstance(e, ast.BinOp) and isinstance(e.op, ast.Mult):
        a, b = lin_form(fi, e.left, st, depth - 1), lin_form(fi, e.right, st, depth - 1)
        for x, y in ((a, b), (b, a)):
            if x is not None and y is not None and set(x) <= {1}:
                return {s_: x.get(1, 0) * c for s_, c in y.items()}
        return None
    if isinstance(e, ast.UnaryOp) and isinstance(e.op, ast.USub):
        a = lin_form(fi, e.operand, st, depth - 1)
        return None if a is None else {s_: -c for s_, c in a.items()}
    arr = None
    if isinstance(e, ast.Call) and call_name(e) in ('len', 'np.size') and len(e.args) == 1 and not e.keywords:
        arr = e.args[0]
    elif isinstance(e, ast.Attribute) and e.attr == 'size':
        arr = e.value
    elif isinstance(e, ast.Subscript) and isinstance(e.value, ast.Attribute) and e.value.attr == 'shape' and const_value(e.slice, default=None) == 0:
        arr = e.value.value
    if isinstance(arr, ast.Name):
        return {('len', arr.id, frozenset(id(d) if not isinstance(d, str) else d for d in fi.rd.defs_at(st, arr.id))): 1}
    if isinstance(e, ast.Call) and call_name(e) == 'int' and len(e.args) == 1 and not e.keywords:
        inner = lin_form(fi, e.args[0], st, depth - 1)
        if inner is not None:
            return inner            # int() of an integer-valued form
    if isinstance(e, (ast.Call, ast.Attribute, ast.Subscript)):
        ns = [m for m in walk_expr(e) if isinstance(m, ast.Name) and isinstance(m.ctx, ast.Load)]
        free = [m for m in ns if m.id not in ('np', 'numpy', 'int', 'len', 'max', 'min')]
        if free and all(fi.rd.defs_at(st, m.id) == {'PARAM'} for m in free):
            return {('expr', _cx(e)): 1}        # an opaque value computed from the parameters alone
    return None


def _lin_clean(f):
    return {s_: c for s_, c in f.items() if c != 0} if f is not None else None


def _filler_count(v, row):
    """(count expression) of the filler a padding expression appends to the
    array `row` (see _is_pad_of); None if the filler is not of a known form."""
    if not isinstance(v, ast.Call):
        return None
    cn = call_name(v)
    filler = None
    if cn in ('np.concatenate', 'np.hstack') and v.args and isinstance(v.args[0], (ast.List, ast.Tuple)) and len(v.args[0].elts) == 2:
        filler = v.args[0].elts[1]
    elif cn == 'np.append' and len(v.args) >= 2:
        filler = v.args[1]
    elif cn == 'np.pad' and len(v.args) >= 2 and isinstance(v.args[1], (ast.Tuple, ast.List)) and len(v.args[1].elts) == 2:
        return v.args[1].elts[1]
    if filler is None:
        return None
    if isinstance(filler, ast.Call) and call_name(filler) in ('np.full', 'np.zeros', 'np.ones', 'np.empty', 'np.repeat', 'np.tile') and filler.args:
        a = filler.args[1] if call_name(filler) in ('np.repeat', 'np.tile') and len(filler.args) > 1 else filler.args[0]
        if isinstance(a, (ast.Tuple, ast.List)) and len(a.elts) == 1:
            a = a.elts[0]
        return a
    if isinstance(filler, ast.BinOp) and isinstance(filler.op, ast.Mult):
        for x, y in ((filler.left, filler.right), (filler.right, filler.left)):
            if isinstance(x, ast.List) and len(x.elts) == 1:
                return y
    return None


def _pad_arithmetic(ck, rule, mod, fi, fn, ntm, normalised):
    """The padding of the row is sized and guarded so that the row has the
    REQUESTED length: with D = n_times(at entry) - len(row), the filler has D
    entries and the padding statement is executed whenever D >= 1.  Returns
    True if it reported (ok or bad); False if the form is not one it reads."""
    st = fi.stmt(normalised)
    rows = [a for a in ast.walk(normalised) if isinstance(a, ast.Name)]
    row = next((a for a in rows if _is_pad_of(fi, normalised, a.id)), None)
    if st is None or row is None:
        return False
    k = _filler_count(normalised, row.id)
    kf = _lin_clean(lin_form(fi, k, st)) if k is not None else None
    if kf is None:
        return False
    N0 = ('param', ntm)
    L = ('len', row.id, frozenset(id(d) if not isinstance(d, str) else d for d in fi.rd.defs_at(st, row.id)))
    want = {N0: 1, L: -1}
    Q = 'calc_imp_times'
    construct = 'number of filler entries appended to the row: %s' % _short(fi.xu(k), 80)
    if not set(kf) <= {N0, L, 1}:
        return False
    if kf != want:
        ck.bad(rule, mod, st, Q, construct,
               'the row must be padded to the requested length: with the %s requested at entry and len(%s) values obtained the filler '
               'needs %s - len(%s) entries; `%s` evaluates to %s' % (
                   ntm, row.id, ntm, row.id, _short(k, 60),
                   ' + '.join(('%d*%s' % (c, 'len(%s)' % s_[1] if s_[0] == 'len' else s_[1]) if s_ != 1 else str(c)) for s_, c in sorted(
                       kf.items(), key=lambda x: str(x[0]))) or '0'))
        return True
    # the guard: true for every D >= 1
    bad_guard = None
    for a in fi.cfg.nodes:
        if not (isinstance(a, Assume) and fi.cfg.dominates(a, st)):
            continue
        for cj in conjuncts(a.test, a.polarity) or []:
            if isinstance(cj, Cmp):
                g = _lin_clean(add_lin(lin_form(fi, cj.lhs, a.owner), lin_form(fi, cj.rhs, a.owner), -1))
                op = cj.op
            else:
                g = _lin_clean(lin_form(fi, cj[1], a.owner))
                op = ast.NotEq if cj[2] else ast.Eq
            if g is None or not set(g) <= {N0, L, 1} or g.get(N0, 0) != -g.get(L, 0):
                continue
            ca, cb = g.get(N0, 0), g.get(1, 0)
            if ca == 0:
                continue
            test = {ast.Lt: lambda x: x < 0, ast.LtE: lambda x: x <= 0, ast.Gt: lambda x: x > 0, ast.GtE: lambda x: x >= 0,
                    ast.Eq: lambda x: x == 0, ast.NotEq: lambda x: x != 0}.get(op)
            if test is None:
                continue
            fails = [D for D in (1, 2, 3, 10 ** 6) if not test(ca * D + cb)]
            if fails:
                bad_guard = (a, cj, fails[0])
    if bad_guard is not None:
        a, cj, D = bad_guard
        ck.bad(rule, mod, a.owner, Q, 'condition under which the row is padded: %s' % _short(repr(cj) if isinstance(cj, Cmp) else u(cj[1]), 80),
               'the padding `%s` must run whenever fewer values than requested were obtained; under this condition it is skipped when '
               '%d value(s) are missing (rows of different lengths: implied_timescales cannot stack them)' % (_short(st, 80), D))
        return True
    ck.ok(rule, mod, st, construct, 'the row is padded to the requested length: %s' % _short(normalised, 80))
    return True


def add_lin(a, b, k=1):
    return None if a is None or b is None else {s_: a.get(s_, 0) + k * b.get(s_, 0) for s_ in set(a) | set(b)}


def d5_length(ck):
    """its-trim-ragged.  implied_timescales stacks one row per lag time into a
    2-d array, so every row must have the same length.  A row is
    e_vals[1:] of eigenspectrum(T, n_eigs=n_times+1), and eigenspectrum
    returns min(n_eigs, N) values (a `[:n_eigs]` truncation - C16.D4 - is an
    upper bound only).  n_times is clipped against the UNtrimmed state
    count, so when calc_imp_times trims, N is data dependent and can be
    smaller than n_times + 1 for some lag times only.  Necessary: the length
    of the row is normalised to n_times (padding), or the number of
    eigenvalues obtained is compared with n_times, or the caller writes the
    rows into a preallocated table instead of stacking them."""
    rule = 'C16.D5.timescales.length'
    mod = ck.repo.mod(TS)
    fn, fn2 = mod.func('calc_imp_times'), mod.func('implied_timescales')
    fi, f2 = finfo(mod, fn), finfo(mod, fn2)
    ps = params(fn)
    if len(ps) < 7:
        return
    ntm = ps[3]
    construct = 'length of the row returned by calc_imp_times vs. n_times when the model is trimmed'
    trims = [c for c in calls_in(fn) if _last(c) == 'trim_disconnected']
    es = [c for c in calls_in(fn) if _last(c) == 'eigenspectrum']
    if not trims:
        ck.ok(rule, mod, fn, construct, 'calc_imp_times does not trim: the matrix has the requested number of states')
        return
    if len(es) != 1:
        ck.missing(rule, 'eigenspectrum call in calc_imp_times (found %d)' % len(es))
        return
    # (a) the callee normalises the length / relates it to n_times
    lens = ('len', 'np.size', 'np.shape')
    rets = [r for r in returns_of(fn) if r.value is not None]
    normalised = None
    for r in rets:
        cands = [r.value]
        for n in walk_expr(r.value):
            if isinstance(n, ast.Name):
                for d in defs_of(fi, n):
                    v = fi.def_value(d, n.id) if isinstance(d, (ast.Assign, ast.AnnAssign)) else None
                    if v is not None:
                        cands.append(v)
        for v in cands:
            if any(isinstance(c, ast.Call) and call_name(c) in _PADDERS for c in walk_expr(v)) and \
                    (ntm in names_loaded(fi.expand(v)) or ntm in fi.derives_from(v)[0]):
                normalised = v
    compared = None
    for a in fi.cfg.nodes:
        if isinstance(a, Assume):
            t = fi.expand(a.test)
            has_len = any((isinstance(c, ast.Call) and call_name(c) in lens) or
                          (isinstance(c, ast.Attribute) and c.attr in ('shape', 'size')) for c in ast.walk(t))
            if has_len and ntm in names_loaded(t):
                compared = a
    if normalised is not None:
        if _pad_arithmetic(ck, rule, mod, fi, fn, ntm, normalised):
            return
        ck.ok(rule, mod, fi.stmt(normalised) or fn, construct, 'the row is padded to the requested length: %s' % _short(normalised, 80))
        return
    if compared is not None:
        ck.ok(rule, mod, compared.owner, construct, 'the number of values obtained is compared with n_times: %s' % _short(compared.test, 80))
        return
    # (b) how does the caller assemble the rows?
    cs = [c for c in calls_in(fn2) if _last(c) == 'calc_imp_times']
    rets2 = [r for r in returns_of(fn2) if r.value is not None]
    if len(cs) != 1 or len(rets2) != 1:
        ck.missing(rule, 'calc_imp_times call / return of implied_timescales')
        return
    rv = f2.expand(rets2[0].value)
    stacked = isinstance(rv, ast.Call) and call_name(rv) in ('np.array', 'np.asarray', 'np.vstack', 'np.stack', 'np.row_stack') or \
        (isinstance(rv, ast.Call) and isinstance(rv.func, ast.Attribute) and rv.func.attr == 'copy' and getattr(rv, '_from_np_array', False))
    if not stacked:
        ck.missing(rule, 'the way implied_timescales assembles the rows is not recognised: %s' % _short(rv, 100))
        return
    # the caller may normalise the rows itself before stacking them (padding call, length test): not decided here
    caller_norm = [c for c in calls_in(fn2) if call_name(c) in _PADDERS] + [
        a.test for a in f2.cfg.nodes if isinstance(a, Assume) and any(
            (isinstance(c, ast.Call) and call_name(c) in lens) or (isinstance(c, ast.Attribute) and c.attr in ('shape', 'size'))
            for c in ast.walk(f2.expand(a.test)))]
    if caller_norm:
        ck.missing(rule, 'implied_timescales seems to normalise the row lengths itself: %s' % _short(caller_norm[0], 80))
        return
    ck.bad(rule, mod, rets[0] if rets else fn, 'calc_imp_times', construct,
           'with trim=True the matrix decomposed is the TRIMMED one, whose size depends on the data and the lag time, while '
           '%s was clipped against the untrimmed state count; eigenspectrum returns min(n_eigs, N) values, so the row '
           '`%s` is shorter for lag times at which more states are trimmed, nothing pads it or compares its length with %s, '
           'and implied_timescales stacks the rows with `%s`: ValueError (inhomogeneous shape) instead of a '
           '(len(lag_times), n_times) table. Pad the missing timescales with nan.'
           % (ntm, _short(fi.xu(rets[0].value), 60) if rets else '?', ntm, _short(rets2[0].value, 60)))


# ---------------------------------------------------------------------------
# D3 additions after the bug hunt: equality on dense counts, shape of the
# populations read back, overwriting an existing model

_SPARSE_ONLY = ('nnz', 'getnnz', 'tocsr', 'tocsc', 'tocoo', 'todense', 'toarray', 'todok', 'tolil', 'indices', 'indptr',
                'eliminate_zeros', 'count_nonzero', 'getformat', 'format')
_COERCE_SPARSE = ('csr_matrix', 'csc_matrix', 'coo_matrix', 'lil_matrix', 'dok_matrix', 'bsr_matrix', 'dia_matrix',
                  'csr_array', 'csc_array', 'coo_array', 'lil_array', 'dok_array', 'find')


def d3_equality(ck, mod):
    """eq-dense-counts.  Container-type provenance: tcounts_ / tprobs_ are
    whatever the builder callable returns (builders._apply_prior_counts turns
    sparse counts into ndarray / np.matrix whenever prior counts are added)
    or what mmread returns (ndarray for an 'array' file), so inside MSM they
    are "dense or sparse".  An attribute that only scipy.sparse containers
    have (`.nnz` ...) may therefore be read from an expression over them only
    after a sparse coercion (sparse.csr_matrix(x) ...) or under an
    issparse(...) guard."""
    rule = 'C16.D3.equality.container'
    fn = mod.functions.get('MSM.__eq__')
    if fn is None:
        ck.missing(rule, 'MSM.__eq__')
        return
    ck.analysed(mod, fn)
    fi = finfo(mod, fn)
    objs = set(params(fn)[:2])
    fitted = ('tcounts_', 'tprobs_')
    n = 0

    def fitted_refs(e, coerced, out):
        if isinstance(e, ast.Call) and _last(e) in _COERCE_SPARSE:
            coerced = True
        if isinstance(e, ast.Attribute) and e.attr in fitted and isinstance(e.value, ast.Name) and e.value.id in objs:
            out.append((e, coerced))
            return
        for c in ast.iter_child_nodes(e):
            fitted_refs(c, coerced, out)

    for a in walk_local(fn):
        if not (isinstance(a, ast.Attribute) and a.attr in _SPARSE_ONLY and isinstance(a.ctx, ast.Load)):
            continue
        refs = []
        fitted_refs(fi.expand(a.value), False, refs)
        if not refs:
            continue
        n += 1
        st = fi.stmt(a)
        guards = set()
        for g in fi.cfg.nodes:
            if isinstance(g, Assume) and st is not None and fi.cfg.dominates(g, st):
                for cj in conjuncts(g.test, g.polarity) or []:
                    if isinstance(cj, tuple) and cj[0] == 'expr' and cj[2] is True and isinstance(cj[1], ast.Call) and \
                            _last(cj[1]) in ('issparse', 'isspmatrix') and cj[1].args:
                        guards.add(fi.xu(cj[1].args[0]))
        raw = [r for r, co in refs if not co and u(r) not in guards]
        which = sorted({r.attr for r, _ in refs})
        ck.check(not raw, rule, mod, st or a, 'MSM.__eq__', '.%s of an expression over %s' % (a.attr, ' / '.join(which)),
                 'the operands are coerced to a scipy.sparse container (or tested with issparse) before the sparse-only attribute is read',
                 '`%s`: `.%s` exists only on scipy.sparse containers, but %s is whatever the builder returned (every builder '
                 'called with prior_counts returns DENSE counts, see builders._apply_prior_counts) or what mmread read back '
                 '(ndarray for a dense file): comparing two dense matrices gives an ndarray, and `.%s` raises AttributeError, so '
                 'MSM.load(save(m)) == m cannot be evaluated for such models. Coerce both sides, e.g. sparse.csr_matrix(x)'
                 % (_short(a, 80), a.attr, ' / '.join('self.' + w for w in which), a.attr))
    if not n:
        ck.ok(rule, mod, fn, 'MSM.__eq__', 'no sparse-only attribute is read from the fitted matrices')


def d3_shape(ck, mod):
    """load-single-state-eqprobs.  np.loadtxt / np.genfromtxt squeeze axes of
    length one unless ndmin is given: a per-state vector written with
    np.savetxt comes back 0-dimensional when the model has one state."""
    rule = 'C16.D3.save-load.shape'
    load = mod.func('MSM.load')
    fl = finfo(mod, load)
    n = 0
    for s in walk_local(load):
        if not isinstance(s, ast.Assign):
            continue
        for t in s.targets:
            if not (isinstance(t, ast.Attribute) and t.attr == 'eq_probs_'):
                continue
            v = fl.expand(s.value)
            readers = [c for c in ast.walk(v) if isinstance(c, ast.Call) and _last(c) in ('loadtxt', 'genfromtxt')]
            if not readers:
                continue
            n += 1
            rc = readers[0]
            nd = kwarg(rc, 'ndmin')
            kept = nd is not None and isinstance(const_value(nd), int) and const_value(nd) >= 1
            # a wrapper that restores the axis
            for c in ast.walk(v):
                if isinstance(c, ast.Call) and (call_name(c) in ('np.atleast_1d', 'np.ravel') or
                                                (isinstance(c.func, ast.Attribute) and c.func.attr in ('ravel', 'flatten', 'reshape'))) \
                        and any(x is rc for x in ast.walk(c)):
                    if not (isinstance(c.func, ast.Attribute) and c.func.attr == 'reshape') or (c.args and const_value(c.args[0]) == -1):
                        kept = True
            # the array passes through a call the rule does not know (a helper may restore the axis): not decided
            known_wrappers = ('np.asarray', 'np.array', 'np.asanyarray', 'np.ascontiguousarray', 'np.squeeze', 'np.float64', 'float')
            opaque = [c for c in ast.walk(v) if isinstance(c, ast.Call) and c is not rc and any(x is rc for x in ast.walk(c)) and
                      not (call_name(c) in known_wrappers or (isinstance(c.func, ast.Attribute) and
                                                             c.func.attr in ('astype', 'copy', 'squeeze') and
                                                             any(x is rc for x in ast.walk(c.func.value))))]
            if not kept and opaque:
                ck.missing(rule, 'eq_probs_ read back through %s' % _short(opaque[0], 80))
                continue
            ck.check(kept, rule, mod, s, 'MSM.load', 'dimensionality of eq_probs_ read back by load',
                     'the populations are read back as a 1-d array whatever their length',
                     '`%s`: np.%s squeezes axes of length one unless ndmin=1 is passed, so for a model with a single state '
                     '(e.g. trimming leaves one state) the populations come back with shape () instead of (1,): '
                     'not the array that was saved (indexing / len() raise)' % (_short(s, 100), _last(rc)))
    if not n:
        ck.missing(rule, 'the statement of MSM.load that reads eq_probs_ with np.loadtxt')


def d3_overwrite(ck, mod):
    """save-force-overwrite.  Truth table over the guard: a removal call that
    cannot remove directories (os.remove / os.unlink raise for a directory,
    os.rmdir for a non-empty one - a saved model is a non-empty directory)
    executed only when os.path.isdir(<same path>) holds always raises."""
    rule = 'C16.D3.save-load.overwrite'
    save = mod.func('MSM.save')
    fs = finfo(mod, save)
    n = 0
    for c in calls_in(save):
        cn = call_name(c) or ''
        if cn not in ('os.remove', 'os.unlink', 'os.rmdir', 'shutil.rmtree') or not c.args:
            continue
        st = fs.stmt(c)
        target = fs.xu(c.args[0])
        isdir = None
        for g in fs.cfg.nodes:
            if isinstance(g, Assume) and st is not None and fs.cfg.dominates(g, st):
                for cj in conjuncts(g.test, g.polarity) or []:
                    if isinstance(cj, tuple) and cj[0] == 'expr' and isinstance(cj[1], ast.Call) and \
                            call_name(cj[1]) == 'os.path.isdir' and cj[1].args and fs.xu(cj[1].args[0]) == target:
                        isdir = cj[2]
        if isdir is None:
            continue
        n += 1
        ok = (cn == 'shutil.rmtree') if isdir else (cn != 'shutil.rmtree')
        ck.check(ok, rule, mod, st or c, 'MSM.save', 'removal of an existing model under force (guard: isdir(path) is %s)' % isdir,
                 'the removal call fits what the guard established about the path',
                 '`%s` is executed only when os.path.isdir(%s) is %s: %s; a saved model is always a (non-empty) directory, so '
                 'save(path, force=True) on an existing model raises instead of overwriting it and the old model stays on disk '
                 '(use shutil.rmtree)' % (_short(c, 60), target, isdir,
                                          'os.remove/os.unlink raise IsADirectoryError for a directory and os.rmdir OSError for a '
                                          'non-empty one' if isdir else 'shutil.rmtree raises NotADirectoryError for a file'))
    if not n:
        has_force = 'force' in params(save)
        if has_force:
            ck.missing(rule, 'the removal of an existing directory under `force` in MSM.save')


def _copy_aliases(fi, fn, name):
    """Names that `name` is a plain copy of, transitively (`a = b`, also as an
    element of a paired tuple assignment): ([name, b, ...], {alias: copy
    statements on the chain from `name` down to the alias})."""
    names, chain, todo = [name], {name: []}, [name]
    while todo:
        n = todo.pop(0)
        for s in assigns_to(fn, n):
            v = fi.def_value(s, n) if isinstance(s, (ast.Assign, ast.AnnAssign)) else None
            if isinstance(v, ast.Name) and v.id != n and v.id not in names:
                names.append(v.id)
                chain[v.id] = chain[n] + [s]
                todo.append(v.id)
    return names, chain


def _loop_exits(mod, loop):
    """[(exit statement, [tests of the enclosing `if`s inside the loop, outermost first])] for every
    way out of `loop` other than its header: `break` bound to this loop, `return` / `raise` anywhere
    in its body (nested function definitions excluded)."""
    out = []
    todo = [(b, False) for b in loop.body]
    while todo:
        n, inner = todo.pop(0)
        if isinstance(n, (ast.FunctionDef, ast.AsyncFunctionDef, ast.Lambda, ast.ClassDef)):
            continue
        if isinstance(n, (ast.Return, ast.Raise)) or (isinstance(n, ast.Break) and not inner):
            tests, m = [], mod.parent.get(n)
            while m is not None and m is not loop:
                if isinstance(m, (ast.If, ast.IfExp)):
                    tests.insert(0, m.test)
                m = mod.parent.get(m)
            out.append((n, tests))
        nested = inner or isinstance(n, (ast.For, ast.While))
        for c in ast.iter_child_nodes(n):
            if isinstance(n, (ast.For, ast.While)) and c in n.orelse:
                todo.append((c, inner))     # a break in the else suite of a nested loop leaves the outer one
            else:
                todo.append((c, nested))
    return out


def d5_ensemble(ck):
    rule = 'C16.D5.ensemble'
    mod = ck.repo.mod(SD)
    fn = mod.func('synthetic_ensemble')
    ck.analysed(mod, fn)
    fi = finfo(mod, fn)
    Q = 'synthetic_ensemble'
    ps = params(fn)
    if len(ps) < 3:
        ck.missing(rule, 'signature synthetic_ensemble(T, init_pops, n_steps, ...)')
        return
    T, init_pops, n_steps = ps[:3]
    # roles: (final populations, trajectory) are returned
    rets = [r for r in returns_of(fn) if r.value is not None]
    rv = peel(fi, rets[0].value) if len(rets) == 1 else None
    if not (isinstance(rv, ast.Tuple) and len(rv.elts) == 2 and all(isinstance(e, ast.Name) for e in rv.elts)):
        ck.missing(rule, '`return <populations>, <trajectory>` in synthetic_ensemble')
        return
    P, OBS = rv.elts[0].id, rv.elts[1].id
    # the returned names may be plain copies (`p, obs = p_run, obs_run`, the result
    # variables of an inlined helper) of the names the loop works on: the roles are
    # followed through such copies
    P_names, P_copies = _copy_aliases(fi, fn, P)
    OBS_names, _ = _copy_aliases(fi, fn, OBS)
    # advance statements: P = <op>.<f>(P) / P = P @ M / P = M @ P  inside a loop
    loops = [l for l in walk_local(fn) if isinstance(l, (ast.For, ast.While))]

    def loop_of(s):
        n = mod.parent.get(s)
        while n is not None and n is not fn:
            if isinstance(n, (ast.For, ast.While)):
                return n
            n = mod.parent.get(n)
        return None
    # (the new state may be computed into a temporary first: nxt = op.rmatvec(p); p = nxt)
    advs = {q: [s for s in assigns_to(fn, q) if isinstance(s, ast.Assign) and loop_of(s) is not None
                and fi.def_value(s, q) is not None and q in names_loaded(fi.expand(fi.def_value(s, q), stop=(q,)))]
            for q in P_names}
    live = [q for q in P_names if advs[q]]
    if len(live) != 1:
        ck.missing(rule + '.left', 'statement that advances the populations `%s` inside a loop%s' % (
            P, ' (several candidates: %s)' % ', '.join(live) if live else ''))
        return
    if live[0] != P:
        # the returned name must hold the FINAL state: every copy on the chain is taken when no advance can follow
        chain = [c for c in P_copies[live[0]] if any(fi.cfg.reachable(c, a) for a in advs[live[0]])]
        if chain:
            ck.missing(rule + '.left', 'the returned populations `%s` are copied from `%s` before the last advance: %s' % (
                P, live[0], _short(chain[0])))
            return
    P = live[0]
    adv = advs[P]
    ops = set()
    verdicts = []
    is_state = lambda x: fi.xu(x, stop=(P,)) == P
    pick = lambda side, good: 'far' if side is None else ('match' if side == good else 'near')
    for s in adv:
        orig = peel(fi, s.value)        # node of the analysed tree that computes the new state
        verdict = 'far'
        if isinstance(orig, ast.Call) and isinstance(orig.func, ast.Attribute) and len(orig.args) == 1 and not orig.keywords and \
                orig.func.attr in ('rmatvec', 'matvec', 'dot', 'rmatmat', 'matmat'):
            recv, arg, f = orig.func.value, orig.args[0], orig.func.attr
            if is_state(arg) and f == 'rmatvec' and isinstance(recv, ast.Name):
                ops.add(recv)           # p M, M = what the operator wraps: decided by `.operator` below
                verdict = 'match'
            elif is_state(arg) and f in ('rmatvec', 'rmatmat'):
                verdict = pick(matrix_side(fi, recv, T), 'T')       # p M
            elif is_state(arg) and f in ('matvec', 'dot', 'matmat'):
                verdict = pick(matrix_side(fi, recv, T), 'TT')      # M p = p M^T: right only for M = T^T
            elif is_state(recv) and f == 'dot':
                verdict = pick(matrix_side(fi, arg, T), 'T')        # p.dot(M) = p M
        elif isinstance(orig, ast.BinOp) and isinstance(orig.op, ast.MatMult):
            if is_state(orig.left):
                verdict = pick(matrix_side(fi, orig.right, T), 'T')
            elif is_state(orig.right):
                verdict = pick(matrix_side(fi, orig.left, T), 'TT')
        verdicts.append(verdict)
    ck.decide(_worst(*verdicts), rule + '.left', mod, adv[0], Q, '; '.join(u(s) for s in adv),
              'populations advance by LEFT multiplication p <- p T (rmatvec)',
              'a population (row) vector is propagated as p T: T_op.rmatvec(p); matvec computes T p, which '
              'propagates observables, not populations')
    for s in adv:
        loop = loop_of(s)
        if not isinstance(loop, ast.For):
            ck.missing(rule + '.steps', 'trip count of the loop around %s' % _short(s))
            continue
        verdict = classify(fi.expand(loop.iter), ['range(%s - 1)' % n_steps, 'range(1, %s)' % n_steps, 'range(0, %s - 1)' % n_steps,
                                                  'range(2, %s + 1)' % n_steps, 'range(%s - 1, 0, -1)' % n_steps,
                                                  'range(1, %s, 1)' % n_steps, 'range(0, %s - 1, 1)' % n_steps], scope={n_steps})
        if verdict[0] == 'match' and not params_intact(fi, loop.iter, {n_steps}):
            verdict = ('far', 0, None)
        nested = loop_of(loop) is not None
        if nested:
            verdict = ('far', 0, None)
        ck.decide(verdict, rule + '.steps', mod, loop, Q, u(loop.iter), 'n_steps - 1 multiplications (the start counts as step one)',
                  'the ensemble must be advanced exactly n_steps - 1 times')
    # every exit of the propagation loop: the header is the ONLY stopping rule.  A break / return inside the loop makes
    # the number of multiplications a function of something else: guarded by an APPROXIMATE comparison of the propagated
    # state (allclose / isclose / an ordered comparison of a quantity computed from it) the propagation stops while the
    # state still changes - definite; any other early exit (exact fixed point, a counter ...) is not decided.
    seen_loops = []
    for s in adv:
        loop = loop_of(s)
        if loop is None or any(loop is l for l in seen_loops):
            continue
        seen_loops.append(loop)
        for ex, tests in _loop_exits(mod, loop):
            state_dep = lambda e: any(n.id == P or any(d in adv for d in defs_of(fi, n)) for n in leaf_names(fi, e, stop=(P,)))
            approx = None
            for t in tests:
                for x in ast.walk(t):
                    if isinstance(x, ast.Call) and _last(x) in ('allclose', 'isclose') and any(state_dep(a) for a in x.args):
                        approx = approx or x
                    elif isinstance(x, ast.Compare) and any(isinstance(o, (ast.Lt, ast.LtE, ast.Gt, ast.GtE)) for o in x.ops) \
                            and state_dep(x) and not isinstance(ex, ast.Raise):
                        approx = approx or x
            kind = {ast.Break: 'break', ast.Return: 'return', ast.Raise: 'raise'}[type(ex)]
            if approx is not None and not isinstance(ex, ast.Raise):
                ck.bad(rule + '.steps', mod, ex, Q, '%s under `%s` in the loop over %s' % (kind, _short(approx, 80), _short(loop.iter, 40)),
                       'the propagation loop is left early (%s) when `%s` holds: that is a tolerance on the change of the populations, '
                       'not the end of the requested steps; for a slowly relaxing chain the per-step change is below any such tolerance '
                       'long before p0 T^n stops moving, so fewer than n_steps - 1 multiplications by T are performed and both the '
                       'trajectory and the final populations differ from repeated left multiplication' % (kind, _short(approx, 80)))
            else:
                ck.missing(rule + '.steps', 'the propagation loop over %s has another exit (%s at %s%s): the number of '
                           'multiplications is not decided' % (_short(loop.iter, 40), kind, mod.loc(ex),
                                                               ' under `%s`' % _short(tests[-1], 60) if tests else ''))
    # start from a copy of the initial populations
    init = [s for s in assigns_to(fn, P) if isinstance(s, ast.Assign) and s not in adv]
    if len(init) != 1 or fi.def_value(init[0], P) is None:
        ck.missing(rule + '.copy', 'single initialisation of the populations `%s` (found %d)' % (P, len(init)))
    else:
        verdict = classify(fi.expand(fi.def_value(init[0], P)),
                           ['%s.copy()' % init_pops, 'np.array(%s)' % init_pops, 'np.copy(%s)' % init_pops,
                            'np.array(%s, copy=True)' % init_pops, 'np.array(%s, dtype=float)' % init_pops,
                            '%s.astype(float)' % init_pops, 'np.array(%s, dtype=np.float64)' % init_pops,
                            '%s.astype(np.float64)' % init_pops, '%s[:].copy()' % init_pops, '%s + 0' % init_pops, '1 * %s' % init_pops],
                           scope={init_pops})
        if verdict[0] == 'match' and not (params_intact(fi, init[0].value, {init_pops}) and all(fi.cfg.dominates(init[0], s) for s in adv)):
            verdict = ('far', 0, None)
        ck.decide(verdict, rule + '.copy', mod, init[0], Q, u(init[0]),
                  'starts from a copy of the initial populations', 'the propagation must start from a copy of init_pops')
    # the operator wraps T itself (not its transpose)
    if ops:
        alts, anchor = [], None
        for o in ops:
            for d in defs_of(fi, o):
                if d in ('PARAM', 'UNBOUND') or fi.def_value(d, o.id) is None:
                    alts.append(None)
                    continue
                anchor = anchor or d
                alts.append(fi.def_value(d, o.id))
        vs, shown = [], []
        for a in alts:
            if not (isinstance(a, ast.Call) and _last(a) == 'aslinearoperator' and len(a.args) == 1 and not a.keywords):
                vs.append('far')
                shown.append(_short(a) if a is not None else '?')
                continue
            shown.append(u(a))
            branches = [fi.expand(a.args[0])]
            while any(isinstance(b, ast.IfExp) for b in branches):
                branches = [x for b in branches for x in ((b.body, b.orelse) if isinstance(b, ast.IfExp) else (b,))]
            for b in branches:
                v = classify(b, [T, '%s.tocsr()' % T, '%s.tocsc()' % T, '%s.tocoo()' % T, '%s.toarray()' % T, 'np.asarray(%s)' % T,
                                 '%s.asformat(__)' % T, 'scipy.sparse.csr_matrix(%s)' % T], scope={T})[0]
                if v == 'match' and not params_intact(fi, a.args[0], {T}):
                    v = 'far'
                vs.append(v)
        ck.decide(_worst(*vs) if vs else 'far', rule + '.operator', mod, anchor or fn, Q, '; '.join(dict.fromkeys(shown)),
                  'the operator is T itself (not its transpose)', 'T_op must wrap T')
    # the trajectory is collected per step, in a floating point container
    allocs = ('np.empty', 'np.zeros', 'np.ones', 'np.full', 'np.empty_like', 'np.zeros_like', 'np.ones_like', 'np.full_like')
    odef_pairs = [(s, n) for n in OBS_names for s in assigns_to(fn, n) if isinstance(s, ast.Assign)
                  and not (isinstance(fi.def_value(s, n), ast.Name) and fi.def_value(s, n).id in OBS_names)]
    odefs = [s for s, _ in odef_pairs]
    oval = lambda s: next((fi.def_value(x, n) for x, n in odef_pairs if x is s), None)
    n_alloc = 0
    for s in odefs:
        v = oval(s)
        if isinstance(v, ast.Call) and call_name(v) in allocs:
            n_alloc += 1
            like = call_name(v).endswith('_like')
            dt = kwarg(v, 'dtype')
            if dt is None and not like:
                pos = 2 if call_name(v) == 'np.full' else 1
                dt = v.args[pos] if len(v.args) > pos else None
            src = fi.expand(dt, stop=(P,)) if dt is not None else None
            if like and dt is None:
                inherits = True
            elif src is None:
                inherits = False        # numpy default: float64
            elif isinstance(src, ast.Attribute) and src.attr == 'dtype':
                inherits = True
            elif any(isinstance(x, ast.Attribute) and x.attr == 'dtype' for x in ast.walk(src)):
                ck.missing(rule + '.collect', 'element type of the trajectory buffer not recognised: %s' % _short(s))
                continue
            else:
                inherits = False
            ck.check(not inherits, rule + '.collect', mod, s, Q, u(s),
                     'trajectory buffer is floating point regardless of the dtype of init_pops',
                     'the buffer that collects the propagated populations takes its dtype from the initial populations: '
                     'rmatvec returns float64, so for integer (one-hot) or float32 start vectors every propagated row is '
                     'silently cast (truncated to zeros / rounded)')
    # every advance is followed, in the same iteration, by a record into the trajectory
    recorded, rotated = 0, 0
    for s in adv:
        loop = loop_of(s)
        # the new state is P after s, or - for `P = t` - the temporary t from its definition on
        alias = s.value if isinstance(s.value, ast.Name) and len(defs_of(fi, s.value)) == 1 else None
        alias_site = next(iter(defs_of(fi, alias))) if alias is not None else None
        if alias_site in ('PARAM', 'UNBOUND'):
            alias = alias_site = None

        def new_state_from(e):
            """statement after which the state mentioned by e is the new one (None: e does not mention the state)"""
            if e is None:
                return None
            if P in names_loaded(fi.expand(e, stop=(P,))):
                return s
            if alias is not None and any(isinstance(n, ast.Name) and n.id == alias.id and fi.same_value(n, alias) for n in walk_expr(e)):
                return alias_site
            return None
        recs = []
        for x in ast.walk(loop):
            if isinstance(x, ast.Call) and isinstance(x.func, ast.Attribute) and x.func.attr == 'append' and u(x.func.value) in OBS_names \
                    and x.args and new_state_from(x.args[0]) is not None and fi.stmt(x) is not None:
                recs.append((fi.stmt(x), new_state_from(x.args[0])))
        for on in OBS_names:
            for st, t in subscript_stores(loop, on):
                if new_state_from(getattr(st, 'value', None)) is not None:
                    recs.append((st, new_state_from(st.value)))
        if any(fi.cfg.reachable(frm, r, avoiding=[loop]) for r, frm in recs):
            recorded += 1
        elif recs:
            rotated += 1        # recorded before the advance: a rotated loop, not decided here
    lists = [s for s in odefs if isinstance(oval(s), (ast.List, ast.ListComp))]
    conv = tuple(c for on in OBS_names for c in CS('np.array(%s)' % on, 'np.asarray(%s)' % on, 'np.stack(%s)' % on, 'np.vstack(%s)' % on))
    fin = [s for s in odefs if isinstance(oval(s), ast.Call) and _cx(oval(s)) in conv]
    # a list start holds the state before the first step
    starts_ok = all(isinstance(oval(s), ast.List) and len(oval(s).elts) == 1 and
                    P in names_loaded(fi.expand(oval(s).elts[0], stop=(P,))) for s in lists)
    shown = '%d of %d advances recorded; %d list starts, %d final conversions, %d preallocations' % (
        recorded, len(adv), len(lists), len(fin), n_alloc)
    if rotated or not starts_ok or not odefs:
        ck.missing(rule + '.collect', 'construction of the trajectory `%s` not recognised (%s%s)' % (
            OBS, shown, '; a state is recorded BEFORE it is advanced' if rotated else ''))
    else:
        ok = recorded == len(adv) and (n_alloc > 0 or (len(lists) >= 1 and len(fin) >= 1))
        ck.check(ok, rule + '.collect', mod, fin[0] if fin else rets[0], Q, shown,
                 'every step is collected (list + final np.array, or a preallocated buffer)',
                 'the trajectory of populations/observables is not collected per step')


# ---------------------------------------------------------------------------
# D4 addition (third wave): re-entry of eigenspectrum into itself

def d4_reentry(ck):
    """A return path of eigenspectrum that ends in a TAIL CALL of eigenspectrum
    itself is reduced with the function's own contract: the callee returns the
    sorted, normalised eigenpairs of M'.T if its `left` argument holds and of
    M' otherwise, M' being the matrix argument expressed over the parameters
    at entry (symbolic path execution: every rebinding of T on the way -
    `T = T.T if left else T`, container conversions - is part of M').  The
    path must deliver the eigenpairs of T.T when `left` holds on it and of T
    otherwise, and as many of them as were asked for.  A self-call that is
    not in tail position is not decided here."""
    from ..core import param_default
    from .msm_common import (Unrecognised, _sigs, norm, sclassify, strip_conversions, symexec)
    rule = 'C16.D4.spectrum.reentry'
    mod = ck.repo.mod(TM)
    fn = mod.func('eigenspectrum')
    F = 'eigenspectrum'
    ps = params(fn)
    if len(ps) < 3:
        ck.missing(rule, 'signature eigenspectrum(T, n_eigs, left, ...)')
        return
    T, NE, LEFT = ps[:3]
    own = [c for c in calls_in(fn) if call_name(c) == fn.name]
    if not own:
        ck.ok(rule, mod, fn, F, 'eigenspectrum does not call itself')
        return
    sigs = _sigs(ck)
    try:
        paths = symexec(fn, sigs)
    except (Unrecognised, RecursionError) as e:
        ck.missing(rule, 'eigenspectrum calls itself and the path analysis cannot model it: %s' % (e,))
        return
    seen = set()
    n = 0
    for p in paths:
        if p.kind != 'return':
            continue
        v = p.value
        inner = [c for c in ast.walk(v) if isinstance(c, ast.Call) and call_name(c) == fn.name]
        if not inner:
            continue
        n += 1
        if not (isinstance(v, ast.Call) and call_name(v) == fn.name and len(inner) == 1):
            key = ('nontail', u(inner[0]))
            if key not in seen:
                seen.add(key)
                ck.missing(rule, 'self-call of eigenspectrum that is not the returned value: %s' % _short(inner[0]))
            continue
        b = bind_args(v, ps)
        if b is None or b.get(T) is None:
            ck.missing(rule, 'arguments of the self-call %s' % _short(v))
            continue
        pol = p.cond(('expr', LEFT))
        la = b.get(LEFT)
        if la is None:
            la = param_default(fn, LEFT)
        # truth value of the `left` argument on this path
        lval = None
        if la is not None and isinstance(const_value(la), bool):
            lval = const_value(la)
        elif isinstance(la, ast.Name) and la.id == LEFT:
            lval = pol
        elif isinstance(la, ast.UnaryOp) and isinstance(la.op, ast.Not) and isinstance(la.operand, ast.Name) and la.operand.id == LEFT:
            lval = None if pol is None else (not pol)
        M = strip_conversions(b[T])
        construct = '%s=%s: return %s' % (LEFT, pol, _short(v, 140))
        if pol is None or lval is None:
            if construct not in seen:
                seen.add(construct)
                ck.missing(rule, 'truth value of `%s` / of the `%s` argument on the path of the self-call %s' % (LEFT, LEFT, _short(v)))
            continue
        # callee decomposes M.T if lval else M; required: T.T if pol else T
        want = T if (pol == lval) else '%s.T' % T
        verdict = sclassify(M, [want], {T}, sigs)
        if ('left', construct) not in seen:
            seen.add(('left', construct))
            ck.decide(verdict, rule, mod, p.stmt, F, construct,
                      'the re-entered call decomposes the same (transposed) matrix as this path must',
                      'on the path with %s=%s the function must return the eigenpairs of %s; the self-call is handed the matrix `%s` '
                      'with %s=%s and therefore - by eigenspectrum\'s own contract - decomposes %s: the matrix reaches the call '
                      'already transposed and is transposed a second time (or not at all), so the vectors returned are the %s '
                      'eigenvectors (for left=True: the constant vector instead of the stationary distribution). Pass the '
                      'untransposed matrix, or %s=False for a matrix that is already transposed'
                      % (LEFT, pol, '%s.T' % T if pol else T, _short(b[T], 60), LEFT, lval,
                         '(%s).T' % _short(M, 40) if lval else _short(M, 40), 'RIGHT' if pol else 'LEFT', LEFT))
        # the same number of eigenpairs
        N = norm(p.env.get(NE, ast.Name(id=NE, ctx=ast.Load())), sigs)
        na = b.get(NE)
        if na is None:
            na = param_default(fn, NE)
        nc = '%s=%s: self-call with %s=%s' % (NE, u(N), NE, u(na) if na is not None else 'default')
        if nc not in seen:
            seen.add(nc)
            if na is None:
                ck.missing(rule, 'number of eigenpairs requested by the self-call %s' % _short(v))
            else:
                forms = [u(N)]
                if isinstance(N, ast.Subscript) and u(N) in ('%s.shape[0]' % T, '%s.shape[1]' % T, '%s.T.shape[0]' % T, '%s.T.shape[1]' % T):
                    forms += ['None', '%s.shape[0]' % T, '%s.shape[1]' % T, '%s.T.shape[0]' % T, '%s.T.shape[1]' % T]   # square matrix
                ck.decide(sclassify(norm(na, sigs), forms, {T, NE}, sigs), rule, mod, p.stmt, F, nc,
                          'the re-entered call is asked for the same number of eigenpairs',
                          'the self-call must request the number of eigenpairs this call was asked for (%s)' % u(N))
    if not n:
        ck.missing(rule, 'eigenspectrum calls itself (%s) but no return path carries the result' % _short(own[0]))


# ---------------------------------------------------------------------------
# Fifth wave (survivors of the generic mutants)

def _subst_single_defs(fi, e, depth=6):
    """Copy of `e` in which a Name with exactly one reaching definition
    `n = <expr>` (any call, also one the purity oracle does not know) whose
    operands have the same reaching definitions at the use is replaced by that
    expression.  Only for comparing two READS of values of the same function
    (the facts of a comparison method): evaluation order does not matter
    there."""
    import copy as _copy

    def ex(n, d):
        if isinstance(n, ast.Name) and isinstance(n.ctx, ast.Load) and d > 0:
            ds = defs_of(fi, n)
            if len(ds) == 1:
                site = next(iter(ds))
                v = fi.def_value(site, n.id) if isinstance(site, (ast.Assign, ast.AnnAssign)) else None
                if v is not None and not isinstance(v, (ast.GeneratorExp, ast.Lambda)):
                    use = fi.stmt(n)
                    if all(fi.rd.defs_at(site, m.id) == fi.rd.defs_at(use, m.id) for m in walk_expr(v)
                           if isinstance(m, ast.Name) and isinstance(m.ctx, ast.Load)):
                        return ex(v, d - 1)
            return n
        if not isinstance(n, ast.AST) or isinstance(n, (ast.expr_context, ast.operator, ast.unaryop, ast.boolop, ast.cmpop)):
            return n
        new = type(n)()
        for f in n._fields:
            val = getattr(n, f, None)
            if isinstance(val, list):
                setattr(new, f, [ex(x, d) for x in val])
            elif isinstance(val, ast.AST):
                setattr(new, f, ex(val, d))
            else:
                setattr(new, f, val)
        return ast.copy_location(new, n) if hasattr(n, 'lineno') else new
    return ex(e, depth)


class _Rename(ast.NodeTransformer):
    def __init__(self, m):
        self.m = m

    def visit_Name(self, n):
        return ast.copy_location(ast.Name(id=self.m.get(n.id, n.id), ctx=n.ctx), n)


def _mirror_key(a, b, me, ot):
    """`a` and `b` are the same expression, one over `me` and one over `ot`
    (an aspect of the two operands of a comparison method): the expression
    with the operand written `$`; None otherwise."""
    import copy as _copy
    na, nb = {n.id for n in ast.walk(a) if isinstance(n, ast.Name)}, {n.id for n in ast.walk(b) if isinstance(n, ast.Name)}
    if not ((me in na and ot not in na and ot in nb and me not in nb) or (ot in na and me not in na and me in nb and ot not in nb)):
        return None
    ka = _cx(_Rename({me: '_O_', ot: '_O_'}).visit(_copy.deepcopy(a)))
    kb = _cx(_Rename({me: '_O_', ot: '_O_'}).visit(_copy.deepcopy(b)))
    return ka if ka == kb else None


_ALL_CLOSE = ('np.allclose', 'np.array_equal', 'np.array_equiv', 'numpy.allclose', 'numpy.array_equal', 'numpy.array_equiv')
_COUNTERS = ('nnz', 'getnnz', 'count_nonzero', 'sum', 'any')


def _elementwise(e, me, ot):
    """e is an elementwise comparison `A == B` / `A != B` of mirror
    expressions: (is_eq, key); None otherwise."""
    if isinstance(e, ast.Compare) and len(e.ops) == 1 and isinstance(e.ops[0], (ast.Eq, ast.NotEq)):
        k = _mirror_key(e.left, e.comparators[0], me, ot)
        if k is not None:
            return isinstance(e.ops[0], ast.Eq), k
    return None


def _count_of(e, me, ot):
    """e counts the True entries of an elementwise comparison:
    `(A != B).nnz`, `.getnnz()`, `.count_nonzero()`, `.sum()`,
    `np.count_nonzero(A != B)`: (is_eq, key); None otherwise."""
    inner = None
    if isinstance(e, ast.Attribute) and e.attr == 'nnz':
        inner = e.value
    elif isinstance(e, ast.Call) and isinstance(e.func, ast.Attribute) and not e.args and not e.keywords and \
            e.func.attr in ('getnnz', 'count_nonzero', 'sum'):
        inner = e.func.value
    elif isinstance(e, ast.Call) and call_name(e) in ('np.count_nonzero', 'numpy.count_nonzero', 'np.sum') and len(e.args) == 1 and not e.keywords:
        inner = e.args[0]
    return _elementwise(inner, me, ot) if inner is not None else None


def _eq_fact(fi, atom, me, ot):
    """What one atomic condition of a comparison method establishes about its
    two operands `me` / `ot`:
      ('same', key) / ('diff', key)   the aspect `key` ($ = the operand) of the two is equal / differs
      ('garbled', key)                a recognised comparison of the aspect whose sense is neither
                                      (every element differs, some element is equal ...)
      ('ident',) / ('notident',)      the operands are (not) the same object
      ('none', who, key) / ('notnone', who, key)   an aspect of ONE operand is (not) None
      None                            not recognised."""
    if isinstance(atom, Cmp):
        lhs, rhs, op = _subst_single_defs(fi, atom.lhs), _subst_single_defs(fi, atom.rhs), atom.op
        if op in (ast.Is, ast.IsNot):
            names = {x.id for x in (lhs, rhs) if isinstance(x, ast.Name)}
            if names == {me, ot}:
                return ('ident',) if op is ast.Is else ('notident',)
            for a, b in ((lhs, rhs), (rhs, lhs)):
                if isinstance(b, ast.Constant) and b.value is None:
                    ns = {n.id for n in ast.walk(a) if isinstance(n, ast.Name)}
                    if ns == {me} or ns == {ot}:
                        who = me if ns == {me} else ot
                        import copy as _copy
                        key = _cx(_Rename({who: '_O_'}).visit(_copy.deepcopy(a)))
                        return ('none' if op is ast.Is else 'notnone', who, key)
            return None
        if op in (ast.Eq, ast.NotEq):
            k = _mirror_key(lhs, rhs, me, ot)
            if k is not None:
                return ('same' if op is ast.Eq else 'diff', k)
        # a count of (un)equal entries against zero
        for a, b, o in ((lhs, rhs, op), (rhs, lhs, {ast.Lt: ast.Gt, ast.Gt: ast.Lt, ast.LtE: ast.GtE, ast.GtE: ast.LtE}.get(op, op))):
            c = _count_of(a, me, ot)
            z = const_value(b, default=None)
            if c is None or isinstance(z, bool) or not isinstance(z, int):
                continue
            is_eq, k = c
            if z == 0 and o in (ast.NotEq, ast.Gt):
                nonzero = True
            elif (z == 0 and o in (ast.Eq, ast.LtE)) or (z == 1 and o is ast.Lt):
                nonzero = False
            elif z == 1 and o is ast.GtE:
                nonzero = True
            else:
                return None
            if is_eq:
                return ('garbled', k)       # "some / no entries are equal": neither equality nor difference
            return ('diff' if nonzero else 'same', k)
        return None
    _, e, pol = atom
    e = _subst_single_defs(fi, e)
    if isinstance(e, ast.Call) and call_name(e) in ('isinstance', 'hasattr') and e.args and isinstance(e.args[0], ast.Name) and e.args[0].id == ot:
        return ('kind',) if pol else ('notkind',)       # the other operand is (not) a model at all
    if isinstance(e, ast.Call) and isinstance(e.func, ast.Attribute) and not e.args and not e.keywords and e.func.attr in ('all', 'any'):
        c = _elementwise(e.func.value, me, ot)
        if c is not None:
            is_eq, k = c
            if e.func.attr == 'all':
                return (('same' if pol else 'diff'), k) if is_eq else ('garbled', k)
            return ('garbled', k) if is_eq else (('diff' if pol else 'same'), k)
    if isinstance(e, ast.Call) and call_name(e) in _ALL_CLOSE and len(e.args) >= 2:
        k = _mirror_key(e.args[0], e.args[1], me, ot)
        if k is not None:
            return ('same' if pol else 'diff', k)
    c = _count_of(e, me, ot)
    if c is not None:
        is_eq, k = c
        return ('garbled', k) if is_eq else ('diff' if pol else 'same', k)
    c = _elementwise(e, me, ot)     # a bare `A == B` used as a truth value (scalars / dicts / objects with __eq__)
    if c is not None:
        is_eq, k = c
        return ('same' if is_eq == pol else 'diff', k)
    return None


def _neg_atom(a):
    return a.negated() if isinstance(a, Cmp) else ('expr', a[1], not a[2])


# how an aspect `key` covers the VALUE of the fitted attribute `$.F`
_VALUE_WRAPPERS = ('%s', 'sparse.csr_matrix(%s)', 'scipy.sparse.csr_matrix(%s)', 'sparse.csc_matrix(%s)', 'sparse.coo_matrix(%s)',
                   'np.asarray(%s)', 'np.array(%s)', '%s.toarray()', '%s.todense()', '%s.tocsr()', '%s.tocoo()', '%s.tocsc()',
                   'np.asarray(%s.todense())', 'dict(%s)', 'list(%s)', 'tuple(%s)', '%s.to_original', '%s.A')
_FIND_FORMS = ('sparse.find(%s)[%d]', 'scipy.sparse.find(%s)[%d]', 'find(%s)[%d]')


def _covered(field, same_keys):
    """True: the value of $.field is established equal by the `same` keys;
    False: no key says anything about its value; None: a key mentions the
    field in a form the rule does not know (not decided)."""
    a = '_O_.%s' % field
    full = {C(w % a) for w in _VALUE_WRAPPERS}
    if same_keys & full:
        return True
    for form in _FIND_FORMS:
        if all(C(form % (a, i)) in same_keys for i in (0, 1, 2)):
            return True
    partial = {C(w % a) for w in ('%s.shape', 'len(%s)', '%s.nnz', '%s.dtype', '%s.shape[0]', '%s.shape[1]', '%s.size', '%s.ndim', 'type(%s)')}
    partial |= {C(f % (a, i)) for f in _FIND_FORMS for i in (0, 1, 2)}
    import re
    odd = [k for k in same_keys if re.search(r'(?<![\w])_O_\.%s(?![\w])' % re.escape(field), k) and k not in partial]
    return None if odd else False


def d3_eq_exits(ck, mod):
    """Every exit of MSM.__eq__ (the observation `MSM.load(save(m)) == m` of
    the round-trip clause).  Necessary: a path that answers False has
    established that some compared aspect of the two models DIFFERS; a path
    that answers True has established identity, or that both are unfitted,
    or that config, tcounts_, tprobs_, eq_probs_ and mapping_ are all equal -
    and nothing on it says that an aspect differs.  The facts of a path are
    the branch assumptions that dominate the exit (conjunctions; a
    disjunction establishes none of its members)."""
    rule = 'C16.D3.equality.exits'
    fn = mod.functions.get('MSM.__eq__')
    if fn is None:
        return
    fi = finfo(mod, fn)
    if len(params(fn)) < 2:
        ck.missing(rule, 'signature MSM.__eq__(self, other)')
        return
    me, ot = params(fn)[:2]
    Q = 'MSM.__eq__'
    required = ('config', 'tcounts_', 'tprobs_', 'eq_probs_', 'mapping_')
    rets = list(returns_of(fn))
    if not rets:
        ck.missing(rule, 'return statements of MSM.__eq__')
        return
    # a fall-through to the end of the function returns None (falsy) without a verdict: not enumerated here
    n = 0
    for a in fi.cfg.nodes:
        if isinstance(a, Assume) and a.polarity:
            atoms = conjuncts(a.test, True) or conjuncts(a.test, False) or []
            for x in atoms:
                f = _eq_fact(fi, x, me, ot)
                if f is not None and f[0] == 'garbled':
                    ck.bad(rule, mod, a.owner, Q, 'test `%s`' % _short(x if isinstance(x, Cmp) else x[1], 120).replace('\n', ' '),
                           'this test of `%s` is neither "the two are equal" nor "the two differ" (it asks whether EVERY entry differs / '
                           'whether SOME entry is equal): two equal models are answered False, or two different ones True'
                           % f[1].replace('_O_', 'model'))
    for r in rets:
        conj, disj, unknown = [], [], []
        for a in fi.cfg.nodes:
            if not (isinstance(a, Assume) and fi.cfg.dominates(a, r)):
                continue
            cj = conjuncts(a.test, a.polarity)
            if cj is not None:
                for x in cj:
                    f = _eq_fact(fi, x, me, ot)
                    (conj if f is not None else unknown).append((f, a))
                continue
            dj = conjuncts(a.test, not a.polarity)
            if dj is None:
                unknown.append((None, a))
                continue
            fs = [_eq_fact(fi, _neg_atom(x), me, ot) for x in dj]
            if any(f is None for f in fs):
                unknown.append((None, a))
            else:
                disj.append((fs, a))
        # outcomes of this return: a constant, or an expression whose truth value is the verdict
        v = r.value
        cv = const_value(v, default=None) if v is not None else None
        if isinstance(cv, bool):
            outcomes = [(cv, [], [], [])]
        elif v is None:
            ck.missing(rule, 'MSM.__eq__ returns without a value at line %s' % r.lineno)
            continue
        elif isinstance(v, ast.Name) and v.id == 'NotImplemented':
            continue            # defers to the other operand: neither answer
        else:
            outcomes = []
            for pol in (True, False):
                c2, d2, u2 = [], [], []
                cj = conjuncts(v, pol)
                if cj is not None:
                    for x in cj:
                        f = _eq_fact(fi, x, me, ot)
                        (c2 if f is not None else u2).append((f, r))
                else:
                    dj = conjuncts(v, not pol)
                    fs = [_eq_fact(fi, _neg_atom(x), me, ot) for x in dj] if dj is not None else [None]
                    if any(f is None for f in fs):
                        u2.append((None, r))
                    else:
                        d2.append((fs, r))
                outcomes.append((pol, c2, d2, u2))
        for answer, c2, d2, u2 in outcomes:
            n += 1
            cfacts = [f for f, _ in conj + c2]
            dgroups = [fs for fs, _ in disj + d2]
            unk = unknown + u2
            # the exit is named by the condition(s) closest to it
            ft = lambda f: ('%s(%s)' % (f[0], f[-1]) if len(f) > 1 else f[0]).replace('_O_.', '').replace('_O_', 'model')
            tagged = [(a, ft(f)) for f, a in conj + c2] + [(a, '(%s)' % ' or '.join(ft(f) for f in fs)) for fs, a in disj + d2]
            last = max([getattr(a, 'lineno', 0) for a, _ in tagged] or [0])
            near_ = [t for a, t in tagged if getattr(a, 'lineno', 0) == last]
            construct = 'answers %s when %s%s' % (answer, _short(' and '.join(near_) or 'unconditional', 150),
                                                  ' (after %d earlier conditions)' % (len(tagged) - len(near_)) if len(tagged) > len(near_) else '')
            garbled = [f for f in cfacts if f[0] == 'garbled'] + [f for fs in dgroups for f in fs if f[0] == 'garbled']
            if garbled:
                continue            # reported once, at the test (above)
            nones = {(f[1], f[2]) for f in cfacts if f[0] == 'none'}
            notnones = {(f[1], f[2]) for f in cfacts if f[0] == 'notnone'}
            mism = [k for w, k in nones if any(w2 != w and k2 == k for w2, k2 in notnones)]
            both_none = [k for w, k in nones if any(w2 != w and k2 == k for w2, k2 in nones)]
            diffs = [f for f in cfacts if f[0] == 'diff'] + [('diff', k) for k in mism] + [('diff', 'type of the operand') for f in cfacts
                                                                                          if f[0] == 'notkind']
            gdiffs = [fs for fs in dgroups if all(f[0] == 'diff' for f in fs)]
            if answer is False:
                if diffs or gdiffs:
                    ck.ok(rule, mod, r, construct, 'False is answered after a compared aspect was found to differ')
                elif unk:
                    ck.missing(rule, 'condition of `return False` at line %s of MSM.__eq__ not recognised: %s' % (
                        r.lineno, _short(unk[0][1].test if isinstance(unk[0][1], Assume) else unk[0][1], 80)))
                else:
                    ck.bad(rule, mod, r, Q, construct,
                           'MSM.__eq__ answers False on a path on which nothing was found to differ (the conditions that hold there say the '
                           'compared aspects are EQUAL, or only that one of several is): a model is then not equal to its own saved and '
                           're-loaded copy')
                continue
            # answer True
            if ('ident',) in cfacts:
                ck.ok(rule, mod, r, construct, 'the same object')
                continue
            if diffs or gdiffs:
                ck.bad(rule, mod, r, Q, construct,
                       'MSM.__eq__ answers True on a path on which `%s` was found to DIFFER' % (diffs[0][1] if diffs else gdiffs[0][0][1]).replace('_O_', 'model'))
                continue
            same_keys = {f[1] for f in cfacts if f[0] == 'same'}
            need = [F for F in required if F != 'config'] if not both_none else []
            cov = {F: _covered(F, same_keys) for F in ['config'] + need}
            lacking = [F for F, c in cov.items() if c is False]
            undecided = [F for F, c in cov.items() if c is None]
            if not lacking and not undecided:
                ck.ok(rule, mod, r, construct, 'True is answered after %s were found equal' % (
                    'the configurations (both models unfitted)' if both_none else 'configuration, counts, probabilities, populations and mapping'))
            elif lacking and not unk and not undecided:
                ck.bad(rule, mod, r, Q, construct,
                       'MSM.__eq__ answers True without having established that %s of the two models are equal (every condition on the '
                       'path was recognised): models that differ there compare equal' % ', '.join('`%s`' % F for F in lacking))
            else:
                ck.missing(rule, 'path of MSM.__eq__ that answers True at line %s: equality of %s not established by recognised conditions' % (
                    r.lineno, ', '.join(lacking + undecided)))
    ck.floor(rule, n, 2, 'exits of MSM.__eq__')


def _with_handles(fn):
    """{handle name: (With statement, context expression)} for `with <ctx> as h`."""
    out = {}
    for w in ast.walk(fn):
        if isinstance(w, (ast.With, ast.AsyncWith)):
            for item in w.items:
                if isinstance(item.optional_vars, ast.Name):
                    out[item.optional_vars.id] = (w, item.context_expr)
    return out


def d3_files(ck, mod):
    """The files of a saved model.  save builds the model in a temporary
    directory and publishes it under `path`; load reads from `path`.
    Necessary for load(save(m)) to exist at all:
    (paths)     in every os.path.join that mentions the model directory (the
                `path` parameter / the temporary directory) that directory is the
                FIRST component (join(a, b) is b below a);
    (publish)   the temporary directory is the source and `path` the
                destination of the call that publishes it, and that call is
                reached for the default flags;
    (reachable) load does not refuse a path for being a directory - a
                directory is what save writes;
    (manifest)  json.dump gets (manifest dict, file handle) in this order,
                json.load the handle."""
    rule = 'C16.D3.save-load'
    save, load = mod.func('MSM.save'), mod.func('MSM.load')
    fs, fl = finfo(mod, save), finfo(mod, load)
    n_paths = 0
    for fn, fi, qual in ((save, fs, 'MSM.save'), (load, fl, 'MSM.load')):
        ps = params(fn)
        path = 'path' if 'path' in ps else (ps[1] if len(ps) > 1 else None)
        handles = _with_handles(fn)
        dirs = {path} if path else set()
        dirs |= {h for h, (w, ce) in handles.items() if isinstance(ce, ast.Call) and _last(ce) in ('TemporaryDirectory', 'mkdtemp')}
        dirs |= {t.id for a in ast.walk(fn) if isinstance(a, ast.Assign) and isinstance(a.value, ast.Call) and _last(a.value) == 'mkdtemp'
                 for t in a.targets if isinstance(t, ast.Name)}
        # ---- (paths)
        for c in ast.walk(fn):
            if not (isinstance(c, ast.Call) and call_name(c) in ('os.path.join', 'posixpath.join', 'join') and not c.keywords):
                continue
            if any(isinstance(a, ast.Starred) for a in c.args):
                continue
            pos = [i for i, a in enumerate(c.args) if isinstance(a, ast.Name) and a.id in dirs]
            if not pos:
                continue
            n_paths += 1
            ck.check(pos[0] == 0, rule + '.paths', mod, c, qual, 'os.path.join with the model directory `%s`' % c.args[pos[0]].id,
                     'the model directory is the first component of the joined path',
                     '`%s`: os.path.join(a, b) names b BELOW a, so the model directory `%s` must come first; here the file name is '
                     'the leading component (for a relative file name the result is <file>/<directory>, for an absolute directory it '
                     'is the bare directory): the files of the model are not found / not written where load looks for them'
                     % (_short(c, 80), c.args[pos[0]].id))
    ck.floor(rule + '.paths', n_paths, 2, 'os.path.join calls that place a file in the model directory')

    # ---- (publish)
    sps = params(save)
    spath = 'path' if 'path' in sps else (sps[1] if len(sps) > 1 else None)
    handles = _with_handles(save)
    tmps = {h for h, (w, ce) in handles.items() if isinstance(ce, ast.Call) and _last(ce) == 'TemporaryDirectory'}
    movers = {'shutil.copytree': ('src', 'dst'), 'shutil.move': ('src', 'dst'), 'os.rename': ('src', 'dst'), 'os.replace': ('src', 'dst'),
              'shutil.copy': ('src', 'dst'), 'shutil.copy2': ('src', 'dst')}
    if tmps and spath:
        pubs = []
        for c in calls_in(save):
            if call_name(c) in movers:
                b = bind_args(c, movers[call_name(c)])
                if b is None:
                    continue
                names = {k: peel(fs, v) for k, v in b.items()}
                ids = {k: v.id for k, v in names.items() if isinstance(v, ast.Name)}
                if set(ids.values()) & tmps and spath in ids.values():
                    pubs.append((c, ids))
        if not pubs:
            ck.missing(rule + '.publish', 'the call that copies / moves the temporary directory of MSM.save to `%s`' % spath)
        for c, ids in pubs:
            ok = ids.get('src') in tmps and ids.get('dst') == spath
            ck.check(ok, rule + '.publish', mod, c, 'MSM.save', 'publication of the temporary directory: %s' % call_name(c),
                     'the temporary directory is the source, `%s` the destination' % spath,
                     '`%s` copies FROM `%s` INTO `%s`: the model was written to the temporary directory `%s`, which is deleted at the end '
                     'of the with block; nothing is stored under `%s` (the call fails when `%s` does not exist yet)'
                     % (_short(c, 80), ids.get('src'), ids.get('dst'), sorted(tmps)[0], spath, spath))
            # reached for the default flags
            st = fs.stmt(c)
            atoms = guard_atoms(fs, st) if st is not None else None
            if atoms is None:
                continue
            for t, pol in atoms:
                if t in sps:
                    d = param_default_value(save, t)
                    if isinstance(d, bool) or d is None and param_has_default(save, t):
                        ck.check(bool(d) == pol, rule + '.publish', mod, st, 'MSM.save',
                                 'publication is reached for the default `%s=%r`' % (t, d),
                                 'the model is published for the default flags',
                                 '`%s` is executed only when `%s` is %s, but the default is %s=%r: a plain save(path) builds the model in the '
                                 'temporary directory and never stores it (the other branch raises)' % (_short(c, 60), t, pol, t, d))

    # ---- (reachable)
    lps = params(load)
    lpath = 'path' if 'path' in lps else (lps[1] if len(lps) > 1 else None)
    for r in walk_local(load):
        if not isinstance(r, ast.Raise):
            continue
        for a in fl.cfg.nodes:
            if isinstance(a, Assume) and fl.cfg.dominates(a, r):
                for cj in conjuncts(a.test, a.polarity) or []:
                    if isinstance(cj, tuple) and isinstance(cj[1], ast.Call) and call_name(cj[1]) in ('os.path.isdir', 'os.path.exists') \
                            and len(cj[1].args) == 1 and is_param(fl, cj[1].args[0], lpath):
                        ck.check(cj[2] is False, rule + '.reachable', mod, r, 'MSM.load',
                                 'raise under %s(%s) is %s' % (call_name(cj[1]), lpath, cj[2]),
                                 'load only refuses paths that are not a directory',
                                 'MSM.load raises when %s(%s) holds, i.e. for exactly what MSM.save writes (copytree creates a directory): '
                                 'no saved model can be loaded' % (call_name(cj[1]), lpath))

    # ---- (manifest)
    for fn, fi, qual, names, sig in ((save, fs, 'MSM.save', ('json.dump',), ('obj', 'fp')), (load, fl, 'MSM.load', ('json.load',), ('fp',))):
        handles = _with_handles(fn)
        for c in calls_in(fn):
            if call_name(c) not in names:
                continue
            b = bind_args(c, sig)
            if b is None or 'fp' not in b:
                ck.missing(rule + '.manifest', 'arguments of %s' % _short(c))
                continue
            fp, obj = b.get('fp'), b.get('obj')
            def handle_of_enclosing_with(x):
                if not isinstance(x, ast.Name):
                    return False
                n = mod.parent.get(c)
                while n is not None and n is not fn:
                    if isinstance(n, (ast.With, ast.AsyncWith)) and any(
                            isinstance(i.optional_vars, ast.Name) and i.optional_vars.id == x.id for i in n.items):
                        return defs_of(fi, x) == {n}
                    n = mod.parent.get(n)
                return False
            is_handle = handle_of_enclosing_with(fp)
            obj_is_handle = handle_of_enclosing_with(obj)
            if is_handle:
                v = 'match'
            elif obj_is_handle:
                v = 'near'
            else:
                v = 'far'
            ck.decide(v, rule + '.manifest', mod, c, qual, '%s(%s)' % (call_name(c), ', '.join('%s=%s' % (k, _short(x, 30)) for k, x in b.items()
                                                                                               if k in ('obj', 'fp'))),
                      'the manifest goes through the handle of the enclosing `with open(...)`',
                      '`%s`: json.dump(obj, fp) writes obj to the file fp; here the open file is passed as the object and the manifest as the '
                      'file: save raises, no model is written' % _short(c, 80))


def param_has_default(fn, name):
    from ..core import param_default
    return param_default(fn, name) is not None


def param_default_value(fn, name):
    """The constant default of a parameter (None if it has none or it is not a constant)."""
    from ..core import param_default
    d = param_default(fn, name)
    return const_value(d, default=None) if d is not None else None


def definite_atoms(test, polarity=True):
    """Atoms that certainly hold when `test` has the given truth value: like
    patterns.conjuncts, but a disjunctive sub-term is skipped instead of making
    the whole test unreadable (`a and (b or c)` true => a)."""
    if isinstance(test, ast.UnaryOp) and isinstance(test.op, ast.Not):
        return definite_atoms(test.operand, not polarity)
    if isinstance(test, ast.BoolOp):
        if isinstance(test.op, ast.And) == polarity:
            out = []
            for v in test.values:
                out += definite_atoms(v, polarity)
            return out
        return []
    return conjuncts(test, polarity) or []


def sparse_only_guarded(ck, rule, mod, fn, qual):
    """A variable that the function itself tests with issparse(...) holds a
    dense OR a sparse matrix (both are admitted: `T : ndarray` in the
    docstrings, sparse from the builders).  An attribute that only
    scipy.sparse containers have (.tocsr(), .toarray(), .nnz ...) may be read
    from it only where issparse(<that value>) is known to hold: on an ndarray
    it raises AttributeError.  Decided per read through the branch assumptions
    that dominate it (the tested name must denote the same value as the one
    read: same reaching definitions, no rebinding in between)."""
    fi = finfo(mod, fn)
    tests = []      # (Assume, Name node tested, polarity) for conjunctive issparse facts
    tested_names = set()
    for c in calls_in(fn):
        if _last(c) in ('issparse', 'isspmatrix') and len(c.args) == 1 and isinstance(c.args[0], ast.Name):
            tested_names.add(c.args[0].id)
    for a in fi.cfg.nodes:
        if isinstance(a, Assume):
            for cj in definite_atoms(a.test, a.polarity):
                if isinstance(cj, tuple) and isinstance(cj[1], ast.Call) and _last(cj[1]) in ('issparse', 'isspmatrix') and \
                        len(cj[1].args) == 1 and isinstance(cj[1].args[0], ast.Name):
                    tests.append((a, cj[1].args[0], cj[2]))
    n = 0
    for at in walk_local(fn):
        if not (isinstance(at, ast.Attribute) and at.attr in _SPARSE_ONLY and isinstance(at.ctx, ast.Load) and
                isinstance(at.value, ast.Name) and at.value.id in tested_names):
            continue
        st = fi.stmt(at)
        if st is None:
            continue
        n += 1
        # inside a conditional expression the read is guarded locally: `X.tocsr() if issparse(X) else X`;
        # inside a boolean operator / comprehension / lambda: not decided here
        par, child, local, local_pol = mod.parent.get(at), at, False, set()
        while par is not None and par is not st:
            if isinstance(par, ast.IfExp) and child is not par.test:
                got = None
                for cj in definite_atoms(par.test, child is par.body):
                    if isinstance(cj, tuple) and isinstance(cj[1], ast.Call) and _last(cj[1]) in ('issparse', 'isspmatrix') and \
                            len(cj[1].args) == 1 and isinstance(cj[1].args[0], ast.Name) and cj[1].args[0].id == at.value.id:
                        got = cj[2]
                if got is None:
                    local = True
                else:
                    local_pol.add(got)
            elif isinstance(par, (ast.IfExp, ast.BoolOp, ast.ListComp, ast.GeneratorExp, ast.DictComp, ast.SetComp, ast.Lambda)):
                local = True
            child, par = par, mod.parent.get(par)
        # handlers that catch the AttributeError
        catches = False
        par = mod.parent.get(st)
        while par is not None and par is not fn:
            if isinstance(par, ast.Try) and any(st is b or any(x is st for x in ast.walk(b)) for b in par.body):
                for h in par.handlers:
                    if h.type is None or any(isinstance(x, ast.Name) and x.id in ('AttributeError', 'Exception', 'BaseException')
                                             for x in ast.walk(h.type)):
                        catches = True
            par = mod.parent.get(par)
        pols = {pol for a, nm, pol in tests if fi.cfg.dominates(a, st) and fi.same_value(nm, at.value)} | local_pol
        construct = '`%s.%s` read where issparse(%s) is %s' % (at.value.id, at.attr, at.value.id,
                                                              'known' if True in pols else ('known to be False' if False in pols else 'not known'))
        if True in pols:
            ck.ok(rule, mod, at, construct, 'sparse-only attribute read under issparse')
        elif local or catches or any(isinstance(x, ast.Call) and call_name(x) in ('hasattr', 'isinstance') for a in fi.cfg.nodes
                                     if isinstance(a, Assume) and fi.cfg.dominates(a, st) for x in ast.walk(a.test)):
            ck.missing(rule, 'guard of the sparse-only attribute `%s` at line %s of %s' % (_short(at), at.lineno, qual))
        else:
            ck.bad(rule, mod, at, qual, construct,
                   '`%s` exists only on scipy.sparse containers, but `%s` may be a dense ndarray here (%s tests issparse(%s) itself, and '
                   'on this path that test %s): a dense transition matrix raises AttributeError' % (
                       _short(at), at.value.id, qual, at.value.id,
                       'is False' if False in pols else 'has not been established (it is absent, or only one arm of an `or`)'))
    return n


def optional_arguments(ck, rule, mod, fn, qual):
    """Parameters whose default is None (`n_eigs=None`, `n_times=None`,
    `observable_per_state=None`).  Necessary for "the explicit argument is
    used, the default is computed only when none was given":
    (a) a store that REPLACES the parameter by a value that does not depend on
        it is executed only where `p is None` is known - under `p is not None`
        the caller's value is discarded and None is left in place;
    (b) the parameter is not used as an operand (arithmetic, ordering
        comparison, subscript, attribute, .dot / @) where `p is None` is known.
    Both are decided from the branch assumptions that dominate the statement;
    a test of p the rule cannot read (inside an `or`, through a helper) leaves
    the statement undecided, never violated."""
    fi = finfo(mod, fn)
    n = 0
    for p in params(fn):
        from ..core import param_default
        d = param_default(fn, p)
        if not (isinstance(d, ast.Constant) and d.value is None):
            continue
        facts = []      # (Assume, is_none: bool)
        for a in fi.cfg.nodes:
            if not isinstance(a, Assume):
                continue
            for cj in definite_atoms(a.test, a.polarity):
                if isinstance(cj, Cmp) and cj.op in (ast.Is, ast.IsNot, ast.Eq, ast.NotEq):
                    for x, y in ((cj.lhs, cj.rhs), (cj.rhs, cj.lhs)):
                        if isinstance(x, ast.Name) and x.id == p and isinstance(y, ast.Constant) and y.value is None \
                                and defs_of(fi, x) == {'PARAM'}:
                            facts.append((a, cj.op in (ast.Is, ast.Eq)))
        unread = [a for a in fi.cfg.nodes if isinstance(a, Assume) and p in names_loaded(a.test) and
                  not any(a is b for b, _ in facts)]

        def known(st):
            return {isn for a, isn in facts if fi.cfg.dominates(a, st)}

        def undecidable(st):
            return any(fi.cfg.dominates(a, st) for a in unread)
        # (a) replacing stores
        for st in assigns_to(fn, p):
            if not isinstance(st, (ast.Assign, ast.AnnAssign)) or fi.rd.defs_at(st, p) != {'PARAM'}:
                continue
            v = fi.def_value(st, p)
            if v is None or p in names_loaded(fi.expand(v, stop=(p,))):
                continue            # derived from the argument (clipping, conversion): not a default
            n += 1
            k = known(st)
            construct = 'default for `%s` computed where `%s is None` is %s' % (p, p, 'known' if True in k else (
                'known to be False' if False in k else 'not known'))
            if True in k:
                ck.ok(rule, mod, st, construct, 'the default replaces None only')
            elif False in k:
                ck.bad(rule, mod, st, qual, construct,
                       '`%s` is executed only when `%s is not None`: an explicit %s=... passed by the caller is overwritten, and when the '
                       'argument is omitted None stays in place (the next arithmetic / comparison on it raises TypeError)' % (_short(st, 80), p, p))
            else:
                ck.missing(rule, 'condition under which %s replaces its parameter `%s` (%s)' % (qual, p, _short(st, 60)))
        # (b) operand uses where the parameter is known to be None
        for x in walk_local(fn):
            if not (isinstance(x, ast.Name) and x.id == p and isinstance(x.ctx, ast.Load)):
                continue
            par = mod.parent.get(x)
            operand = isinstance(par, (ast.BinOp, ast.UnaryOp)) and not (isinstance(par, ast.UnaryOp) and isinstance(par.op, ast.Not)) or \
                (isinstance(par, ast.Compare) and any(isinstance(o, (ast.Lt, ast.LtE, ast.Gt, ast.GtE)) for o in par.ops)) or \
                (isinstance(par, ast.Subscript)) or (isinstance(par, ast.Attribute) and par.value is x) or \
                (isinstance(par, ast.Call) and x in par.args and (
                    (isinstance(par.func, ast.Attribute) and par.func.attr in ('dot', 'matmul', 'multiply')) or
                    call_name(par) in ('np.dot', 'np.matmul', 'np.multiply', 'np.inner', 'len', 'int', 'float', 'range')))
            if not operand:
                continue
            st = fi.stmt(x)
            if st is None or defs_of(fi, x) != {'PARAM'}:
                continue
            k = known(st)
            if True in k and False not in k and not undecidable(st):
                n += 1
                ck.bad(rule, mod, st, qual, '`%s` used as an operand where `%s is None` is known' % (p, p),
                       '`%s` runs only when `%s is None`, and uses it as an operand there: TypeError for the default call, and the '
                       'branch meant for an explicit %s is the one taken when none was given' % (_short(st, 80), p, p))
            elif False in k:
                n += 1
                ck.ok(rule, mod, st, '`%s` used as an operand where `%s is not None` is known' % (p, p), '')
    return n


def d4_request_domain(ck):
    """Argument validation of eigenspectrum must not refuse a request inside
    the contract: n_eigs >= 2 is what calc_imp_times (n_times + 1, n_times >=
    1) and eq_probs (3) pass.  For every `raise` whose dominating conditions
    are comparisons of the unmodified parameter n_eigs with integer constants
    (plus `is not None`), the conditions are evaluated over the integers
    n >= 2 (the finitely many cases around the constants and one large
    value): if they can all hold there, a valid request raises."""
    rule = 'C16.D4.spectrum.request-domain'
    mod = ck.repo.mod(TM)
    fn = mod.func('eigenspectrum')
    fi = finfo(mod, fn)
    ps = params(fn)
    if len(ps) < 2:
        return
    NE = ps[1]
    ops = {ast.Lt: lambda a, b: a < b, ast.LtE: lambda a, b: a <= b, ast.Gt: lambda a, b: a > b, ast.GtE: lambda a, b: a >= b,
           ast.Eq: lambda a, b: a == b, ast.NotEq: lambda a, b: a != b}
    for r in walk_local(fn):
        if not isinstance(r, ast.Raise) or fi.stmt(r) is None:
            continue
        preds, readable, about = [], True, False
        for a in fi.cfg.nodes:
            if not (isinstance(a, Assume) and fi.cfg.dominates(a, r)):
                continue
            cj = conjuncts(a.test, a.polarity)
            if cj is None:
                readable = False
                continue
            for c in cj:
                if not isinstance(c, Cmp):
                    readable = False
                    continue
                sides = [(c.lhs, c.rhs, False), (c.rhs, c.lhs, True)]
                done = False
                for x, y, flipped in sides:
                    if isinstance(x, ast.Name) and x.id == NE and defs_of(fi, x) == {'PARAM'}:
                        if isinstance(y, ast.Constant) and y.value is None and c.op in (ast.Is, ast.IsNot, ast.Eq, ast.NotEq):
                            if c.op in (ast.Is, ast.Eq):
                                preds.append(lambda n: False)       # n is None: not an integer request
                            done = True
                        else:
                            k = const_value(y, default=None)
                            if isinstance(k, int) and not isinstance(k, bool) and c.op in ops:
                                f = ops[c.op]
                                preds.append((lambda n, f=f, k=k: f(k, n)) if flipped else (lambda n, f=f, k=k: f(n, k)))
                                about = done = True
                        break
                if not done:
                    readable = False
        if not about or not readable:
            continue
        ks = sorted({k for a in fi.cfg.nodes if isinstance(a, Assume) and fi.cfg.dominates(a, r) for x in ast.walk(a.test)
                     if isinstance(x, ast.Constant) and isinstance(x.value, int) and not isinstance(x.value, bool) for k in (x.value,)})
        cand = sorted({n for k in ks for n in (k - 1, k, k + 1)} | {2, 3, 10 ** 9})
        hit = [n for n in cand if n >= 2 and all(p_(n) for p_ in preds)]
        ck.check(not hit, rule, mod, r, 'eigenspectrum', 'raise under a bound on `%s`' % NE,
                 'only requests for fewer than two eigenpairs are refused',
                 '`%s` is reached for %s=%s: a request inside the contract (n_eigs >= 2: calc_imp_times asks for n_times + 1, eq_probs '
                 'for 3) is refused, no spectrum / implied timescales are returned' % (_short(r, 70), NE, hit[0] if hit else ''))


# ---------------------------------------------------------------------------
# D3 addition (seventh wave): derived views of the estimator are computed from its CURRENT state

_MEMO_DECOS = ('cached_property', 'lru_cache', 'cache', 'cached', 'cachedmethod', 'memoize', 'memoized', 'memoise', 'memoised',
               'lazy_property', 'lazyproperty', 'cached_method', 'threaded_cached_property')
_PLAIN_DECOS = ('property', 'classmethod', 'staticmethod', 'setter', 'getter', 'deleter', 'abstractmethod', 'wraps')


def _deco_name(d):
    f = d.func if isinstance(d, ast.Call) else d
    if isinstance(f, ast.Attribute):
        return f.attr
    return (u(f) or '').split('.')[-1]


def d3_views_live(ck, mod, cls='MSM'):
    """`config`, `result_`, `n_states_` ... are what save pickles / writes and
    what __eq__ compares: each must be a function of the estimator's state AT
    THE TIME OF THE ACCESS.  An accessor under a memoising decorator
    (functools.cached_property stores the first value in the instance
    dictionary, lru_cache / cache key on the identity of the estimator) that
    reads an attribute some method of the class (re)binds - a constructor
    parameter (set_params, attribute assignment), a fitted attribute (fit) -
    hands out the state of the FIRST access ever after: VIOLATION.  A
    memoised accessor whose inputs the rule cannot relate to such attributes,
    a cache that some method clears, or a decorator the rule does not know:
    not decided.  Also the module-level functions the property names must not
    be memoised (not decided if they are)."""
    rule = 'C16.D3.views-live'
    methods = {q: f for q, f in mod.functions.items() if q.startswith(cls + '.') and '.<locals>.' not in q}
    if cls + '.__init__' not in methods:
        ck.missing(rule, 'methods of class %s' % cls)
        return
    init_ps = set(params(methods[cls + '.__init__'])[1:])
    # attributes stored by any method: attr -> [method]
    stored = {}
    for q, f in methods.items():
        ps = params(f)
        if not ps:
            continue
        for s, attr, v, idx in attr_stores(f, ps[0]):
            stored.setdefault(attr, []).append(q)
    clears = [c for f in methods.values() for c in calls_in(f)
              if _last(c) in ('cache_clear', '__delattr__', 'delattr') or
              (_last(c) in ('pop', 'clear', 'update') and '__dict__' in u(c.func)) or
              (call_name(c) == 'vars')]
    dels = [t for f in methods.values() for s in walk_local(f) if isinstance(s, ast.Delete) for t in s.targets
            if isinstance(t, ast.Attribute) or '__dict__' in u(t)]
    n = 0
    for q, f in sorted(methods.items()):
        decos = [_deco_name(d) for d in f.decorator_list]
        if not decos:
            continue
        n += 1
        memo = [d for d in decos if d in _MEMO_DECOS]
        other = [d for d in decos if d not in _MEMO_DECOS and d not in _PLAIN_DECOS]
        construct = '%s %s' % (' '.join('@' + _short(d, 40) for d in f.decorator_list), q)
        if other:
            ck.missing(rule, 'decorator of %s not recognised: %s' % (q, ', '.join(other)))
            continue
        if not memo:
            ck.ok(rule, mod, f, construct, 'computed from the current state on every access')
            continue
        ps = params(f)
        me = ps[0] if ps else None
        reads = sorted({x.attr for x in walk_local(f) if isinstance(x, ast.Attribute) and isinstance(x.ctx, ast.Load)
                        and isinstance(x.value, ast.Name) and x.value.id == me})
        rebound = [a for a in reads if a in init_ps or any(m != q for m in stored.get(a, ()))]
        if me is None or 'classmethod' in decos or 'staticmethod' in decos or not rebound:
            ck.missing(rule, '%s is memoised (%s): what the kept value depends on is not decided' % (q, memo[0]))
            continue
        if clears or dels:
            ck.missing(rule, '%s is memoised (%s) and the class deletes / clears something (%s): invalidation is not decided' % (
                q, memo[0], _short((clears + dels)[0], 60)))
            continue
        a = rebound[0]
        how = 'a constructor parameter (rebound by set_params or attribute assignment before a refit)' if a in init_ps else \
            'rebound by %s' % ', '.join(sorted(set(m for m in stored.get(a, ()) if m != q)))
        ck.bad(rule, mod, f, q, construct,
               '%s keeps the value of its FIRST evaluation (%s), but it reads `%s.%s`, %s; no method of %s invalidates the kept '
               'value: after the first access (a save, print or ==) a change of the estimator followed by fit is not reflected, so '
               'save writes - and __eq__ compares - a stale %s next to the newly fitted matrices and load(save(m)) is not equal '
               'to the model that was fitted' % (q, 'functools.cached_property stores it in the instance dictionary'
                                                  if memo[0] == 'cached_property' else '%s keys it on the estimator object' % memo[0],
                                                  me, a, how, cls, q.split('.')[-1]))
    ck.floor(rule, n, 1, 'decorated accessors of %s (config / result_ / n_states_)' % cls)
    for m_, q_ in ((TM, 'eigenspectrum'), (TM, 'assigns_to_counts'), (TM, 'trim_disconnected'), (TS, 'implied_timescales'),
                   (TS, 'calc_imp_times'), (SD, 'synthetic_ensemble')):
        f = ck.repo.mod(m_).functions.get(q_)
        if f is None:
            continue
        decos = [_deco_name(d) for d in f.decorator_list]
        memo = [d for d in decos if d in _MEMO_DECOS]
        if memo:
            ck.missing(rule, '%s is memoised (%s): whether the key covers the contents of every argument is not decided' % (q_, memo[0]))


def _guarded(ck, rule, f, *args):
    """An unexpected shape that makes a rule raise is an unrecognised
    construct (analysis incomplete), not an analysis error."""
    try:
        f(ck, *args)
    except AnalysisIncomplete:
        raise
    except (AttributeError, IndexError, KeyError, TypeError, ValueError) as e:
        ck.missing(rule, 'rule could not analyse an unfamiliar shape: %r' % (e,))


def check(ck):
    mod = ck.repo.mod(MS)
    _guarded(ck, 'C16.D1.constructor', d1_constructor, mod)
    _guarded(ck, 'C16.D2.pipeline', d2_pipeline, mod)
    _guarded(ck, 'C16.D3.save-load', d3_saveload, mod)
    check_spectrum(ck, 'C16.D4', arpack_k=True)
    _guarded(ck, 'C16.D4.spectrum.reentry', d4_reentry)
    _guarded(ck, 'C16.D4.spectrum.request-domain', d4_request_domain)
    _guarded(ck, 'C16.D5.timescales', d5_timescales)
    # added after the bug hunt (round 4): see the docstrings
    _guarded(ck, 'C16.D5.timescales.length', d5_length)
    _guarded(ck, 'C16.D5.timescales.clip', d5_clip)
    _guarded(ck, 'C16.D3.equality.container', d3_equality, mod)
    _guarded(ck, 'C16.D3.equality.exits', d3_eq_exits, mod)
    _guarded(ck, 'C16.D3.save-load.files', d3_files, mod)
    _guarded(ck, 'C16.D3.save-load.shape', d3_shape, mod)
    _guarded(ck, 'C16.D3.save-load.overwrite', d3_overwrite, mod)
    _guarded(ck, 'C16.D3.views-live', d3_views_live, mod)
    _guarded(ck, 'C16.D5.ensemble', d5_ensemble)
    _guarded(ck, 'C16.D5.ensemble.container', sparse_only_guarded, 'C16.D5.ensemble.container', ck.repo.mod(SD),
             ck.repo.mod(SD).func('synthetic_ensemble'), 'synthetic_ensemble')
    _guarded(ck, 'C16.D4.spectrum.container', sparse_only_guarded, 'C16.D4.spectrum.container', ck.repo.mod(TM),
             ck.repo.mod(TM).func('eigenspectrum'), 'eigenspectrum')
    for m_, q_ in ((TM, 'eigenspectrum'), (TS, 'implied_timescales'), (TS, 'calc_imp_times'), (SD, 'synthetic_ensemble')):
        _guarded(ck, 'C16.D8.optional-arguments', optional_arguments, 'C16.D8.optional-arguments', ck.repo.mod(m_),
                 ck.repo.mod(m_).func(q_), q_)
    check_no_arg_mutation(ck, 'C16.D6.inputs-unmodified', [
        (MS, 'MSM.fit'), (TS, 'implied_timescales'), (TS, 'calc_imp_times'),
        (SD, 'synthetic_ensemble'), (TM, 'eigenspectrum')])
    # added after the bug hunt (DESIGN.md 11.2b, G6): every global name read in the
    # estimator modules is bound (an `except <UndefinedName>` turns any error into NameError)
    from . import extra
    n = extra.check_undefined_names(ck, 'C16.D7.undefined-names', [ck.repo.mod(r) for r in (MS, TS, TM, SD)])
    ck.floor('C16.D7.undefined-names', n, 4, 'estimator modules scanned with symtable')
    return EXPLANATION

"""C05 Ragged reads: bounds check before flat-index use, slice-bound
normalisation completeness, dispatch agreement, index-space consistency."""
import ast

from .. import nullness
from ..cfg import ENTRY, EXIT, Assume
from ..core import (AnalysisIncomplete, call_name, const_value, kwarg,
                    names_loaded, params, param_default, target_names, u,
                    walk_expr, walk_local)
from ..patterns import (Cmp, assigns_to, calls_in, conjuncts, finfo,
                        returns_of, subscript_stores)
from ..match import C, CS

RA = 'enspara/ra/ra.py'
CLS = 'RaggedArray'

EXPLANATION = (
    'Static decision of the structural necessary conditions of ragged reads: '
    '(D1) in _convert_from_2d the test lengths[row] <= column -> IndexError '
    'dominates the flat-index computation whenever lengths is given and '
    'error_check is on (default True); every self._data[...] access in '
    '__getitem__/__setitem__ takes its index from _convert_from_2d(..., '
    'lengths=self.lengths, starts=self.starts) with error_check left at its '
    'default; negative indices are re-tested after the length is added; (D2) '
    'every function that turns slice bounds into index ranges treats None and '
    'negative values of BOTH start and stop and treats or rejects negative '
    'steps (one-sided-comparison rule + nullness reachability of the branch) - '
    'two known findings are reported; (D3) __getitem__ and __setitem__ map '
    'each (type of first index, type of second index) case to the same '
    'conversion helper with the same arguments; (D4) in _get_iis_from_slices '
    'row-indexed arrays (stops/lengths) are subscripted with row ids (the '
    'elements of the row selection), never with positions in the selection; '
    '(D5) flat->2-D conversion for masks uses the last start <= index. '
    'Equality with the list-of-rows model for every index expression is not '
    'decided.')


def d1_bounds(ck, mod):
    rule = 'C05.D1.row-bounds'
    fn = mod.func('_convert_from_2d')
    ck.analysed(mod, fn)
    fi = finfo(mod, fn)
    d = param_default(fn, 'error_check')
    ck.check(const_value(d) is True, rule + '.default', mod, fn, '_convert_from_2d', 'error_check=%s' % u(d),
             'bounds checking is on by default', 'error_check must default to True')
    guards = []
    for n in walk_local(fn):
        if isinstance(n, ast.If) and any(isinstance(x, ast.Raise) and 'IndexError' in u(x) for x in n.body):
            guards.append(n)
    ok = False
    g = None
    for n in guards:
        t = n.test
        if isinstance(t, ast.Call) and (call_name(t) == 'np.any' or (isinstance(t.func, ast.Attribute) and t.func.attr == 'any')) and \
                isinstance((t.args[0] if t.args else t.func.value), ast.Compare):
            c = t.args[0] if t.args else t.func.value
            cmpn = Cmp(c.left, type(c.ops[0]), c.comparators[0])
            less = cmpn.as_less()
            if less is not None and u(less[0]) == 'lengths[first_dimension]' and u(less[2]) == 'second_dimension' and not less[1]:
                ok, g = True, n
    ck.check(ok, rule + '.test', mod, g or fn, '_convert_from_2d', u(g.test) if g else 'lengths[row] <= column',
             'an index at or beyond the row length raises IndexError',
             'the row-bounds test must be np.any(lengths[first_dimension] <= second_dimension) -> IndexError: with < the '
             'index equal to the row length reads the first element of the NEXT row')
    flat = [s for s in walk_local(fn) if isinstance(s, ast.Assign) and u(s.targets[0]) == 'iis_flat']
    okf = len(flat) == 1 and u(flat[0].value) == 'starts[first_dimension] + second_dimension'
    ck.check(okf, rule + '.flat', mod, flat[0] if flat else fn, '_convert_from_2d', u(flat[0]) if flat else 'iis_flat',
             'flat index = start of the row + column', 'flat index must be starts[row] + column')
    if g is not None and flat:
        outer = mod.parent.get(g)
        oko = isinstance(outer, ast.If) and u(outer.test) in ('lengths is not None and error_check', 'error_check and lengths is not None')
        ck.check(oko and fi.cfg.reachable(outer, flat[0]) and fn.body.index(outer) < fn.body.index(flat[0]), rule + '.dominates', mod, outer if oko else g,
                 '_convert_from_2d', u(outer.test) if isinstance(outer, ast.If) else '?',
                 'the test runs before the flat index is formed whenever lengths are known and checking is on',
                 'the bounds test must be guarded only by `lengths is not None and error_check` and precede the flat-index computation')
    neg = [c for c in calls_in(fn) if call_name(c) == '_handle_negative_indices']
    okn = len(neg) == 1 and g is not None and fi.cfg.dominates(fi.stmt(neg[0]), g if not isinstance(mod.parent.get(g), ast.If) else mod.parent.get(g))
    ck.check(okn, rule + '.negatives-first', mod, neg[0] if neg else fn, '_convert_from_2d', u(neg[0]) if neg else '?',
             'negative indices are normalised before the bounds test', 'negative indices must be resolved before the row-bounds test')
    # call sites in the class
    n = 0
    for q in (CLS + '.__getitem__', CLS + '.__setitem__'):
        f = mod.func(q)
        ck.analysed(mod, f)
        fi2 = finfo(mod, f)
        for sub in walk_local(f):
            if isinstance(sub, ast.Subscript) and u(sub.value) == 'self._data':
                n += 1
                idx = sub.slice
                v = fi2.resolve(idx) if isinstance(idx, ast.Name) else idx
                ok = isinstance(v, ast.Call) and call_name(v) == '_convert_from_2d'
                why = 'flat data must be addressed through _convert_from_2d'
                if ok:
                    kws = {k.arg: u(k.value) for k in v.keywords}
                    ec = kwarg(v, 'error_check')
                    ok = kws.get('lengths') == 'self.lengths' and kws.get('starts') == 'self.starts' and \
                        (ec is None or const_value(ec) is True) and len(v.args) == 1
                    why = ('_convert_from_2d must receive lengths=self.lengths, starts=self.starts and keep error_check at '
                           'its default: without the lengths / with error_check=False an index past the end of a row '
                           'silently returns the neighbouring row\'s data')
                ck.check(ok, rule + '.call-sites', mod, sub, q, '%s with index %s' % (u(sub)[:60], u(v)[:120]),
                         'row-bounds-checked flat access', why)
    ck.floor(rule + '.call-sites', n, 4, 'self._data[...] accesses')
    # _handle_negative_indices re-tests after adding the length
    fh = mod.func('_handle_negative_indices')
    ck.analysed(mod, fh)
    for dim in ('first_dimension', 'second_dimension'):
        rs = [x for x in walk_local(fh) if isinstance(x, ast.If) and u(x.test) in CS('(%s < 0).sum() > 0' % dim, 'np.any(%s < 0)' % dim)
              and any(isinstance(y, ast.Raise) and 'IndexError' in u(y) for y in x.body)]
        ck.check(len(rs) == 1, rule + '.negative-recheck', mod, rs[0] if rs else fh, '_handle_negative_indices', u(rs[0].test) if rs else dim,
                 'an index still negative after adding the length raises IndexError',
                 'after adding the length, a still-negative %s must raise IndexError (otherwise it wraps into the previous row)' % dim)
    adds = [s for s in walk_local(fh) if isinstance(s, ast.AugAssign) and isinstance(s.op, ast.Add)]
    sec = [s for s in adds if u(s.target).startswith('second_dimension')]
    ok = bool(sec) and all('lengths[' in u(s.value) for s in sec)
    ck.check(ok, rule + '.negative-recheck', mod, sec[0] if sec else fh, '_handle_negative_indices', '; '.join(u(s) for s in sec)[:200],
             'negative column indices are offset by the length of THEIR row', 'negative columns must be offset by lengths[row]')


def d2_slices(ck, mod):
    rule = 'C05.D2.slice-bounds'
    for q in ('_slice_to_list', '_get_iis_from_slices'):
        fn = mod.func(q)
        ck.analysed(mod, fn)
        fi = finfo(mod, fn)
        # variables holding the bounds
        bound = {}
        for s in walk_local(fn):
            if isinstance(s, ast.Assign) and isinstance(s.value, ast.Attribute) and s.value.attr in ('start', 'stop', 'step') \
                    and isinstance(s.targets[0], ast.Name):
                bound[s.value.attr] = s.targets[0].id
        for part in ('start', 'stop'):
            var = bound.get(part)
            if var is None:
                ck.missing(rule, '%s: variable holding slice.%s' % (q, part))
                continue
            none_case = neg_case = False
            for n in walk_local(fn):
                if isinstance(n, ast.If):
                    for c in conjuncts(n.test, True) or []:
                        if isinstance(c, Cmp) and u(c.lhs) == var:
                            if c.op is ast.Is and const_value(c.rhs, 1) is None:
                                none_case = True
                            less = c.as_less()
                            if less is not None and u(less[0]) == var and const_value(less[2]) == 0:
                                neg_case = True
            ck.check(none_case, rule + '.none', mod, fn, q, '%s is None' % var, 'omitted %s handled' % part,
                     '%s does not treat an omitted %s' % (q, part))
            ck.check(neg_case, rule + '.negative', mod, fn, q, 'negative %s of the slice (variable `%s`)' % (part, var),
                     'negative %s normalised against the row/array length' % part,
                     '%s normalises one bound but not the other: a negative `%s` is passed unchanged to '
                     'arange/range, so e.g. [:, -2:] produces indices -2, -1, 0, 1, ... (wrapped duplicates) '
                     'instead of the last two elements' % (q, part))
        # negative steps: handled (reachable branch) or rejected
        var = bound.get('step')
        if var is None:
            ck.missing(rule, '%s: variable holding slice.step' % q)
            continue
        IN, OUT = nullness.run(fi, {})
        handled = False
        dead = None
        for n in fi.cfg.nodes:
            if isinstance(n, Assume) and n.polarity is True:
                cs = conjuncts(n.test, True) or []
                mentions = any(isinstance(c, Cmp) and (c.as_less() or (None,))[0] is not None and u(c.as_less()[0]) == var
                               and const_value(c.as_less()[2]) == 0 for c in cs)
                if mentions:
                    if OUT.get(n) is None:
                        dead = n
                    else:
                        handled = True
        rejects = any(isinstance(n, ast.If) and var in names_loaded(n.test) and any(isinstance(x, ast.Raise) for x in n.body) for n in walk_local(fn))
        if dead is not None and not handled:
            ck.bad(rule + '.negative-step', mod, dead.owner, q, 'branch `%s`' % u(dead.test),
                   'the only branch that treats a negative step is unreachable: it additionally requires start/stop to be '
                   'None, but both were replaced by numbers on every path before the test (nullness dataflow), so a '
                   'negative step is handed to range() with ascending bounds and yields an empty/incorrect selection')
        else:
            ck.check(handled or rejects, rule + '.negative-step', mod, fn, q, 'negative step of the slice (variable `%s`)' % var,
                     'negative steps are handled or rejected',
                     '%s neither handles nor rejects a negative step: it is passed to arange/range with ascending bounds' % q)


def _leaf_calls(mod, fi, stmts, conds, out):
    """Walk an if/elif tree collecting (conditions, helper call) leaves."""
    for s in stmts:
        if isinstance(s, ast.If):
            _leaf_calls(mod, fi, s.body, conds + [u(s.test)], out)
            _leaf_calls(mod, fi, s.orelse, conds + ['not(' + u(s.test) + ')'], out)
        elif isinstance(s, ast.Assign) and isinstance(s.value, ast.Call) and \
                call_name(s.value) in ('_get_iis_from_slices', '_get_iis_from_list', '_slice_to_list'):
            args = []
            for a in s.value.args:
                v = fi.resolve(a) if isinstance(a, ast.Name) else a
                # only see through pure renames (Name = Name)
                args.append(u(v) if isinstance(v, ast.Name) else u(a))
            kws = sorted('%s=%s' % (k.arg, u(k.value)) for k in s.value.keywords)
            out.append((tuple(conds), call_name(s.value), tuple(args), tuple(kws)))


def d3_dispatch(ck, mod):
    rule = 'C05.D3.dispatch-agreement'
    trees = {}
    for q in (CLS + '.__getitem__', CLS + '.__setitem__'):
        fn = mod.func(q)
        fi = finfo(mod, fn)
        tb = None
        for n in walk_local(fn):
            if isinstance(n, ast.If) and u(n.test) == 'isinstance(iis, tuple)':
                tb = n
        if tb is None:
            ck.missing(rule, 'tuple-index branch in %s' % q)
            return
        out = []
        _leaf_calls(mod, fi, tb.body, [], out)
        trees[q] = out
    g, s = trees[CLS + '.__getitem__'], trees[CLS + '.__setitem__']
    # compare per condition path the helper and its arguments
    gd = {(c, h): (a, k) for c, h, a, k in g}
    sd = {(c, h): (a, k) for c, h, a, k in s}
    keys = sorted(set(gd) | set(sd), key=str)
    n = 0
    fn = mod.func(CLS + '.__getitem__')
    for key in keys:
        n += 1
        a, b = gd.get(key), sd.get(key)
        ck.check(a is not None and a == b, rule, mod, fn, '__getitem__ <-> __setitem__',
                 'case %s -> %s%s' % (' & '.join(key[0]) or '<tuple>', key[1], a if a is not None else b),
                 'reader and writer convert this index form identically',
                 'for the index form [%s] the reader calls %s%s but the writer calls %s%s: a value written through '
                 'one index form is read back from a different cell' % (' & '.join(key[0]), key[1], a, key[1], b))
    ck.floor(rule, n, 5, 'index-form cases')
    # top-level type dispatch agreement
    tests = {}
    for q in (CLS + '.__getitem__', CLS + '.__setitem__'):
        fnq = mod.func(q)
        tests[q] = [u(nn.test) for nn in walk_local(fnq) if isinstance(nn, ast.If) and 'iis' in u(nn.test) and
                    ('isinstance(iis' in u(nn.test) or 'type(iis)' in u(nn.test))]
    ck.check('isinstance(iis, tuple)' in tests[CLS + '.__getitem__'] and 'type(iis) is type(self)' in tests[CLS + '.__getitem__'] and
             'isinstance(iis, tuple)' in tests[CLS + '.__setitem__'] and 'type(iis) is type(self)' in tests[CLS + '.__setitem__'],
             rule + '.forms', mod, fn, '__getitem__ <-> __setitem__', str(tests), 'both accept tuple and ragged-mask indices', 'reader and writer accept different index kinds')
    # ragged mask: where() then recurse
    for q, rec in ((CLS + '.__getitem__', 'self.__getitem__(iis)'), (CLS + '.__setitem__', 'self.__setitem__(iis, value)')):
        fnq = mod.func(q)
        ok = any(isinstance(nn, ast.If) and u(nn.test) == 'type(iis) is type(self)' and
                 any(u(x) == 'iis = where(iis)' for x in nn.body) and rec in u(nn.body[-1]) for nn in walk_local(fnq))
        ck.check(ok, rule + '.mask', mod, fnq, q, 'mask -> where(mask) -> %s' % rec, 'boolean ragged mask converted to paired indices and re-dispatched',
                 'a ragged boolean mask must be converted with where() and re-dispatched')


def d4_index_space(ck, mod):
    rule = 'C05.D4.index-space'
    fn = mod.func('_get_iis_from_slices')
    fi = finfo(mod, fn)
    rows, sl, lengths = params(fn)[:3]
    loops = [l for l in walk_local(fn) if isinstance(l, ast.For)]
    n = 0
    for loop in loops:
        for sub in walk_local(loop):
            if isinstance(sub, ast.Subscript) and u(sub.value) in ('stops', 'starts', lengths) and isinstance(sub.ctx, ast.Load):
                idx = sub.slice
                n += 1
                lv = u(loop.target)
                ok = False
                if u(idx) == lv and u(loop.iter) == rows:
                    ok = True        # iterating row ids directly
                elif u(idx) == '%s[%s]' % (rows, lv) and isinstance(loop.iter, ast.Call) and call_name(loop.iter) == 'range':
                    ok = True        # positions, mapped through the selection
                ck.check(ok, rule, mod, sub, '_get_iis_from_slices', 'for %s in %s: ... %s' % (lv, u(loop.iter), u(sub)),
                         'row-indexed array subscripted with a ROW ID of the selection',
                         '`%s` is indexed by row id (it is derived from `%s`), but `%s` iterates over %s: a position in the '
                         'row selection is used as a row id, so for a[1:, :] / a[[2, 0], :] the stop of the wrong row '
                         'clips the slice' % (u(sub.value), lengths, lv, u(loop.iter)))
    ck.floor(rule, n, 1, 'row-indexed subscripts in the expansion loop')
    # iis_1d repeats the row id of position i, lengths[i] times
    rep = [c for c in calls_in(fn) if call_name(c) == 'itertools.repeat']
    ok = len(rep) == 1 and u(rep[0].args[0]) == '%s[i]' % rows and u(rep[0].args[1]) == 'iis_2d_lengths[i]'
    ck.check(ok, rule + '.repeat', mod, rep[0] if rep else fn, '_get_iis_from_slices', u(rep[0]) if rep else 'repeat',
             'row id of selection position i repeated once per selected column', 'row ids must be repeated per selected column count of the same position')
    # clip of stops to lengths
    cl = [(s, t) for s, t in subscript_stores(fn, 'stops')]
    ok = len(cl) == 1 and u(cl[0][0].value) == '%s[%s]' % (lengths, u(cl[0][1].slice))
    w = [s for s in walk_local(fn) if isinstance(s, ast.Assign) and u(s.targets[0]) == u(cl[0][1].slice)] if cl else []
    ok = ok and len(w) == 1 and u(w[0].value) == C('np.where(stops > %s)' % lengths)
    ck.check(ok, rule + '.clip', mod, cl[0][0] if cl else fn, '_get_iis_from_slices', u(cl[0][0]) if cl else 'clip', 'stops beyond a row are clipped to that row\'s length',
             'stops must be clipped per row: stops[stops > lengths] = lengths[...]')


def d5_where(ck, mod):
    rule = 'C05.D5.flat-to-2d'
    fn = mod.func('_convert_from_1d')
    ck.analysed(mod, fn)
    fd = [s for s in walk_local(fn) if isinstance(s, ast.Assign) and u(s.targets[0]) == 'first_dimension']
    ok = len(fd) == 1 and u(fd[0].value) == C('[np.where(starts <= ii)[0][-1] for ii in iis_flat]')
    ck.check(ok, rule, mod, fd[0] if fd else fn, '_convert_from_1d', u(fd[0]) if fd else 'first_dimension',
             'row of a flat index = LAST row whose start is <= the index', 'row must be np.where(starts <= ii)[0][-1] (< loses the first element of each row)')
    sd = [s for s in walk_local(fn) if isinstance(s, ast.Assign) and u(s.targets[0]) == 'second_dimension']
    ok = len(sd) == 1 and u(sd[0].value) == '[iis_flat[num] - starts[first_dimension[num]] for num in range(len(iis_flat))]'
    ck.check(ok, rule, mod, sd[0] if sd else fn, '_convert_from_1d', u(sd[0]) if sd else 'second_dimension', 'column = flat index - start of its row', 'column must be iis_flat[k] - starts[row[k]]')
    st = [s for s in walk_local(fn) if isinstance(s, ast.Assign) and u(s.targets[0]) == 'starts']
    ok = len(st) == 1 and u(st[0].value) == C('np.append([0], np.cumsum(lengths)[:-1])')
    ck.check(ok, rule + '.starts', mod, st[0] if st else fn, '_convert_from_1d', u(st[0]) if st else 'starts', 'starts = exclusive prefix sums of lengths', 'starts must be np.append([0], np.cumsum(lengths)[:-1])')
    for q in ('_convert_from_2d', CLS + '.starts'):
        f = mod.func(q)
        txt = [u(x) for x in ast.walk(f) if isinstance(x, ast.Call) and call_name(x) == 'np.append']
        want = C('np.append([0], np.cumsum(%s)[:-1])' % ('self.lengths' if q.endswith('.starts') else 'lengths'))
        ok = want in txt
        if q.endswith('.starts'):
            rr = returns_of(f)
            ok = len(rr) == 1 and u(rr[0].value) == want and len([x for x in f.body if not (isinstance(x, ast.Expr) and isinstance(x.value, ast.Constant))]) == 1
        ck.check(ok, rule + '.starts', mod, f, q, want, 'same definition of starts (recomputed from the current lengths on every access)',
                 '%s must compute starts as %s from the CURRENT lengths on every access (a cached copy goes stale when append changes the lengths)' % (q, want))
    fw = mod.func('where')
    ok = any(u(x) == '_convert_from_1d(iis_flat, starts=mask.starts)' for x in ast.walk(fw) if isinstance(x, ast.Call)) and \
        any(u(x) == 'np.where(mask._data)' for x in ast.walk(fw) if isinstance(x, ast.Call))
    ck.check(ok, rule + '.where', mod, fw, 'where', 'np.where(mask._data) -> _convert_from_1d(..., starts=mask.starts)', 'mask positions converted with the mask\'s own starts', 'where must convert np.where(mask._data) with mask.starts')
    # simple observers
    obs = {'__len__': 'len(self._array)', 'flatten': 'self._data.flatten()', 'dtype': 'self._data.dtype'}
    for name, want in obs.items():
        f = mod.func(CLS + '.' + name)
        r = returns_of(f)
        ck.check(len(r) == 1 and u(r[0].value) == want, 'C05.D6.observers', mod, r[0] if r else f, CLS + '.' + name, u(r[0]) if r else name,
                 '%s = %s' % (name, want), '%s must return %s' % (name, want))
    gi = mod.func(CLS + '.__getitem__')
    first = gi.body[0]
    ok = isinstance(first, ast.If) and u(first.test) == 'isinstance(iis, numbers.Integral)' and u(first.body[0]) == 'return self._array[iis]'
    ck.check(ok, 'C05.D6.observers', mod, first, CLS + '.__getitem__', u(first.test), 'integer index returns the row view', 'a[i] must return self._array[i]')


def d7_constructor_and_lists(ck, mod):
    """Rectangular fast path of the constructor and the row x column product
    used for (rows, column-list) indices."""
    rule = 'C05.D7.row-major'
    fn = mod.func(CLS + '.__init__')
    ck.analysed(mod, fn)
    rs = [s for s in walk_local(fn) if isinstance(s, ast.Assign) and u(s.targets[0]) == 'self._array' and
          isinstance(s.value, ast.Call) and isinstance(s.value.func, ast.Attribute) and s.value.func.attr == 'reshape']
    for s in rs:
        a = [u(x) for x in s.value.args]
        if len(a) == 1 and isinstance(s.value.args[0], ast.Tuple):
            a = [u(x) for x in s.value.args[0].elts]
        ok = u(s.value.func.value) == 'self._data' and a in (['-1', 'lengths[0]'], ['len(lengths)', 'lengths[0]'], ['1', 'self.lengths[0]'],
                                                               ['-1', 'self.lengths[0]'], ['len(self.lengths)', 'self.lengths[0]'])
        ck.check(ok, rule + '.reshape', mod, s, CLS + '.__init__', u(s),
                 'equal-length fast path: rows x row-length view of the flat data',
                 'the rectangular row view must be self._data.reshape(<number of rows or -1>, <row length>): with the arguments '
                 'swapped the view has row-length rows of n-rows elements, so a[i], iteration and len() disagree with the rows')
    ck.floor(rule + '.reshape', len(rs), 2, 'reshape views in the constructor')
    g = [n for n in walk_local(fn) if isinstance(n, ast.If) and u(n.test) in CS('np.all(lengths == lengths[0])')]
    ck.check(len(g) == 1, rule + '.reshape', mod, g[0] if g else fn, CLS + '.__init__', u(g[0].test) if g else 'equal-length test',
             'the fast path is taken only when all lengths are equal', 'the reshape fast path must be guarded by np.all(lengths == lengths[0])')
    fl = mod.func('_get_iis_from_list')
    ck.analysed(mod, fl)
    a, b = params(fl)[:2]
    pr = [c for c in calls_in(fl) if call_name(c) == 'itertools.product']
    ok = len(pr) == 1 and [u(x) for x in pr[0].args] == [a, b]
    st = [s for s in walk_local(fl) if isinstance(s, ast.Assign) and isinstance(s.targets[0], ast.Name) and 'itertools.product' in u(s.value)]
    ok = ok and len(st) == 1 and u(st[0].value) == 'np.array(list(itertools.product(%s, %s))).T' % (a, b)
    ck.check(ok, rule + '.product', mod, pr[0] if pr else fl, '_get_iis_from_list', u(st[0]) if st else 'row x column pairs',
             '(row, column) pairs enumerated row-major: all columns of the first row, then the next row',
             'the index pairs must be itertools.product(rows, columns) (row-major) transposed into (rows, cols): the flat result is '
             'chunked row by row by new_lengths, so a column-major enumeration (e.g. np.meshgrid default) scatters values into '
             'transposed slots')
    nl = [s for s in walk_local(fl) if isinstance(s, ast.Assign) and u(s.targets[0]) == 'new_lengths']
    ok = len(nl) == 1 and u(nl[0].value) == 'list(itertools.repeat(len(%s), len(%s)))' % (b, a)
    ck.check(ok, rule + '.product', mod, nl[0] if nl else fl, '_get_iis_from_list', u(nl[0]) if nl else 'new_lengths',
             'every selected row contributes len(columns) elements', 'new_lengths must be len(columns) repeated len(rows) times')


def check(ck):
    mod = ck.repo.mod(RA)
    d7_constructor_and_lists(ck, mod)
    from ..patterns import check_no_arg_mutation
    check_no_arg_mutation(ck, 'C05.D8.reads-are-pure', [(RA, CLS + '.__getitem__'), (RA, '_convert_from_2d'), (RA, '_convert_from_1d'),
                                                        (RA, 'where'), (RA, '_get_iis_from_list'), (RA, '_slice_to_list'),
                                                        (RA, '_get_iis_from_slices')], exempt_self_methods=False)
    d1_bounds(ck, mod)
    d2_slices(ck, mod)
    d3_dispatch(ck, mod)
    d4_index_space(ck, mod)
    d5_where(ck, mod)
    return EXPLANATION

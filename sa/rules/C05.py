"""C05 Ragged reads: bounds check before flat-index use, slice-bound
normalisation completeness, dispatch agreement, index-space consistency.

The constructs are located by ROLE (parameters by position, "the value that
is returned", "the index of a self._data[...] access", "the array subscripted
inside the loop over the row selection", ...) and compared after expanding
temporaries, so the rules do not depend on local names, on which
sub-expressions carry a name, or on the shape of the if/elif trees.  A shape
that is not recognised is reported as analysis-incomplete; a violation is
reported only for a recognised construct whose content differs."""
import ast
import copy as _copy

from .. import nullness
from ..cfg import ENTRY, EXIT, Assume
from ..core import (call_name, const_value, dotted, names_loaded, params,
                    param_default, target_names, u, walk_expr, walk_local)
from ..normal import IMPURE_NP, PURE_FUNCS, PURE_METHODS
from ..patterns import (Cmp, assigns_to, calls_in, conjuncts, finfo,
                        returns_of, shared, subscript_stores)
from ..match import C, canon, distance, match
from ..match import _NEUTRAL, _parse

RA = 'enspara/ra/ra.py'
CLS = 'RaggedArray'

EXPLANATION = (
    'Static decision of the structural necessary conditions of ragged reads: '
    '(D1) in _convert_from_2d the test lengths[row] <= column -> IndexError '
    'dominates the flat-index computation whenever lengths is given and '
    'error_check is on (default True); every self._data[...] access in '
    '__getitem__/__setitem__ takes its index from _convert_from_2d(..., '
    'lengths=self.lengths, starts=self.starts) with error_check left at its '
    'default and every path through the tuple-index branch goes through such '
    'an access (or a numpy row access); negative indices are re-tested after '
    'the length is added; (D2) '
    'every function that turns slice bounds into index ranges treats None and '
    'negative values of BOTH start and stop and treats or rejects negative '
    'steps (one-sided-comparison rule + nullness reachability of the branch) - '
    'known findings are reported; (D3) __getitem__ and __setitem__ map '
    'each (type of first index, type of second index) case to the same '
    'conversion helper with the same arguments (decided by abstract '
    'interpretation of both decision trees over the nine type cases; len(X) and '
    'X.shape[0] are one spelling for attributes only ever bound to ndarray '
    'constructors), and both expand a row slice against the number of rows; (D4) in '
    '_get_iis_from_slices row-indexed arrays (stops/lengths) are subscripted '
    'with row ids (the elements of the row selection), never with positions in '
    'the selection; row ids are repeated by the column count of the same '
    'position; stops are clipped to the row lengths; '
    '(D5) flat->2-D conversion for masks uses the last start <= index; (D6) '
    'simple observers (effective = last definition in the class body): __len__, '
    'flatten, dtype, size = number of scalars of the flat data, shape[0] = number '
    'of rows, attribute-style observers are plain properties; (D7) rectangular fast path of the constructor is '
    'rows x row-length and guarded by the equal-lengths test, (row, column) '
    'pairs are enumerated row-major. '
    'Added after the bug hunt: (D2) a helper that hands `slice.indices(length)` whole to range()/arange() is '
    'complete by the slice protocol (the length must be the number of rows / the length of the row); a hand-written '
    'row-slice expansion must limit the stop to the length and re-test the start after adding the length; (D4/D5) '
    'index arrays (row ids, columns, mask positions) are not dtype-less conversions of python sequences (float64 when '
    'the selection is empty); (D7) the rectangular fast path keeps the element dimensions of the flat data '
    '(... + self._data.shape[1:]); the row container is not built by np.array(<rows>, dtype=object), whose rank '
    'depends on whether the rows happen to be equally long. '
    'Third wave: python lists are read elementwise (comprehension, append loop, fused loop, zip / enumerate / '
    'range(len()) re-indexing all denote "position k holds f(D[k], k)"), so (D5) compares the row / column of ONE flat '
    'index whatever loop shape computes it; a name that is still a list under construction, a helper the front end did '
    'not inline, an extra guard or a rebinding the rule cannot evaluate give analysis-incomplete, not a violation; (D2) the '
    '(start, stop, step) triple of slice.indices reaches range()/arange() in this order; (D3) an argument that spells out a '
    'constant default and data[(x,)] vs data[x] are one spelling. '
    'Fourth wave: (D1) a temporary bound in several branches is read as each of its values (the offset added to a negative '
    'column may be named once for two branches); every array the read path updates in place - by its own element stores or by '
    'handing it to a helper whose effects summary writes the parameter (_handle_negative_indices) - is traced back through all '
    'reaching definitions and cell-preserving steps to where its memory comes from: a broadcast / strided view '
    '(np.broadcast_to, np.broadcast_arrays, as_strided) keeps several elements in one cell, so the per-row offset of negative '
    'columns would be written over all rows (violation); behind a reshape / an unfollowed helper the rule answers incomplete. '
    'Fifth wave (case tables: each loop-free helper is followed symbolically under every case of a finite abstract domain, tests '
    'evaluated three-valued from their syntactic form, nothing executed): (D1) _handle_negative_indices over one / many rows and '
    'columns, 0-d / 1-d single entries, no / some negative entries - the negative entries and only those are offset exactly once, by '
    'ADDING the number of rows / the length of their own row, 0-d indices are made one-dimensional before np.where, no refusal other '
    'than IndexError is reachable with lengths supplied and the re-test is not decided by the case alone; _convert_from_2d spreads a '
    'single column over the rows exactly for (several rows, one column) and hands rows / columns to the normalisation in this order; '
    '(D2/D5) under the None-ness of the optional parameters at the read-path call sites no configuration refusal of '
    '_convert_from_2d / _convert_from_1d / _slice_to_list is reachable and no omitted parameter is used as a value; (D7) the '
    'constructor reads nested rows / a flat sequence of scalars / an empty input / flat data plus lengths each as such (which '
    'statement sets self._data and self.lengths in each case); (D6) shape[1] is the common row length exactly when all rows are '
    'equally long and the element width is reported exactly for array elements. '
    'Sixth wave: (D7) every value stored into the row container self._array, in every method of the class, is traced through all '
    'reaching definitions, conditional arms and slot-wise fills back to where its memory comes from: it must be a view of the flat '
    'data self._data (reshape, basic slices, partition_list, a sequence / object array of those) or the empty container; a container '
    'built from a parameter without going through the flat data, or behind a copy-making step, is a second memory (violation: reads '
    'through a[i] / iteration and through a[i, j] / slices / flatten no longer see the same rows); an unfollowed step gives incomplete. '
    'Equality with the list-of-rows model for every index expression is not '
    'decided.')


# ---------------------------------------------------------------------------
# generic helpers (candidates for promotion to a shared module)

_PURE_PREFIXES = ('itertools.',)


def _pure(e):
    """sa.normal.is_pure, with the itertools constructors accepted as pure
    (they build fresh iterators from their arguments)."""
    for n in ast.walk(e):
        if isinstance(n, (ast.Yield, ast.YieldFrom, ast.Await, ast.NamedExpr, ast.Lambda)):
            return False
        if isinstance(n, ast.Call):
            cn = call_name(n) or ''
            if cn.startswith(_PURE_PREFIXES):
                continue
            if isinstance(n.func, ast.Name):
                if n.func.id not in PURE_FUNCS:
                    return False
            elif isinstance(n.func, ast.Attribute):
                if cn.startswith(('np.', 'numpy.', 'math.')):
                    if cn in IMPURE_NP or '.random.' in cn:
                        return False
                elif n.func.attr not in PURE_METHODS and not (n.func.attr == 'indices' and len(n.args) == 1 and not n.keywords):
                    return False          # (<slice>.indices(n) is the only method of that name: pure)
            else:
                return False
    return True


def _site_value(fi, name_node, site, strict=True):
    """The value bound to the name by ONE of its reaching definitions, when
    that definition is `name = <pure expression>` (or `a, b = <pure call>`,
    seen as a = <call>[0], b = <call>[1]), the object is never mutated in
    place and no operand is rebound / mutated between definition and use."""
    if site in ('PARAM', 'UNBOUND') or not isinstance(site, (ast.Assign, ast.AnnAssign)):
        return None
    v = fi.def_value(site, name_node.id)
    if v is None and isinstance(site, ast.Assign) and len(site.targets) == 1 and \
            isinstance(site.targets[0], (ast.Tuple, ast.List)) and isinstance(site.value, ast.Call):
        elts = site.targets[0].elts
        pos = [i for i, e in enumerate(elts) if isinstance(e, ast.Name) and e.id == name_node.id]
        if len(pos) == 1 and all(isinstance(e, ast.Name) for e in elts):
            v = ast.copy_location(ast.Subscript(value=site.value, slice=ast.Constant(value=pos[0]), ctx=ast.Load()), site.value)
    if v is None or isinstance(v, ast.GeneratorExp) or not _pure(v):
        return None
    if fi._mutated_in_place(name_node.id):
        return None
    use = fi.stmt(name_node)
    if use is None:
        return None
    for m in walk_expr(v):
        if not (isinstance(m, ast.Name) and isinstance(m.ctx, ast.Load)):
            continue
        if fi.rd.defs_at(site, m.id) != fi.rd.defs_at(use, m.id):
            return None
        for ms in (fi._mutated_in_place(m.id) if strict else []):
            if ms is use or ms is site:
                continue
            if fi.cfg.reachable(site, ms, avoiding=[use]) and fi.cfg.reachable(ms, use, avoiding=[site]):
                return None
    return v


def _temp_value(fi, name_node, strict=True):
    """FuncInfo.temp_value with (a) itertools.* accepted as pure and (b)
    `a, b = <pure call>` seen as a = <call>[0], b = <call>[1]."""
    if not isinstance(name_node, ast.Name) or not isinstance(name_node.ctx, ast.Load):
        return None
    try:
        defs = fi.defs_of_use(name_node)
    except Exception:
        return None
    if len(defs) != 1:
        return None
    return _site_value(fi, name_node, next(iter(defs)), strict)


def _alternatives(fi, expr, strict=True, limit=8):
    """The values an expression can denote when a temporary in it has SEVERAL
    reaching definitions (one per branch: `if c: t = A else: t = B; use(t)`):
    the list of expansions, one per definition, each name resolved once
    (a phi of pure temporaries).  A name with a definition that is not a pure
    temporary stays a name (in every alternative).  At most `limit`
    alternatives; [expansion of expr] when nothing branches."""
    outs = [expr]
    for _ in range(4):
        nxt, split = [], False
        for e in outs:
            x = _expand(fi, e, strict=strict)
            cand = None
            for n in ast.walk(x):
                if not (isinstance(n, ast.Name) and isinstance(n.ctx, ast.Load)):
                    continue
                o = getattr(n, '_orig', n)      # only ORIGINAL nodes of the function have def-use information
                try:
                    defs = fi.defs_of_use(o)
                except Exception:
                    continue
                if len(defs) < 2:
                    continue
                vals = [_site_value(fi, o, site, strict) for site in defs]
                if all(v is not None for v in vals):
                    cand = (n, sorted(vals, key=lambda v: (getattr(v, 'lineno', 0), getattr(v, 'col_offset', 0))))
                    break
            if cand is None:
                nxt.append(x)
                continue
            split = True
            n, vals = cand
            for v in vals:
                nxt.append(_replace_node(x, n, v))
        outs = nxt
        if not split or len(outs) > limit:
            break
    return outs[:limit] if len(outs) <= limit else [_expand(fi, expr, strict=strict)]


_RANK = {'match': 0, 'far': 1, 'near': 2}


def _replace_node(tree, node, value):
    """tree with the ONE node `node` (identity) replaced by `value`; the other
    sub-trees are the original nodes."""
    if tree is node:
        return value
    if not isinstance(tree, ast.AST) or isinstance(tree, (ast.expr_context, ast.operator, ast.unaryop, ast.boolop, ast.cmpop)):
        return tree
    vals, changed = {}, False
    for f in tree._fields:
        val = getattr(tree, f, None)
        if isinstance(val, list):
            nv = [_replace_node(x, node, value) for x in val]
            changed = changed or any(a is not b for a, b in zip(nv, val))
        elif isinstance(val, ast.AST):
            nv = _replace_node(val, node, value)
            changed = changed or nv is not val
        else:
            nv = val
        vals[f] = nv
    if not changed:
        return tree
    new = type(tree)(**vals)
    for a in ('lineno', 'col_offset', 'end_lineno', 'end_col_offset', '_from_np_array', '_canon_origin'):
        if hasattr(tree, a):
            setattr(new, a, getattr(tree, a))
    return new


def _expand(fi, expr, stop=(), strict=True, depth=8):
    """FuncInfo.expand over _temp_value (see there)."""
    def ex(e, d):
        if isinstance(e, ast.Name):
            if d > 0 and e.id not in stop and isinstance(e.ctx, ast.Load):
                v = _temp_value(fi, e, strict)
                if v is not None:
                    return ex(v, d - 1)
            cp = ast.copy_location(ast.Name(id=e.id, ctx=e.ctx), e)
            cp._orig = getattr(e, '_orig', e)          # the node of the function (def-use queries: _alternatives)
            return cp
        if not isinstance(e, ast.AST):
            return e
        if isinstance(e, (ast.expr_context, ast.operator, ast.unaryop, ast.boolop, ast.cmpop)):
            return e
        if isinstance(e, ast.Call) and getattr(e, '_from_np_array', False) and isinstance(e.func, ast.Attribute) \
                and isinstance(e.func.value, ast.Name):
            # `name.copy()` that the front end spelled from np.array(name): once the name is
            # expanded to a non-name expression it is np.array(<expr>) again (as FuncInfo.expand)
            inner = ex(e.func.value, d)
            if not isinstance(inner, ast.Name):
                return ast.copy_location(ast.Call(
                    func=ast.Attribute(value=ast.Name(id='np', ctx=ast.Load()), attr='array', ctx=ast.Load()),
                    args=[inner], keywords=[]), e)
        new = type(e)()
        for f in e._fields:
            val = getattr(e, f, None)
            if isinstance(val, list):
                setattr(new, f, [ex(x, d) for x in val])
            elif isinstance(val, ast.AST):
                setattr(new, f, ex(val, d))
            else:
                setattr(new, f, val)
        for a in ('lineno', 'col_offset', 'end_lineno', 'end_col_offset', '_from_np_array', '_canon_origin'):
            if hasattr(e, a):
                setattr(new, a, getattr(e, a))
        return new
    return ex(expr, depth)


def _xc(fi, expr, **kw):
    """Expanded, canonical tree."""
    return canon(_expand(fi, expr, **kw))


def _xu(fi, expr, **kw):
    return u(_xc(fi, expr, **kw))


def _classify(node, patterns, scope):
    """match.classify(scope=...) over _pure: 'match' / 'near' (a pure function
    of the names in scope that is none of the accepted forms: a DIFFERENT
    computation in a located role) / 'far' (cannot see through it)."""
    n = canon(node)
    best = None
    for pat in patterns:
        p = _parse(pat)
        b = {}
        d = distance(p, n, b)
        if d == 0:
            return ('match', b)
        if best is None or d < best[0]:
            best = (d, pat)
    if best is None:
        return ('far', 10 ** 6, None)
    bound = set()
    for x in ast.walk(n):
        if isinstance(x, ast.comprehension):
            bound.update(t.id for t in ast.walk(x.target) if isinstance(t, ast.Name))
    allowed = set(scope) | _NEUTRAL | {'itertools'} | bound
    closed = _pure(n) and all(x.id in allowed for x in ast.walk(n) if isinstance(x, ast.Name))
    return ('near' if closed else 'far', best[0], best[1])


def _path_conditions(mod, stmt, fn):
    """[(test, polarity, If)] of the if-statements of fn that enclose stmt,
    outermost first (polarity False: stmt sits in the else branch)."""
    out = []
    n = stmt
    while n is not None and n is not fn:
        p = mod.parent.get(n)
        if isinstance(p, ast.If):
            if any(n is x for x in p.body):
                out.append((p.test, True, p))
            elif any(n is x for x in p.orelse):
                out.append((p.test, False, p))
        n = p
    return list(reversed(out))


def _atom_expr(a):
    """A conjunct from patterns.conjuncts as one boolean expression."""
    if isinstance(a, Cmp):
        return ast.Compare(left=a.lhs, ops=[a.op()], comparators=[a.rhs])
    _, e, pol = a
    return e if pol else ast.UnaryOp(op=ast.Not(), operand=e)


def _atoms(conds):
    out = []
    for test, pol, node in conds:
        cs = conjuncts(test, pol)
        if cs is None:
            out.append((('expr', test, pol), node))
        else:
            out += [(c, node) for c in cs]
    return out


def _xatoms(fi, conds):
    """_atoms after expansion of temporaries: a condition kept under a name
    (`rect = lengths is not None and np.all(...)`; `if rect:`) is split into
    its conjuncts again; bool(<test>) is <test> where a truth value is asked."""
    def unbool(e):
        while isinstance(e, ast.Call) and call_name(e) == 'bool' and len(e.args) == 1 and not e.keywords:
            e = e.args[0]
        if isinstance(e, ast.BoolOp):
            e = ast.copy_location(ast.BoolOp(op=e.op, values=[unbool(x) for x in e.values]), e)
        elif isinstance(e, ast.UnaryOp) and isinstance(e.op, ast.Not):
            e = ast.copy_location(ast.UnaryOp(op=e.op, operand=unbool(e.operand)), e)
        return e
    out = []
    for a, node in _atoms(conds):
        e = _atom_expr(a)
        x = unbool(_expand(fi, e))
        if u(x) == u(e):
            out.append((a, node))
            continue
        cs = conjuncts(x, True)
        if cs is None:
            out.append((('expr', x, True), node))
        else:
            out += [(c, node) for c in cs]
    return out


def _named_atoms(fi, conds):
    """Atoms of conditions that are kept under a name bound once to a test that calls the module's predicate
    (`rows_given = _is_iterable(array[0])`; `if rows_given:`) - such a call is not a pure temporary for _xatoms."""
    out = []
    for test, pol, node in conds:
        for a in conjuncts(test, pol) or []:
            if isinstance(a, Cmp) or not isinstance(a[1], ast.Name):
                continue
            try:
                defs = fi.defs_of_use(a[1])
            except Exception:
                continue
            if len(defs) != 1:
                continue
            site = next(iter(defs))
            if site in ('PARAM', 'UNBOUND') or not isinstance(site, ast.Assign):
                continue
            v = fi.def_value(site, a[1].id)
            if v is None or not _pure_pred(v):
                continue
            if any(isinstance(m, ast.Name) and isinstance(m.ctx, ast.Load) and fi.rd.defs_at(site, m.id) != fi.rd.defs_at(node, m.id)
                   for m in walk_expr(v)):
                continue
            out += [(c, node) for c in (conjuncts(v, a[2]) or [])]
    return out


def _bind_call(mod, call):
    """{parameter name: argument} of a call to a module-level function of the
    analysed module (positional and keyword arguments alike)."""
    f = mod.functions.get(call_name(call) or '')
    if f is None:
        return None
    ps = params(f)
    out = {}
    for i, a in enumerate(call.args):
        if isinstance(a, ast.Starred) or i >= len(ps):
            return None
        out[ps[i]] = a
    for k in call.keywords:
        if k.arg is None:
            return None
        out[k.arg] = k.value
    return out


def _uses_beyond_none(e, name):
    """Does e use `name` other than in `name is None` / `name is not None`?"""
    skip = set()
    for c in ast.walk(e):
        if isinstance(c, ast.Compare) and len(c.ops) == 1 and isinstance(c.ops[0], (ast.Is, ast.IsNot)):
            for side in (c.left, c.comparators[0]):
                if isinstance(side, ast.Name) and side.id == name:
                    skip.add(id(side))
    return any(isinstance(x, ast.Name) and x.id == name and id(x) not in skip for x in ast.walk(e))


def _raises(stmt, exc):
    return isinstance(stmt, ast.Raise) and stmt.exc is not None and \
        (dotted(stmt.exc.func if isinstance(stmt.exc, ast.Call) else stmt.exc) or '').split('.')[-1] == exc


def _local_names(fn):
    out = set(params(fn))
    for n in walk_local(fn):
        if isinstance(n, ast.Name):
            out.add(n.id)
    return out


def _increments(fn, name):
    """(stmt, target, addend) of `T += e` / `T = T + e` with T = name or name[...]."""
    out = []
    for s in walk_local(fn):
        if isinstance(s, ast.AugAssign) and isinstance(s.op, ast.Add):
            t, add = s.target, s.value
        elif isinstance(s, ast.Assign) and len(s.targets) == 1 and isinstance(s.value, ast.BinOp) and isinstance(s.value.op, ast.Add):
            t = s.targets[0]
            if u(s.value.left) == u(t):
                add = s.value.right
            elif u(s.value.right) == u(t):
                add = s.value.left
            else:
                continue
        else:
            continue
        b = t.value if isinstance(t, ast.Subscript) else t
        if isinstance(b, ast.Name) and b.id == name:
            out.append((s, t, add))
    return out


# ---------------------------------------------------------------------------
# elementwise view of python lists: append loops, comprehensions, fused loops,
# zip / enumerate / range(len()) re-indexing all denote "position k holds
# f(D[k], k)" for a domain sequence D.  (candidate for a shared module)

ELEM, POS = 'ELEM__', 'POS__'
_LEAF = (ast.expr_context, ast.operator, ast.unaryop, ast.boolop, ast.cmpop)
_KEEP_ATTRS = ('lineno', 'col_offset', 'end_lineno', 'end_col_offset', '_from_np_array', '_canon_origin')


def _subst(e, env):
    """e with the loads of the names in env replaced by env[name].  Sub-trees
    without a replaced name are the ORIGINAL nodes (def-use queries on them
    keep working); names re-bound by an inner comprehension are left alone."""
    if not env:
        return e
    if isinstance(e, ast.Name):
        return env[e.id] if isinstance(e.ctx, ast.Load) and e.id in env else e
    if not isinstance(e, ast.AST) or isinstance(e, _LEAF):
        return e
    if isinstance(e, (ast.ListComp, ast.SetComp, ast.GeneratorExp, ast.DictComp)):
        inner = dict(env)
        gens = []
        changed = False
        for g in e.generators:
            it = _subst(g.iter, inner)
            for t in ast.walk(g.target):
                if isinstance(t, ast.Name):
                    inner.pop(t.id, None)
            ifs = [_subst(c, inner) for c in g.ifs]
            changed = changed or it is not g.iter or any(a is not b for a, b in zip(ifs, g.ifs))
            gens.append(ast.comprehension(target=g.target, iter=it, ifs=ifs, is_async=g.is_async))
        parts = {f: _subst(getattr(e, f), inner) for f in e._fields if f != 'generators'}
        if not changed and all(parts[f] is getattr(e, f) for f in parts):
            return e
        new = type(e)(generators=gens, **parts)
        return ast.copy_location(new, e)
    vals = {}
    changed = False
    for f in e._fields:
        val = getattr(e, f, None)
        if isinstance(val, list):
            nv = [_subst(x, env) for x in val]
            changed = changed or any(a is not b for a, b in zip(nv, val))
        elif isinstance(val, ast.AST):
            nv = _subst(val, env)
            changed = changed or nv is not val
        else:
            nv = val
        vals[f] = nv
    if not changed:
        return e
    new = type(e)(**vals)
    for a in _KEEP_ATTRS:
        if hasattr(e, a):
            setattr(new, a, getattr(e, a))
    return new


def _peel(fi, e, depth=6):
    """Follow pure single-definition temporaries; the result is an ORIGINAL node."""
    while depth > 0 and isinstance(e, ast.Name):
        v = _temp_value(fi, e)
        if v is None:
            break
        e, depth = v, depth - 1
    return e


def _enclosing_loops(mod, n, fn):
    out = []
    p = mod.parent.get(n)
    while p is not None and p is not fn:
        if isinstance(p, (ast.For, ast.While, ast.AsyncFor)):
            out.append(p)
        p = mod.parent.get(p)
    return out


def _is_append(s):
    """`X.append(<one argument>)` as a statement -> (X, argument)."""
    if isinstance(s, ast.Expr) and isinstance(s.value, ast.Call) and isinstance(s.value.func, ast.Attribute) and \
            s.value.func.attr == 'append' and isinstance(s.value.func.value, ast.Name) and len(s.value.args) == 1 and \
            not s.value.keywords and not isinstance(s.value.args[0], ast.Starred):
        return s.value.func.value.id, s.value.args[0]
    return None


def _accumulated_list(fi, name_node):
    """A use of a list N that is built by ONE append in ONE for loop

         N = []                          (the only definition reaching the use and the append)
         for T in IT:                    (no else; the body consists of `t = <pure>` and `<list>.append(<pure>)` only,
             ...                          so it has no break / continue / return and mutates nothing but the lists)
             N.append(E)
         ... use of N ...                (dominated by the loop, outside it)

    denotes the comprehension [E' for T in IT], E' = E with the temporaries of
    the body substituted in order.  Other lists filled by the same loop do not
    matter (loop fusion) as long as E' does not read them.  -> ListComp or None."""
    mod = fi.mod
    if not (isinstance(name_node, ast.Name) and isinstance(name_node.ctx, ast.Load)):
        return None
    N = name_node.id
    try:
        defs = fi.defs_of_use(name_node)
        use = fi.stmt(name_node)
    except Exception:
        return None
    if use is None or len(defs) != 1:
        return None
    site = next(iter(defs))
    if not (isinstance(site, ast.Assign) and len(site.targets) == 1 and isinstance(site.targets[0], ast.Name)):
        return None
    v = site.value
    if not ((isinstance(v, ast.List) and not v.elts) or
            (isinstance(v, ast.Call) and call_name(v) == 'list' and not v.args and not v.keywords)):
        return None
    muts = fi._mutated_in_place(N)
    if len(muts) != 1 or _is_append(muts[0]) is None or _is_append(muts[0])[0] != N:
        return None
    ap = muts[0]
    loop = mod.parent.get(ap)
    if not isinstance(loop, ast.For) or loop.orelse or not any(ap is s for s in loop.body):
        return None
    if fi.rd.defs_at(ap, N) != defs or use is loop or fi._within(use, loop) or not fi.cfg.dominates(loop, use):
        return None
    if [id(x) for x in _enclosing_loops(mod, loop, fi.fn)] != [id(x) for x in _enclosing_loops(mod, site, fi.fn)]:
        return None
    # no alias of the list, no other read of it inside the loop
    for s in walk_local(fi.fn):
        if isinstance(s, ast.Assign) and isinstance(s.value, ast.Name) and s.value.id == N:
            return None
    for x in walk_local(loop):
        if isinstance(x, ast.Name) and x.id == N and x is not ap.value.func.value:
            return None
    assigned, appended = set(), set()
    for s in loop.body:
        a = _is_append(s)
        if a is not None and _pure(a[1]):
            appended.add(a[0])
        elif isinstance(s, ast.Assign) and len(s.targets) == 1 and isinstance(s.targets[0], ast.Name) and _pure(s.value):
            assigned.add(s.targets[0].id)
        else:
            return None
    env = {}
    E = None
    for s in loop.body:
        if s is ap:
            E = _subst(ap.value.args[0], env)
            break
        if isinstance(s, ast.Assign):
            env[s.targets[0].id] = _subst(s.value, env)
    if E is None:
        return None
    tn = set(target_names(loop.target))
    for x in ast.walk(E):
        if isinstance(x, ast.Name) and isinstance(x.ctx, ast.Load) and (x.id in appended or (x.id in assigned and x.id not in tn)):
            return None         # reads a list under construction / a value carried over from the previous iteration
    if tn & assigned:
        return None
    comp = ast.ListComp(elt=E, generators=[ast.comprehension(target=loop.target, iter=loop.iter, ifs=[], is_async=0)])
    return ast.copy_location(comp, ap)


def _same_seq(fi, a, b):
    """Two (original) expressions denote the same sequence: equal after expansion."""
    try:
        return _xu(fi, a) == _xu(fi, b)
    except Exception:
        return False


def _elementwise(fi, e, depth=4):
    """(D, f) such that the python sequence denoted by e has len(D) entries and
    holds f at position k, where f is an expression over ELEM (= D[k]) and POS
    (= k); None when e is not a list built elementwise.  Recognised builders:
    [g(x) for x in D]; [g(k) for k in range(len(D))]; enumerate(Y) / zip(Y, Z)
    over sequences with the same domain (Y[k] is Y's own element function);
    append loops (_accumulated_list); list()/tuple() of those; an integer-typed
    np.array()/np.asarray() of such a list (same entries, as index values).
    D and the free names of f are ORIGINAL nodes."""
    if depth <= 0:
        return None
    e = _peel(fi, e)
    for _ in range(3):
        if isinstance(e, ast.Call) and call_name(e) in ('list', 'tuple') and len(e.args) == 1 and not e.keywords and \
                not isinstance(e.args[0], ast.Starred):
            e = _peel(fi, e.args[0])
            continue
        inner = _strip_array(e)
        if inner is None:
            break
        e = _peel(fi, inner)
    if isinstance(e, ast.Name):
        lc = _accumulated_list(fi, e)
    elif isinstance(e, (ast.ListComp, ast.GeneratorExp)):
        lc = e
    else:
        return None
    if lc is None or len(lc.generators) != 1 or lc.generators[0].ifs or lc.generators[0].is_async:
        return None
    g = lc.generators[0]
    it, tgt = _peel(fi, g.iter), g.target
    E_, P_ = ast.Name(id=ELEM, ctx=ast.Load()), ast.Name(id=POS, ctx=ast.Load())

    def seq(x):
        r = _elementwise(fi, x, depth - 1)
        return r if r is not None else (_peel(fi, x), E_)

    def names(t, n):
        return isinstance(t, (ast.Tuple, ast.List)) and len(t.elts) == n and all(isinstance(x, ast.Name) for x in t.elts)

    env = {}
    cn = call_name(it) if isinstance(it, ast.Call) else None
    if cn == 'range' and len(it.args) == 1 and not it.keywords and isinstance(tgt, ast.Name):
        a = _peel(fi, it.args[0])
        Y = None
        for pat in ('len(_Y)', '_Y.shape[0]', '_Y.size'):
            b = match(pat, a, canonical=False)
            if b is not None:
                Y = b['_Y']
                break
        if Y is None:
            return None
        dom = seq(Y)[0]
        env[tgt.id] = P_
    elif cn == 'enumerate' and len(it.args) == 1 and not it.keywords and names(tgt, 2):
        dom, f = seq(it.args[0])
        env[tgt.elts[0].id], env[tgt.elts[1].id] = P_, f
    elif cn == 'zip' and it.args and not it.keywords and names(tgt, len(it.args)) and \
            not any(isinstance(a, ast.Starred) for a in it.args):
        parts = [seq(a) for a in it.args]
        dom = parts[0][0]
        if not all(_same_seq(fi, dom, p[0]) for p in parts[1:]):
            return None
        for t, p in zip(tgt.elts, parts):
            env[t.id] = p[1]
    elif isinstance(tgt, ast.Name) and cn not in ('enumerate', 'zip', 'reversed', 'sorted', 'map', 'filter'):
        dom, f = seq(it)
        env[tgt.id] = f
    else:
        return None

    def reindex(x):
        # Y[POS] -> element function of Y, for Y over the same domain
        if isinstance(x, ast.Subscript) and isinstance(x.slice, ast.Name) and x.slice.id == POS and isinstance(x.ctx, ast.Load):
            d2, f2 = seq(x.value)
            if _same_seq(fi, dom, d2):
                return f2
        if not isinstance(x, ast.AST) or isinstance(x, _LEAF) or isinstance(x, ast.Name):
            return x
        vals, changed = {}, False
        for fld in x._fields:
            val = getattr(x, fld, None)
            if isinstance(val, list):
                nv = [reindex(y) for y in val]
                changed = changed or any(p is not q for p, q in zip(nv, val))
            elif isinstance(val, ast.AST):
                nv = reindex(val)
                changed = changed or nv is not val
            else:
                nv = val
            vals[fld] = nv
        if not changed:
            return x
        new = type(x)(**vals)
        for a_ in _KEEP_ATTRS:
            if hasattr(x, a_):
                setattr(new, a_, getattr(x, a_))
        return new
    return dom, reindex(_subst(lc.elt, env))


def _accumulators(fi, fn):
    """Local containers filled by in-place stores (N = [] / np.empty(...) ... then
    N.append / N[i] = ...): what such a name holds at a use is not a function
    of the expression it occurs in, so an expression over it that no accepted
    form matches is 'not seen through', never 'a different computation'."""
    out = set()
    for s in walk_local(fn):
        if isinstance(s, ast.Assign) and len(s.targets) == 1 and isinstance(s.targets[0], ast.Name):
            v = s.value
            fresh = (isinstance(v, (ast.List, ast.Dict, ast.Set)) and not (getattr(v, 'elts', None) or getattr(v, 'keys', None))) or \
                (isinstance(v, ast.Call) and call_name(v) in ('list', 'dict', 'set', 'collections.deque', 'deque', 'np.empty', 'np.zeros',
                                                               'np.ones', 'np.full', 'np.empty_like', 'np.zeros_like', 'np.ones_like'))
            if fresh and fi._mutated_in_place(s.targets[0].id):
                out.add(s.targets[0].id)
    return out


def _value_scope(fi, fn):
    return (_local_names(fn) - _accumulators(fi, fn)) | {ELEM, POS}


# ---------------------------------------------------------------------------
# delegation of the reader / writer to private helpers that the reference does
# not have (candidate for the front end, sa/inline.py)

_DERIVED = {}


def _inline_tail_calls(fn, target, done):
    """`return h(args)` with h a followed helper: the statement is replaced by
    the parameter bindings and the helper's body VERBATIM (its returns are the
    caller's returns: the call is the whole value of a return statement, so no
    return of the helper has to be rewritten - also not one that is followed by
    further statements of the helper, which sa/inline.py refuses because it
    would need tail duplication), plus `return None` when the body can fall off
    its end.  Same behaviour as the call for every input."""
    from .. import inline
    changed = [False]

    def block(stmts):
        out = []
        for s in stmts:
            if isinstance(s, ast.Return) and isinstance(s.value, ast.Call):
                t = target(s.value)
                if t is not None:
                    helper, is_method, recv = t
                    try:
                        caller_locals = inline._assigned_names(fn) | set(params(fn))
                        prelude, body, _tag = inline.expand_call(helper, s.value, caller_locals, is_method, recv)
                    except inline._Refuse:
                        out.append(s)
                        continue
                    if not inline._ends(body):
                        body = body + [ast.copy_location(ast.Return(value=None), s)]
                    out.extend(prelude + body)
                    done.append(helper.name)
                    changed[0] = True
                    continue
            if not isinstance(s, (ast.FunctionDef, ast.AsyncFunctionDef, ast.ClassDef)):
                for f in ('body', 'orelse', 'finalbody'):
                    b = getattr(s, f, None)
                    if isinstance(b, list) and b and isinstance(b[0], ast.stmt):
                        setattr(s, f, block(b))
                for h in getattr(s, 'handlers', None) or []:
                    h.body = block(h.body)
            out.append(s)
        return out
    fn.body = block(fn.body)
    return changed[0]


def _follow_delegates(ck, mod, quals):
    """The module with, in the functions `quals`, the calls to PRIVATE helpers
    that the reference snapshot does not have (module-level `_h(..)`, methods
    `self._h(..)`) replaced by the helpers' bodies - what the front end does
    (sa/inline.py), extended to tail delegation `return self._h(index)` of
    helpers with early returns, and applied repeatedly (a new helper calling a
    new helper).  A derived Module (deep copy: the analysed module itself is not
    touched); the module itself when there is nothing to follow.  What was
    followed is recorded in the evidence and counted as analysed."""
    if id(mod) in _DERIVED:
        return _DERIVED[id(mod)][1]
    derived = mod
    try:
        import os
        from .. import inline, rename
        from ..core import Module
        ref_path = os.path.join(rename.REFERENCE, mod.rel)
        followed = {}
        if os.path.exists(ref_path):
            with open(ref_path, encoding='utf-8') as fh:
                rtree = ast.parse(fh.read())
            hf, hm = inline.new_private_helpers(mod.tree, rtree)
            todo = []
            for q in quals:
                f = mod.functions.get(q)
                cls = q.split('.')[0] if '.' in q else None
                if f is not None and (hf or hm) and any(inline.Inliner(hf, hm, cls=cls)._target(c) is not None for c in calls_in(f)):
                    todo.append(q)
            if todo:
                tree = _copy.deepcopy(mod.tree)
                tmp = Module(mod.rel, mod.src, tree, mod.kind)
                for q in todo:
                    f = tmp.functions[q]
                    cls = q.split('.')[0] if '.' in q else None
                    done = []
                    for _ in range(4):
                        inl = inline.Inliner(hf, hm, cls=cls)
                        a = _inline_tail_calls(f, inl._target, done)
                        b = inl.run(f)
                        done += inl.done
                        if not (a or b):
                            break
                    if done:
                        followed[q] = sorted(set(done))
                if followed:
                    ast.fix_missing_locations(tree)
                    derived = Module(mod.rel, mod.src, tree, mod.kind)
                    ck.notes.setdefault('C05.followed-helpers', {}).update(followed)
                    for q, hs in followed.items():
                        cls = q.split('.')[0] if '.' in q else None
                        for h in hs:
                            for name in ((cls + '.' + h) if cls else h, h):
                                if name in mod.functions:
                                    ck.analysed(mod, name)
                                    break
    except Exception as e:            # following helpers must never break the check: the rules then see the calls as they are
        derived = mod
        ck.notes.setdefault('C05.followed-helpers', {})['error'] = repr(e)
    _DERIVED[id(mod)] = (mod, derived)
    return derived


# ---------------------------------------------------------------------------
# D1

def d1_bounds(ck, mod):
    rule = 'C05.D1.row-bounds'
    F = '_convert_from_2d'
    fn = mod.func(F)
    ck.analysed(mod, fn)
    fi = finfo(mod, fn)
    ps = params(fn)
    if len(ps) < 4:
        ck.missing(rule, '_convert_from_2d(index, lengths, starts, error_check): parameters not recognised (%s)' % ', '.join(ps))
        return
    conv2d_cases(ck, mod)
    L, S, EC = ps[1], ps[2], ps[3]
    d = param_default(fn, EC)
    ck.check(const_value(d) is True, rule + '.default', mod, fn, F, '%s=%s' % (EC, u(d)),
             'bounds checking is on by default', 'error_check must default to True')
    scope = _value_scope(fi, fn)

    # --- the flat index is what is returned: starts[row] + column
    R = Cn = None
    rets = [r for r in returns_of(fn) if r.value is not None]
    for r in rets:
        v = _classify(_expand(fi, r.value), ['(%s[_R] + _C,)' % S, '(_C + %s[_R],)' % S], scope)
        ck.decide(v, rule + '.flat', mod, r, F, _xu(fi, r.value), 'flat index = start of the row + column',
                  'flat index must be starts[row] + column')
        if v[0] == 'match' and isinstance(v[1]['_R'], ast.Name) and isinstance(v[1]['_C'], ast.Name):
            R, Cn = v[1]['_R'].id, v[1]['_C'].id
    ck.floor(rule + '.flat', len(rets), 1, 'return of the flat index')
    if R is None:
        if rets:
            ck.missing(rule + '.test', 'row / column operands of the flat index not recognised')
        return

    # --- the bounds test: raise IndexError under  any(lengths[row] <= column)
    forms = ['(%s[%s] <= %s).any()' % (L, R, Cn), 'not (%s < %s[%s]).all()' % (Cn, L, R), '0 < (%s[%s] <= %s).sum()' % (L, R, Cn),
             '(%s[%s] <= %s).sum() != 0' % (L, R, Cn), '%s.size and (%s[%s] <= %s).any()' % (R, L, R, Cn)]
    guard = None           # (If node holding the test, outermost If, extra atoms)
    cand_near = cand_far = None
    raises = [s for s in walk_local(fn) if _raises(s, 'IndexError')]
    for r in raises:
        conds = _path_conditions(mod, r, fn)
        extra = []
        hit = None
        for a, node in _xatoms(fi, conds):
            if isinstance(a, Cmp) and a.op is ast.IsNot and u(a.lhs) == L and const_value(a.rhs, 1) is None:
                continue
            if not isinstance(a, Cmp) and a[2] is True and u(a[1]) == EC:
                continue
            if not isinstance(a, Cmp) and isinstance(a[1], ast.Constant) and bool(a[1].value) is a[2]:
                continue           # constant-true conjunct
            v = _classify(_expand(fi, _atom_expr(a)), forms, scope)
            if v[0] == 'match' and hit is None:
                hit = node
            else:
                extra.append((a, node, v))
        if hit is not None:
            guard = (hit, conds[0][2], extra, r)
            break
        for a, node, v in extra:
            if v[0] == 'near' and cand_near is None:
                cand_near = (a, node)
            elif v[0] == 'far' and cand_far is None:
                cand_far = (a, node)
    bad_test = ('the row-bounds test must be np.any(lengths[row] <= column) -> IndexError: with < the '
                'index equal to the row length reads the first element of the NEXT row')
    if guard is None:
        if cand_near is not None:
            ck.bad(rule + '.test', mod, cand_near[1], F, u(_atom_expr(cand_near[0])), bad_test)
        elif cand_far is not None:
            ck.missing(rule + '.test', 'condition of the IndexError in _convert_from_2d not recognised: %s' % u(_atom_expr(cand_far[0]))[:120])
        else:
            # the lengths handed to a helper of the module that the front end did not inline: the test may live there
            helpers = [c for c in calls_in(fn) if (call_name(c) or '') in mod.functions and call_name(c) != '_handle_negative_indices'
                       and L in names_loaded(c)]
            if helpers and not raises:
                ck.missing(rule + '.test', 'no IndexError is raised in _convert_from_2d itself; the row lengths are handed to %s, '
                           'which the rule does not follow' % u(helpers[0])[:100])
            else:
                ck.bad(rule + '.test', mod, fn, F, 'lengths[row] <= column', bad_test + ' (no such test guards an IndexError)')
        return
    g, outer, extra, r = guard
    ck.ok(rule + '.test', mod, g, _xu(fi, g.test)[:200], 'an index at or beyond the row length raises IndexError')
    # the test is evaluated on every path to the flat index, with the same row / column values
    # (a rebinding `x = np.asarray(x)` / `x = x.copy()` / `x = x.astype(int)` of the tested value keeps the value)
    same, rebound_opaque = True, False
    for x in rets:
        for nm in (R, Cn):
            dg, dx = fi.rd.defs_at(g, nm), fi.rd.defs_at(x, nm)
            if dg == dx and len(dg) == 1:
                continue
            for site in dx - dg:
                val = fi.def_value(site, nm) if site not in ('PARAM', 'UNBOUND') else None
                inner = _strip_array(canon(val)) if val is not None else None
                if inner is None and val is not None and match('_X.astype(int)', val) is not None:
                    inner = val.func.value
                if len(dg) == 1 and isinstance(inner, ast.Name) and inner.id == nm and fi.rd.defs_at(site, nm) == dg:
                    continue
                same = False
                if val is None or not _pure(val) or not all(y.id in scope | _NEUTRAL for y in ast.walk(val) if isinstance(y, ast.Name)):
                    rebound_opaque = True
            if not (dx - dg) and dg != dx:
                same, rebound_opaque = False, True

    def harmless(a):
        # "there is at least one index": without one the bounds test is vacuous anyway
        t = u(canon(_expand(fi, _atom_expr(a))))
        return any(t == C(f % nm) for nm in (R, Cn) for f in ('%s.size', '0 < %s.size', '%s.size != 0', '0 < len(%s)', 'len(%s) != 0', 'len(%s)',
                                                               '0 < %s.shape[0]', '1 <= %s.size', '1 <= len(%s)'))
    extra = [x for x in extra if x[2][0] != 'match' and not harmless(x[0])]
    def off(a):
        # a condition under which checking is off by contract
        return (isinstance(a, Cmp) and a.op is ast.Is and u(a.lhs) == L and const_value(a.rhs, 1) is None) or \
            (not isinstance(a, Cmp) and a[2] is False and u(a[1]) == EC)

    def only_unchecked(x):
        # the return is reachable only when lengths is None or error_check is off
        for test, pol, _ in _path_conditions(mod, x, fn):
            cs = conjuncts(test, pol)
            if cs is not None:
                if any(off(a) for a in cs):
                    return True
                continue
            ds = conjuncts(test, not pol)       # De Morgan: test|pol is the disjunction of the negated conjuncts
            offs = [off(d.negated() if isinstance(d, Cmp) else (d[0], d[1], not d[2])) for d in ds or []]
            if offs and all(offs):
                return True
            if any(offs):
                return 'weak'      # ... or <something else>: the check is skipped in more cases than the contract allows
        return False
    reach = [True if fi.cfg.dominates(outer, x) else only_unchecked(x) for x in rets]
    dom = all(x is True for x in reach)
    weak = [x for x, k in zip(rets, reach) if k == 'weak']
    if extra and all(x[2][0] == 'far' for x in extra):
        ck.missing(rule + '.dominates', 'additional condition on the row-bounds test of _convert_from_2d not recognised: %s'
                   % u(_atom_expr(extra[0][0]))[:120])
    elif extra:
        x = [x for x in extra if x[2][0] != 'far'][0]
        ck.bad(rule + '.dominates', mod, x[1], F, u(_atom_expr(x[0]))[:200],
               'the bounds test must be guarded only by `lengths is not None and error_check` and precede the flat-index computation')
    elif not same and rebound_opaque:
        ck.missing(rule + '.dominates', 'row / column are rebound between the bounds test and the flat-index computation of _convert_from_2d '
                   'in a way the rule does not see through')
    elif not same:
        ck.bad(rule + '.dominates', mod, g, F, u(g.test)[:200],
               'row / column are rebound between the bounds test and the flat-index computation: the test does not protect the access')
    elif not dom:
        if len(rets) == 1 or weak:
            w = mod.parent.get(weak[0]) if weak else outer
            ck.bad(rule + '.dominates', mod, w, F, u(getattr(w, 'test', outer.test))[:200],
                   'the bounds test must be guarded only by `lengths is not None and error_check` and precede the flat-index computation')
        else:
            ck.missing(rule + '.dominates', 'several returns in _convert_from_2d, the bounds test does not dominate all of them')
    else:
        ck.ok(rule + '.dominates', mod, outer, u(outer.test)[:200],
              'the test runs before the flat index is formed whenever lengths are known and checking is on')
    # negative indices were resolved first: row and column of the test ARE the results of _handle_negative_indices
    neg = [c for c in calls_in(fn) if call_name(c) == '_handle_negative_indices']
    okn = False
    dr, dc = fi.rd.defs_at(g, R), fi.rd.defs_at(g, Cn)
    if len(dr) == 1 and dr == dc:
        site = next(iter(dr))
        if isinstance(site, ast.Assign) and isinstance(site.value, ast.Call) and call_name(site.value) == '_handle_negative_indices' and \
                isinstance(site.targets[0], (ast.Tuple, ast.List)) and [u(e) for e in site.targets[0].elts] == [R, Cn]:
            okn = True
    if not okn:
        okn = len(neg) == 1 and fi.cfg.dominates(fi.stmt(neg[0]), outer)
    if not okn and not neg and any(isinstance(c, ast.Compare) and len(c.ops) == 1 and isinstance(c.ops[0], ast.Lt) and
                                   const_value(c.comparators[0], None) == 0 for c in walk_local(fn)):
        # no call to the helper, but the function itself compares indices with 0: normalisation done in place
        ck.missing(rule + '.negatives-first', 'no call to _handle_negative_indices in _convert_from_2d; the function tests `< 0` itself')
        return
    ck.check(okn, rule + '.negatives-first', mod, neg[0] if neg else fn, F, u(neg[0])[:200] if neg else '?',
             'negative indices are normalised before the bounds test', 'negative indices must be resolved before the row-bounds test')


def d1_call_sites(ck, mod):
    """Every self._data[...] access of the reader and the writer goes through
    the checked conversion; every tuple-index path goes through such an access."""
    rule = 'C05.D1.row-bounds.call-sites'
    conv = mod.func('_convert_from_2d')
    cps = params(conv)
    counts = {}
    for q in (CLS + '.__getitem__', CLS + '.__setitem__'):
        f = mod.func(q)
        ck.analysed(mod, f)
        fi = finfo(mod, f)
        ps = params(f)
        selfn, idxn = ps[0], ps[1]
        DATA, ARR = '%s._data' % selfn, '%s._array' % selfn
        access_stmts = []
        n = 0
        for sub in walk_local(f):
            if not isinstance(sub, ast.Subscript):
                continue
            base = _xu(fi, sub.value)
            if isinstance(sub.value, ast.Name) and base == sub.value.id:
                base = u(canon(fi.resolve(sub.value)))      # alias of the same object (mutation does not matter)
            if base == ARR or base.startswith(ARR + '['):
                access_stmts.append(fi.stmt(sub))
            if base != DATA:
                continue
            n += 1
            access_stmts.append(fi.stmt(sub))
            idx = sub.slice
            v = fi.resolve(idx) if isinstance(idx, ast.Name) else idx
            con = '%s with index %s' % (u(sub)[:60], u(v)[:120])
            if isinstance(v, ast.Name) and fi.defs_of_use(v) != {'PARAM'}:
                ck.missing(rule, 'index of %s in %s has several definitions (%s): cannot be traced to _convert_from_2d' % (u(sub)[:60], q, v.id))
                continue
            if isinstance(v, ast.Subscript) and const_value(v.slice, None) == 0 and not isinstance(const_value(v.slice, None), bool):
                w = fi.resolve(v.value) if isinstance(v.value, ast.Name) else v.value
                if isinstance(w, ast.Call) and call_name(w) == '_convert_from_2d':
                    v = w           # the one entry of the 1-tuple that is returned: the same flat positions
            if not (isinstance(v, ast.Call) and call_name(v) == '_convert_from_2d'):
                unknown = [c for c in ast.walk(v) if isinstance(c, ast.Call) and not (call_name(c) or '').startswith(('np.', 'numpy.'))
                           and (call_name(c) or '') not in _NEUTRAL]
                if unknown:
                    ck.missing(rule, 'index of %s in %s is computed by %s, which the rule does not follow' % (u(sub)[:60], q, u(unknown[0])[:80]))
                else:
                    ck.bad(rule, mod, sub, q, con, 'flat data must be addressed through _convert_from_2d')
                continue
            b = _bind_call(mod, v)
            if b is None:
                ck.missing(rule, 'arguments of %s in %s not recognised' % (u(v)[:80], q))
                continue
            ec = b.get(cps[3])
            if ec is not None:
                ec = _xc(fi, ec)
            ok = cps[0] in b and cps[1] in b and cps[2] in b and _xu(fi, b[cps[1]]) == '%s.lengths' % selfn and \
                _xu(fi, b[cps[2]]) == '%s.starts' % selfn and (ec is None or const_value(ec) is True)
            if not ok:
                # an argument the rule cannot evaluate (not a constant / not an expression over self): undecided
                opaque = [e for e in ([ec] if ec is not None and not isinstance(ec, ast.Constant) else []) +
                          [_xc(fi, b[k]) for k in (cps[1], cps[2]) if k in b]
                          if not _pure(e) or not all(y.id in {selfn} | _NEUTRAL for y in ast.walk(e) if isinstance(y, ast.Name))]
                if opaque:
                    ck.missing(rule, 'argument %s of %s in %s not recognised' % (u(opaque[0])[:60], u(v)[:60], q))
                    continue
            ck.check(ok, rule, mod, sub, q, con, 'row-bounds-checked flat access',
                     '_convert_from_2d must receive lengths=self.lengths, starts=self.starts and keep error_check at '
                     'its default: without the lengths / with error_check=False an index past the end of a row '
                     'silently returns the neighbouring row\'s data')
        counts[q] = n
        # any other element access to the flat data in these functions?
        for a in walk_local(f):
            if isinstance(a, ast.Attribute) and u(a) == DATA and isinstance(a.ctx, ast.Load):
                p = mod.parent.get(a)
                if isinstance(p, ast.Subscript) and p.value is a:
                    continue
                if isinstance(p, ast.Call) and (a in p.args):
                    continue           # handed to a helper (partition_list, ...): not an element access of this function
                if isinstance(p, ast.keyword):
                    continue
                if isinstance(p, ast.Assign) and p.value is a and all(isinstance(t, ast.Name) for t in p.targets):
                    continue           # alias; its subscripts were seen through expansion above
                ck.missing(rule, 'use of the flat data not recognised in %s: %s' % (q, u(p)[:100]))
        # every path through the tuple-index branch reaches a recognised access
        start = None
        for s in walk_local(f):
            if isinstance(s, ast.Assign) and isinstance(s.targets[0], (ast.Tuple, ast.List)) and len(s.targets[0].elts) == 2 and u(s.value) == idxn:
                start = s
                break
        if start is None:
            for s in walk_local(f):
                if isinstance(s, ast.If) and match('isinstance(%s, tuple)' % idxn, s.test) is not None:
                    start = s.body[0]
                    break
        if start is None:
            ck.missing(rule + '.coverage', 'tuple-index branch of %s (unpacking of the index pair) not found' % q)
        else:
            acc = [s for s in access_stmts if s is not None]
            if start in acc or not fi.cfg.reachable(start, EXIT, avoiding=acc):
                ck.ok(rule + '.coverage', mod, start, '%s: %s' % (q, u(start)[:80]),
                      'every path through the tuple-index branch goes through a checked flat access or a numpy row access')
            else:
                ck.missing(rule + '.coverage', 'a path through the tuple-index branch of %s reaches the exit without a recognised '
                           'access to self._data[...] / self._array[...]' % q)
    ck.floor(rule, sum(counts.values()), 2, 'self._data[...] accesses')
    for q, n in counts.items():
        if n == 0:
            ck.missing(rule, 'no self._data[...] access found in %s' % q)


def d1_negatives(ck, mod):
    """_handle_negative_indices: offsets by the right length, re-test after the offset."""
    rule = 'C05.D1.row-bounds.negative-recheck'
    F = '_handle_negative_indices'
    fh = mod.func(F)
    ck.analysed(mod, fh)
    fi = finfo(mod, fh)
    ps = params(fh)
    if len(ps) < 4:
        ck.missing(rule, '_handle_negative_indices(rows, columns, lengths, starts): parameters not recognised')
        return
    R, Cn, L, S = ps[:4]
    neg_cases(ck, mod)
    scope = _value_scope(fi, fh)
    guards = [x for x in walk_local(fh) if isinstance(x, ast.If) and any(_raises(y, 'IndexError') for y in x.body)]

    def disjuncts(t):
        # `if A or B: raise`: each of A, B alone raises
        if isinstance(t, ast.BoolOp) and isinstance(t.op, ast.Or):
            return [d for x in t.values for d in disjuncts(x)]
        return [t]

    def other_updates(dim):
        # ('op', stmt): an augmented store with another operator (x[neg] %= n); ('opaque', stmt): a store / rebinding the rule
        # does not read as an offset (x = np.where(x < 0, x + n, x)); coercions (np.array(x), x.reshape(-1)) do not count
        out = []
        incs = {id(s_) for s_, _, _ in _increments(fh, dim)}
        for s_ in walk_local(fh):
            if id(s_) in incs:
                continue
            if isinstance(s_, ast.AugAssign):
                b_ = s_.target.value if isinstance(s_.target, ast.Subscript) else s_.target
                if isinstance(b_, ast.Name) and b_.id == dim:
                    out.append(('op', s_))
            elif isinstance(s_, ast.Assign):
                for t_ in s_.targets:
                    b_ = t_.value if isinstance(t_, ast.Subscript) else t_
                    if not (isinstance(b_, ast.Name) and b_.id == dim):
                        continue
                    if isinstance(t_, ast.Name) and (_strip_array(canon(s_.value)) is not None or
                                                     match('%s.reshape(__)' % dim, s_.value) is not None or
                                                     match('np.atleast_1d(%s)' % dim, s_.value) is not None):
                        continue
                    out.append(('opaque', s_))
        return out

    for dim in (R, Cn):
        forms = ['0 < (%s < 0).sum()' % dim, '(%s < 0).any()' % dim, '%s.min() < 0' % dim, '(%s < 0).sum() != 0' % dim, '1 <= (%s < 0).sum()' % dim,
                 '0 < np.count_nonzero(%s < 0)' % dim, 'np.count_nonzero(%s < 0) != 0' % dim, 'np.count_nonzero(%s < 0)' % dim, '(%s < 0).sum()' % dim]
        incs = _increments(fh, dim)
        hit = near = far = None
        for gd in guards:
            for dj in disjuncts(gd.test):
                x = _expand(fi, dj)
                v = _classify(x, forms, scope)
                if v[0] == 'match':
                    hit = gd
                    break
                if dim in names_loaded(dj) or dim in names_loaded(x):
                    if v[0] == 'near' and near is None:
                        near = gd
                    elif v[0] == 'far' and far is None:
                        far = gd
            if hit is not None:
                break
        why = 'after adding the length, a still-negative %s must raise IndexError (otherwise it wraps into the previous row)' % dim
        if hit is None:
            helpers = [c for c in calls_in(fh) if (call_name(c) or '') in mod.functions and dim in names_loaded(c)]
            if near is not None:
                ck.bad(rule, mod, near, F, u(near.test), why)
            elif far is not None:
                ck.missing(rule, 'condition of the IndexError for `%s` in %s not recognised: %s' % (dim, F, u(far.test)[:120]))
            elif helpers:
                ck.missing(rule, '`%s` is handed to %s in %s, which the rule does not follow' % (dim, u(helpers[0])[:80], F))
            else:
                ck.bad(rule, mod, fh, F, dim, why)
            continue
        late = [s for s, _, _ in incs if not fi.cfg.reachable(s, hit)]
        others = other_updates(dim)
        if not incs and others and all(k == 'opaque' for k, _ in others):
            ck.missing(rule, 'update of the negative `%s` in %s not recognised as an offset: %s' % (dim, F, u(others[0][1])[:120]))
            continue
        ck.check(not late and bool(incs), rule, mod, hit, F, u(hit.test),
                 'an index still negative after adding the length raises IndexError',
                 why + ' (the re-test must come after the offset)')
    # what is added
    for s, t, add in _increments(fh, Cn):
        if isinstance(t, ast.Subscript):
            I = _xu(fi, t.slice, strict=False)
            forms = ['%s[%s[_I]]' % (L, R), '%s[%s]' % (L, R)]
        else:
            I = None
            forms = ['%s[%s]' % (L, R)]
        # the addend may be a temporary bound in several branches (`n = lengths[rows[neg]]` / `n = lengths[rows]`):
        # every value it can hold must be an accepted offset
        v = None
        for alt in _alternatives(fi, add, strict=False):
            va = _classify(alt, forms, scope)
            if va[0] == 'match' and '_I' in va[1] and u(canon(va[1]['_I'])) != I:
                va = ('near', 1, forms[0])
            if v is None or _RANK[va[0]] > _RANK[v[0]]:          # one wrong value on one branch is a wrong offset
                v = va
        ck.decide(v, rule, mod, s, F, u(s)[:200], 'negative column indices are offset by the length of THEIR row',
                  'negative columns must be offset by lengths[row] of the same positions')
    incs = _increments(fh, R)
    for s, t, add in incs:
        v = None
        for alt in _alternatives(fi, add, strict=False):
            va = _classify(alt, ['len(%s)' % S, '%s.shape[0]' % S, '%s.size' % S, 'len(%s)' % L, '%s.shape[0]' % L, '%s.size' % L], scope)
            if v is None or _RANK[va[0]] > _RANK[v[0]]:          # one wrong value on one branch is a wrong offset
                v = va
        ck.decide(v, rule + '.rows', mod, s, F, u(s)[:200], 'negative row indices are offset by the number of rows',
                  'negative rows must be offset by the number of rows (len(starts))')
    ck.floor(rule, len(_increments(fh, Cn)), 1, 'offsets of negative column indices')


# ---------------------------------------------------------------------------
# D1: arrays that are updated in place have one memory cell per element

# constructors whose result may hold SEVERAL elements in ONE memory cell (zero / overlapping strides)
_OVERLAP_MAKERS = {'broadcast_to', 'broadcast_arrays', 'as_strided', 'sliding_window_view'}
# steps that hand out the very same cells (never a copy)
_SAME_CELLS_FUNCS = {'np.asarray', 'np.asanyarray', 'np.atleast_1d', 'np.atleast_2d', 'np.atleast_3d', 'np.squeeze', 'np.expand_dims',
                     'np.transpose', 'np.swapaxes', 'np.moveaxis'}
_SAME_CELLS_METHODS = {'view', 'transpose', 'swapaxes', 'squeeze'}
# steps that return a view when the strides allow it and a copy otherwise
_MAYBE_CELLS_FUNCS = {'np.ravel', 'np.reshape', 'np.ascontiguousarray', 'np.asfortranarray', 'np.require'}
_MAYBE_CELLS_METHODS = {'reshape', 'ravel'}


def _is_overlap_maker(call):
    cn = call_name(call) or ''
    if cn.split('.')[-1] in _OVERLAP_MAKERS and (cn.startswith(('np.', 'numpy.')) or '.' not in cn):
        return True
    if cn in ('np.meshgrid', 'numpy.meshgrid'):
        return any(k.arg == 'copy' and const_value(k.value, None) is False for k in call.keywords)
    return False


class _Cells:
    """Where the storage of an array expression comes from, followed backwards
    through ALL reaching definitions (may-analysis over the def-use graph),
    through steps that keep the cells (np.asarray, .T, basic slices, in-place
    `x += v`, np.array(x, copy=False)) and through module-level helpers (their
    return values, parameters bound to the arguments of the call).
    Result: {tag: witness node}, tags
        'overlap'  the value may be a broadcast / strided view (several
                   elements share one cell) reaching the use through
                   cell-preserving steps only;
        'maybe'    the same behind a reshape / ravel (view or copy, decided
                   at run time by the strides);
        'unknown'  produced by a call the rule cannot follow.
    No tag: parameters (the caller's own arrays), fresh results (np.array,
    arithmetic, fancy indexing, comprehensions, any other numpy call)."""

    def __init__(self, mod):
        self.mod = mod

    def of_name(self, fi, name, stmt, env, depth, seen):
        out = {}
        try:
            defs = fi.rd.defs_at(stmt, name)
        except Exception:
            return {'unknown': stmt}
        for site in defs:
            key = (id(site) if not isinstance(site, str) else site, name, id(fi))
            if key in seen:
                continue
            seen = seen | {key}
            if site == 'PARAM':
                if env is not None and name in env:
                    cfi, arg, cstmt, cenv = env[name]
                    out.update(self.of_expr(cfi, arg, cstmt, cenv, depth - 1, seen))
                continue
            if isinstance(site, str):
                continue
            if isinstance(site, ast.AugAssign):
                if isinstance(site.target, ast.Name) and site.target.id == name:
                    out.update(self.of_name(fi, name, site, env, depth, seen))      # x op= v keeps the cells of an ndarray
                continue
            if not isinstance(site, (ast.Assign, ast.AnnAssign)):
                continue             # loop targets, with-items, imports: elements / other objects
            v = fi.def_value(site, name)
            if v is not None:
                out.update(self.of_expr(fi, v, site, env, depth, seen))
                continue
            if isinstance(site, ast.Assign) and isinstance(site.value, ast.Call):
                pos = None
                for t in site.targets:
                    if isinstance(t, (ast.Tuple, ast.List)):
                        ps_ = [i for i, e in enumerate(t.elts) if isinstance(e, ast.Name) and e.id == name]
                        if len(ps_) == 1 and not any(isinstance(e, ast.Starred) for e in t.elts):
                            pos = ps_[0]
                out.update(self.of_expr(fi, site.value, site, env, depth, seen, pos=pos))
        return out

    def _not_stretched(self, fi, call, stmt, pos):
        """Result `pos` of np.broadcast_arrays(a0, a1, ...) has the shape of its own operand when every
        OTHER operand holds one element: the statement sits under `aj.size == 1` for each j != pos."""
        if call.keywords or any(isinstance(a, ast.Starred) for a in call.args) or pos >= len(call.args):
            return False
        ones = set()
        for test, pol, node in _path_conditions(self.mod, stmt, fi.fn):
            for a in conjuncts(test, pol) or []:
                if not (isinstance(a, Cmp) and a.op is ast.Eq):
                    continue
                for x, k in ((a.lhs, a.rhs), (a.rhs, a.lhs)):
                    if const_value(k, None) == 1 and isinstance(x, ast.Attribute) and x.attr == 'size' and isinstance(x.value, ast.Name) \
                            and fi.rd.defs_at(node, x.value.id) == fi.rd.defs_at(stmt, x.value.id):
                        ones.add(x.value.id)
        return all(isinstance(a, ast.Name) and a.id in ones for j, a in enumerate(call.args) if j != pos)

    def of_expr(self, fi, e, stmt, env, depth, seen, pos=None):
        if depth <= 0:
            return {'unknown': e}
        rec = lambda x, pos=None: self.of_expr(fi, x, stmt, env, depth, seen, pos=pos)
        if isinstance(e, ast.Name):
            return self.of_name(fi, e.id, stmt, env, depth, seen)
        if isinstance(e, ast.IfExp):
            out = rec(e.body, pos)
            out.update(rec(e.orelse, pos))
            return out
        if isinstance(e, (ast.Tuple, ast.List)) and pos is not None and pos < len(e.elts) and \
                not any(isinstance(x, ast.Starred) for x in e.elts):
            return rec(e.elts[pos])
        if isinstance(e, ast.Subscript):
            k = const_value(e.slice, None)
            if isinstance(e.value, ast.Call) and isinstance(k, int) and not isinstance(k, bool):
                return rec(e.value, k)                  # f(...)[k]: the k-th result
            sl = e.slice
            basic = isinstance(sl, ast.Slice) or (isinstance(sl, ast.Tuple) and sl.elts and all(
                isinstance(x, ast.Slice) or const_value(x, 0) is None or u(x) == 'Ellipsis' for x in sl.elts)) or u(sl) == 'Ellipsis'
            return rec(e.value) if basic else {}
        if isinstance(e, ast.Attribute):
            return rec(e.value) if e.attr == 'T' else {}
        if not isinstance(e, ast.Call):
            return {}
        cn = call_name(e) or ''
        if _is_overlap_maker(e):
            if cn.split('.')[-1] == 'broadcast_arrays' and pos is not None and self._not_stretched(fi, e, stmt, pos):
                return rec(e.args[pos])                 # broadcast against one-element operands only: its own cells
            return {'overlap': e}
        if getattr(e, '_from_np_array', False):
            return {}                                   # np.array(name): a copy
        if cn in ('np.array', 'numpy.array'):
            cp = [k for k in e.keywords if k.arg == 'copy']
            if cp and const_value(cp[0].value, None) is False and e.args:
                return rec(e.args[0])
            return {}
        if cn in _SAME_CELLS_FUNCS and e.args:
            return rec(e.args[0])
        if cn in _MAYBE_CELLS_FUNCS and e.args:
            inner = rec(e.args[0])
            return {('maybe' if t == 'overlap' else t): w for t, w in inner.items()}
        f = self.mod.functions.get(cn)
        if f is not None and isinstance(e.func, ast.Name):
            b = _bind_call(self.mod, e)
            if b is None:
                return {'unknown': e}
            ffi = finfo(self.mod, f)
            fenv = {p: (fi, a, stmt, env) for p, a in b.items()}
            out = {}
            for r in returns_of(f):
                if r.value is not None:
                    out.update(self.of_expr(ffi, r.value, r, fenv, depth - 1, seen, pos=pos))
            return out
        if isinstance(e.func, ast.Attribute) and not cn.startswith(('np.', 'numpy.', 'math.', 'itertools.')):
            if e.func.attr in _SAME_CELLS_METHODS:
                return rec(e.func.value)
            if e.func.attr in _MAYBE_CELLS_METHODS:
                inner = rec(e.func.value)
                return {('maybe' if t == 'overlap' else t): w for t, w in inner.items()}
            if isinstance(e.func.value, ast.Name) and e.func.value.id in ('self', 'cls'):
                return {'unknown': e}
            return {}                                   # .copy() / .astype() / reductions ...: fresh results
        if isinstance(e.func, ast.Name) and e.func.id not in PURE_FUNCS and e.func.id not in _NEUTRAL:
            return {'unknown': e}
        return {}


def d1_inplace_cells(ck, mod):
    """The index conversion normalises negative indices IN PLACE, element by
    element (`cols[neg] += lengths[rows[neg]]`): that is only the per-row
    offset when every element of the updated array has its own memory cell.
    A broadcast result (np.broadcast_to / np.broadcast_arrays / as_strided)
    keeps all stretched entries in ONE cell (stride 0): every store lands in
    it and all rows end up with the offset of the last one.  Every array
    that the read path updates in place - by a store of its own or by handing
    it to a helper that the effects summary says writes its parameter - is
    traced back to where its cells come from."""
    rule = 'C05.D1.row-bounds.inplace-cells'
    _, ea = shared(ck.repo)
    cells = _Cells(mod)
    why = ('an array that is updated in place element by element must have one memory cell per element: the entries of a '
           'broadcast / strided view share cells (np.broadcast_arrays / np.broadcast_to stretch with stride 0), so the per-row '
           'offset of a negative index written for one row overwrites the value of every other row - all rows are read at the '
           'column computed for the last row and an index outside one of the rows no longer raises; spread the value with a '
           'copy (np.array([...]), np.repeat, np.full, .copy())')
    n_args = 0
    for q in ('_convert_from_2d', '_handle_negative_indices', '_convert_from_1d', '_get_iis_from_slices', '_get_iis_from_list',
              'where', CLS + '.__getitem__'):
        fn = mod.functions.get(q)
        if fn is None:
            continue
        fi = finfo(mod, fn)
        sites = []          # (statement, name, node to report, what)
        seen_s = set()
        for st in walk_local(fn):
            # element stores `x[i] = v`, `x[i] op= v` and whole-array updates `x op= v` (in place for an ndarray)
            tgts = st.targets if isinstance(st, ast.Assign) else ([st.target] if isinstance(st, ast.AugAssign) else [])
            for t in tgts:
                for t_ in (t.elts if isinstance(t, (ast.Tuple, ast.List)) else [t]):
                    b_ = t_
                    while isinstance(b_, ast.Subscript):
                        b_ = b_.value
                    if not isinstance(b_, ast.Name) or (b_ is t_ and not isinstance(st, ast.AugAssign)):
                        continue
                    if (id(st), b_.id) not in seen_s:
                        seen_s.add((id(st), b_.id))
                        sites.append((st, b_.id, st, ('in-place update of `%s`' if b_ is t_ else 'element store into `%s`') % b_.id))
        for c in calls_in(fn):
            cn = call_name(c) or ''
            if cn not in mod.functions or not isinstance(c.func, ast.Name):
                continue
            muts = ea.mutated_params(mod.rel, cn)
            b = _bind_call(mod, c) if muts else None
            if not muts:
                continue
            if b is None:
                ck.missing(rule, 'arguments of %s in %s not recognised (the callee writes %s in place)' % (u(c)[:80], q, ', '.join(sorted(muts))))
                continue
            for p_ in sorted(muts):
                a = b.get(p_)
                if a is None:
                    continue
                if q == '_convert_from_2d':
                    n_args += 1
                sites.append((fi.stmt(c), a, c, 'argument `%s` of %s, which %s updates in place' % (u(a)[:40], cn, cn)))
        for st, what, node, desc in sites:
            if st is None:
                continue
            if isinstance(what, str):
                tags = cells.of_name(fi, what, st, None, 6, frozenset())
            else:
                tags = cells.of_expr(fi, what, st, None, 6, frozenset())
            con = '%s: %s' % (q, desc)
            if 'overlap' in tags:
                w = tags['overlap']
                ck.bad(rule, mod, node, q, '%s <- %s' % (desc, u(w)[:100]), why,
                       'cells come from %s (line %s)' % (u(w)[:100], getattr(w, 'lineno', '?')))
            elif 'maybe' in tags or 'unknown' in tags:
                w = tags.get('maybe', tags.get('unknown'))
                ck.missing(rule, '%s: cannot tell whether the cells are distinct (%s)' % (con, u(w)[:100]))
            else:
                ck.ok(rule, mod, node, con, 'the updated array is a parameter or a fresh array (one cell per element)')
    ck.floor(rule, n_args, 2, 'index arrays handed by _convert_from_2d to the in-place normalisation of negative indices')


# ---------------------------------------------------------------------------
# D2

def _is_none_test(c, var):
    return isinstance(c, Cmp) and c.op is ast.Is and \
        ((u(c.lhs) == var and const_value(c.rhs, 1) is None) or (u(c.rhs) == var and const_value(c.lhs, 1) is None))


def _is_negative_test(c, var):
    if not isinstance(c, Cmp):
        return False
    less = c.as_less()
    if less is None or u(less[0]) != var:
        return False
    k = const_value(less[2])
    return (k == 0 and less[1]) or (k == -1 and not less[1])


def _indices_delegation(mod, fn, fi, slice_param):
    """Uses of the slice protocol: calls `<slice parameter>.indices(<length>)`
    whose (start, stop, step) result is handed whole to range()/np.arange()
    (`range(*sl.indices(n))`, or `a, b, c = sl.indices(n)` followed by
    range(a, b, c)).  -> [(call, length argument, consumer call or None)]"""
    out = []
    for c in calls_in(fn):
        if not (isinstance(c.func, ast.Attribute) and c.func.attr == 'indices' and len(c.args) == 1 and not c.keywords):
            continue
        recv = c.func.value
        if not (isinstance(recv, ast.Name) and recv.id == slice_param):
            continue
        try:
            if fi.defs_of_use(recv) != {'PARAM'}:
                continue
        except Exception:
            continue
        consumer = None
        par = mod.parent.get(c)
        if isinstance(par, ast.Starred):
            gp = mod.parent.get(par)
            if isinstance(gp, ast.Call) and call_name(gp) in ('range', 'np.arange') and len(gp.args) == 1 and gp.args[0] is par and not gp.keywords:
                consumer = gp
        elif isinstance(par, ast.Assign) and par.value is c and len(par.targets) == 1 and isinstance(par.targets[0], (ast.Tuple, ast.List)) \
                and len(par.targets[0].elts) == 3 and all(isinstance(e, ast.Name) for e in par.targets[0].elts):
            names = [e.id for e in par.targets[0].elts]
            for g in calls_in(fn):
                if call_name(g) in ('range', 'np.arange') and len(g.args) == 3 and not g.keywords and \
                        [a.id if isinstance(a, ast.Name) else None for a in g.args] == names and \
                        all(fi.defs_of_use(a) == {par} for a in g.args):
                    consumer = g
                elif call_name(g) in ('range', 'np.arange') and len(g.args) == 3 and not g.keywords and consumer is None and \
                        sorted(a.id if isinstance(a, ast.Name) else '' for a in g.args) == sorted(names) and len(set(names)) == 3 and \
                        all(fi.defs_of_use(a) == {par} for a in g.args):
                    consumer = ('permuted', g)
        out.append((c, c.args[0], consumer))
    return out


def _reads_slice_fields(fn, slice_param):
    return [a for a in walk_local(fn) if isinstance(a, ast.Attribute) and a.attr in ('start', 'stop', 'step') and
            isinstance(a.value, ast.Name) and a.value.id == slice_param]


def d2_slices(ck, mod):
    rule = 'C05.D2.slice-bounds'
    bind_cases(ck, mod, rule + '.call-binding', '_slice_to_list', _READERS, '__getitem__ / __setitem__')
    for q in ('_slice_to_list', '_get_iis_from_slices'):
        fn = mod.func(q)
        ck.analysed(mod, fn)
        fi = finfo(mod, fn)
        ps = params(fn)
        # --- the slice protocol: slice.indices(length) returns start/stop/step with None, negative
        # values and out-of-range bounds resolved against `length` exactly as python does for a list
        sp = (ps[0] if q == '_slice_to_list' else (ps[1] if len(ps) > 1 else None))
        dele = _indices_delegation(mod, fn, fi, sp) if sp else []
        if dele and not _reads_slice_fields(fn, sp):
            okd = True
            for c, ln, consumer in dele:
                if isinstance(consumer, tuple):
                    ck.bad(rule + '.order', mod, consumer[1], q, 'order of the (start, stop, step) triple of %s in %s' % (u(c)[:60], u(consumer[1])[:60]),
                           'slice.indices() returns (start, stop, step) in this order; handed to range()/np.arange() in another order the '
                           'slice selects other elements than the same slice of a list')
                    okd = False
                    continue
                if consumer is None:
                    ck.missing(rule, '%s: result of %s is not handed whole to range()/np.arange()' % (q, u(c)[:80]))
                    okd = False
                    continue
                if q == '_slice_to_list':
                    L = ps[1] if len(ps) > 1 else None
                    good = isinstance(ln, ast.Name) and ln.id == L and fi.defs_of_use(ln) == {'PARAM'}
                    scope = set(ps)
                else:
                    L = ps[2] if len(ps) > 2 else None
                    x = _xc(fi, ln)
                    good = isinstance(x, ast.Subscript) and isinstance(x.value, ast.Name) and x.value.id == L and \
                        not isinstance(x.slice, (ast.Slice, ast.Tuple))
                    scope = _local_names(fn)
                if good:
                    continue
                okd = False
                closed = _pure(ln) and all(n.id in scope | _NEUTRAL for n in ast.walk(ln) if isinstance(n, ast.Name))
                if closed:
                    ck.bad(rule + '.length', mod, c, q, 'length handed to slice.indices: %s' % _xu(fi, ln)[:100],
                           'the slice must be resolved against %s: with another length open, negative and out-of-range '
                           'bounds select other elements than the list-of-rows model'
                           % ('the number of rows (the `length` parameter)' if q == '_slice_to_list' else 'the length of the row it is applied to (lengths[row])'))
                else:
                    ck.missing(rule + '.length', '%s: length argument of %s not recognised' % (q, u(c)[:100]))
            if okd:
                how = 'resolved by the slice protocol (%s)' % u(dele[0][0])[:80]
                for part in ('start', 'stop'):
                    ck.ok(rule + '.none', mod, dele[0][0], '%s: omitted %s' % (q, part), how)
                    ck.ok(rule + '.negative', mod, dele[0][0], '%s: negative %s' % (q, part), how)
                ck.ok(rule + '.negative-step', mod, dele[0][0], '%s: negative step' % q, how)
                ck.ok(rule + '.clip', mod, dele[0][0], '%s: bounds beyond the length' % q, how)
            continue
        # variables holding the bounds
        bound = {}
        for s in walk_local(fn):
            if isinstance(s, ast.Assign) and isinstance(s.value, ast.Attribute) and s.value.attr in ('start', 'stop', 'step') \
                    and isinstance(s.targets[0], ast.Name):
                bound[s.value.attr] = s.targets[0].id
        for part in ('start', 'stop'):
            var = bound.get(part)
            if var is None:
                ck.missing(rule, '%s: variable holding slice.%s' % (q, part))
                continue
            none_case = neg_case = False
            for n in walk_local(fn):
                if isinstance(n, (ast.If, ast.IfExp)):
                    for pol in (True, False):
                        for c in conjuncts(n.test, pol) or []:
                            if _is_none_test(c, var):
                                none_case = True
                            if pol and _is_negative_test(c, var):
                                neg_case = True
            ck.check(none_case, rule + '.none', mod, fn, q, '%s is None' % var, 'omitted %s handled' % part,
                     '%s does not treat an omitted %s' % (q, part))
            ck.check(neg_case, rule + '.negative', mod, fn, q, 'negative %s of the slice (variable `%s`)' % (part, var),
                     'negative %s normalised against the row/array length' % part,
                     '%s normalises one bound but not the other: a negative `%s` is passed unchanged to '
                     'arange/range, so e.g. [:, -2:] produces indices -2, -1, 0, 1, ... (wrapped duplicates) '
                     'instead of the last two elements' % (q, part))
        # negative steps: handled (reachable branch) or rejected
        var = bound.get('step')
        if var is None:
            ck.missing(rule, '%s: variable holding slice.step' % q)
            continue
        IN, OUT = nullness.run(fi, {})
        handled = False
        dead = None
        for n in fi.cfg.nodes:
            if isinstance(n, Assume) and n.polarity is True:
                cs = conjuncts(n.test, True) or []
                if any(_is_negative_test(c, var) for c in cs):
                    if OUT.get(n) is None:
                        dead = n
                    else:
                        handled = True
        rejects = any(isinstance(n, ast.If) and var in names_loaded(n.test) and any(isinstance(x, ast.Raise) for x in n.body) for n in walk_local(fn))
        if dead is not None and not handled:
            ck.bad(rule + '.negative-step', mod, dead.owner, q, 'branch `%s`' % u(dead.test),
                   'the only branch that treats a negative step is unreachable: it additionally requires start/stop to be '
                   'None, but both were replaced by numbers on every path before the test (nullness dataflow), so a '
                   'negative step is handed to range() with ascending bounds and yields an empty/incorrect selection')
        else:
            ck.check(handled or rejects, rule + '.negative-step', mod, fn, q, 'negative step of the slice (variable `%s`)' % var,
                     'negative steps are handled or rejected',
                     '%s neither handles nor rejects a negative step: it is passed to arange/range with ascending bounds' % q)
        # --- bounds beyond the length (row slices; the per-row stops of _get_iis_from_slices are the subject of D4.clip):
        # a python list clips a[:10] / a[-10:] to the rows that exist.  Hand-written normalisation needs (a) an upper limit
        # of the stop against the length and (b) a lower limit of the start AFTER the length was added to a negative start.
        if q == '_slice_to_list' and len(ps) > 1:
            L = ps[1]
            sv, ev = bound.get('start'), bound.get('stop')
            if ev is not None:
                lim = False
                for n in walk_local(fn):
                    if isinstance(n, (ast.If, ast.IfExp)):
                        for pol in (True, False):
                            for c in conjuncts(n.test, pol) or []:
                                if isinstance(c, Cmp) and {u(c.lhs), u(c.rhs)} == {ev, L} and c.op in (ast.Lt, ast.LtE, ast.Gt, ast.GtE):
                                    lim = True
                    if isinstance(n, ast.Call) and (call_name(n) or '') in ('min', 'np.minimum', 'np.clip', 'max', 'np.maximum') and \
                            {ev, L} <= {x.id for a in n.args for x in ast.walk(a) if isinstance(x, ast.Name)}:
                        lim = True
                ck.check(lim, rule + '.clip', mod, fn, q, 'stop of the row slice beyond the number of rows (variable `%s`)' % ev,
                         'a stop beyond the length is limited to the length',
                         '%s hands a stop larger than the length unchanged to range(): a[:10, ...] on a 3-row array enumerates row '
                         'numbers 3..9 (IndexError) where a list of rows clips the slice to the rows that exist' % q)
            if sv is not None:
                offs = [s_ for s_, t_, add in _increments(fn, sv) if L in names_loaded(add)]
                if offs:
                    relim = False
                    for n in fi.cfg.nodes:
                        if isinstance(n, Assume) and any(_is_negative_test(c, sv) for pol in (True, False) for c in (conjuncts(n.test, pol) or [])) \
                                and any(fi.cfg.reachable(o, n) for o in offs):
                            relim = True
                    for n in walk_local(fn):
                        if isinstance(n, ast.Call) and (call_name(n) or '') in ('max', 'np.maximum', 'np.clip') and \
                                sv in {x.id for a in n.args for x in ast.walk(a) if isinstance(x, ast.Name)} and \
                                any(fi.cfg.reachable(o, fi.stmt(n)) for o in offs if fi.stmt(n) is not None):
                            relim = True
                    ck.check(relim, rule + '.clip', mod, offs[0], q, 'start of the row slice still negative after the length was added (variable `%s`)' % sv,
                             'a start below -length is limited to 0',
                             '%s adds the length to a negative start and never looks at the result again: for a[-10:, ...] on a 3-row '
                             'array range() starts at -7 and the negative row numbers wrap around a second time (duplicated / wrong rows) '
                             'where a list of rows clips the slice' % q)


# ---------------------------------------------------------------------------
# D3: abstract interpretation of the index dispatch

_NDARRAY_MAKERS = {'np.array', 'np.asarray', 'np.append', 'np.concatenate', 'np.zeros', 'np.ones', 'np.empty', 'np.full',
                   'np.arange', 'np.cumsum', 'np.diff', 'np.repeat', 'np.hstack', 'np.fromiter', 'np.ascontiguousarray'}


def _ndarray_attrs(mod, cls):
    """Names A such that EVERY binding of <self>.A in a method of the class is
    the result of an ndarray constructor (so len(self.A) == self.A.shape[0]
    wherever both are defined).  Bindings from outside the class are not seen:
    they are the subject of the write-side property."""
    good, poisoned = set(), set()
    for q, f in mod.functions.items():
        if not q.startswith(cls + '.') or '.<locals>.' in q:
            continue
        ps = params(f)
        if not ps:
            continue
        sn = ps[0]
        for s in walk_local(f):
            if isinstance(s, ast.Assign):
                tgts, val = s.targets, s.value
            elif isinstance(s, (ast.AugAssign, ast.AnnAssign)):
                tgts, val = [s.target], None if isinstance(s, ast.AugAssign) else s.value
            elif isinstance(s, (ast.For, ast.AsyncFor)):
                tgts, val = [s.target], None
            elif isinstance(s, (ast.With, ast.AsyncWith)):
                tgts, val = [i.optional_vars for i in s.items if i.optional_vars is not None], None
            elif isinstance(s, ast.Delete):
                tgts, val = s.targets, None
            else:
                continue
            for t in tgts:
                for x in ast.walk(t):
                    if isinstance(x, ast.Attribute) and isinstance(x.value, ast.Name) and x.value.id == sn and not isinstance(x.ctx, ast.Load):
                        if x is t and val is not None and isinstance(val, ast.Call) and \
                                (call_name(val) in _NDARRAY_MAKERS or getattr(val, '_from_np_array', False)):
                            good.add(x.attr)
                        else:
                            poisoned.add(x.attr)
        for c in calls_in(f):
            if call_name(c) == 'setattr' and c.args and isinstance(c.args[0], ast.Name) and c.args[0].id == sn:
                k = const_value(c.args[1]) if len(c.args) > 1 else None
                if isinstance(k, str):
                    poisoned.add(k)
                else:
                    return set()
    return good - poisoned


class _Sub(ast.NodeTransformer):
    """Substitute the symbolic environment into an expression; calls to
    functions of the module are put in keyword form (sorted), INDEX[0] /
    INDEX[1] are the two components of a tuple index; X.shape[0] is spelled
    len(X) for the expressions X in `nd` (known ndarrays)."""

    def __init__(self, env, mod, nd=()):
        self.env, self.mod, self.nd = env, mod, nd

    def visit_Name(self, n):
        if isinstance(n.ctx, ast.Load) and n.id in self.env:
            return _copy.deepcopy(self.env[n.id])
        return n

    def visit_Subscript(self, n):
        self.generic_visit(n)
        if isinstance(n.value, ast.Name) and n.value.id == 'INDEX' and const_value(n.slice) in (0, 1) and \
                not isinstance(const_value(n.slice), bool):
            return ast.Name(id='FIRST' if const_value(n.slice) == 0 else 'SECOND', ctx=ast.Load())
        if isinstance(n.value, ast.Attribute) and n.value.attr == '_data' and isinstance(n.slice, ast.Subscript) and \
                const_value(n.slice.slice, None) == 0 and not isinstance(const_value(n.slice.slice, None), bool) and \
                isinstance(n.slice.value, ast.Call) and call_name(n.slice.value) == '_convert_from_2d':
            # the conversion returns a 1-tuple (C05.D1.row-bounds.flat): data[(x,)] and data[x] are the same access
            n.slice = n.slice.value
            return n
        if self.nd and isinstance(n.value, ast.Attribute) and n.value.attr == 'shape' and const_value(n.slice) == 0 and \
                not isinstance(const_value(n.slice), bool) and isinstance(n.ctx, ast.Load) and u(n.value.value) in self.nd:
            return ast.Call(func=ast.Name(id='len', ctx=ast.Load()), args=[n.value.value], keywords=[])
        return n

    def visit_Call(self, n):
        self.generic_visit(n)
        f = self.mod.functions.get(call_name(n) or '')
        if f is not None and not any(isinstance(a, ast.Starred) for a in n.args) and all(k.arg for k in n.keywords):
            ps = params(f)
            if len(n.args) <= len(ps):
                kws = [ast.keyword(arg=ps[i], value=a) for i, a in enumerate(n.args)] + list(n.keywords)
                # an argument that spells out the parameter's constant default is the call without it
                kws = [k for k in kws if not (isinstance(k.value, ast.Constant) and isinstance(param_default(f, k.arg), ast.Constant) and
                                              type(k.value.value) is type(param_default(f, k.arg).value) and
                                              k.value.value == param_default(f, k.arg).value)]
                n.args = []
                n.keywords = sorted(kws, key=lambda k: k.arg)
        return n


def _sub(expr, env, mod, nd=()):
    e = _Sub(env, mod, nd).visit(_copy.deepcopy(expr))
    ast.fix_missing_locations(e)
    return canon(e)


_TYPE_TABLE = {
    # abstract value -> {type name: is instance}; unknown names -> None
    'int': {'Integral': True},
    'slice': {'slice': True},
    'list': {'list': True},
    'ndarray': {'ndarray': True},
    'tuple': {'tuple': True},
    'ragged': {'RaggedArray': True},
    'other': {'list': None, 'ndarray': None},
}
_KNOWN_TYPES = {'Integral', 'slice', 'list', 'ndarray', 'tuple', 'RaggedArray'}
_UNSURE_FOR_INT = {'int', 'integer', 'Number', 'Real', 'Rational', 'Complex', 'int64', 'int32'}


def _isa(kind, tname):
    if kind is None:
        return None
    t = _TYPE_TABLE.get(kind, {})
    if tname in t:
        return t[tname]
    if kind == 'int' and tname in _UNSURE_FOR_INT:
        return None
    if tname in _KNOWN_TYPES or tname in _UNSURE_FOR_INT:
        return False
    return None


def _kind_of(e, kind):
    if isinstance(e, ast.Name):
        if e.id == 'INDEX':
            return kind[0]
        if e.id == 'FIRST' and kind[0] == 'tuple':
            return kind[1]
        if e.id == 'SECOND' and kind[0] == 'tuple':
            return kind[2]
    return None


def _truth(t, kind, selfn):
    """Three-valued value of a (substituted) test under the abstract index."""
    if isinstance(t, ast.UnaryOp) and isinstance(t.op, ast.Not):
        v = _truth(t.operand, kind, selfn)
        return None if v is None else not v
    if isinstance(t, ast.BoolOp):
        vs = [_truth(x, kind, selfn) for x in t.values]
        if isinstance(t.op, ast.And):
            return False if False in vs else (None if None in vs else True)
        return True if True in vs else (None if None in vs else False)
    if isinstance(t, ast.Call) and call_name(t) == 'isinstance' and len(t.args) == 2:
        k = _kind_of(t.args[0], kind)
        if k is None:
            return None
        ts = t.args[1].elts if isinstance(t.args[1], ast.Tuple) else [t.args[1]]
        vs = [_isa(k, (dotted(x) or '?').split('.')[-1]) for x in ts]
        return True if True in vs else (None if None in vs else False)
    if isinstance(t, ast.Compare) and len(t.ops) == 1 and isinstance(t.ops[0], (ast.Is, ast.IsNot, ast.Eq, ast.NotEq)):
        a, b = t.left, t.comparators[0]
        ty = 'type(%s)' % selfn
        if u(b) != ty:
            a, b = b, a
        if u(b) == ty and isinstance(a, ast.Call) and call_name(a) == 'type' and len(a.args) == 1:
            k = _kind_of(a.args[0], kind)
            if k is None:
                return None
            v = (k == 'ragged')
            return v if isinstance(t.ops[0], (ast.Is, ast.Eq)) else not v
    return None


class _Dispatch:
    """Outcome of fn for one abstract index: the first statement on the path
    that reads/stores through self._data[...] / self._array[...] or that
    re-dispatches to the same method."""

    def __init__(self, mod, fn, nd_attrs=()):
        self.mod, self.fn = mod, fn
        ps = params(fn)
        self.selfn, self.idxn = ps[0], ps[1]
        self.nd = {'%s.%s' % (self.selfn, a) for a in nd_attrs}
        self.budget = 400

    def table(self, kind):
        self.budget = 400
        outs = self.run(list(self.fn.body), {self.idxn: ast.Name(id='INDEX', ctx=ast.Load())}, kind)
        uniq = []
        for o in outs:
            if o[:2] not in [x[:2] for x in uniq]:
                uniq.append(o)
        return uniq

    def run(self, todo, env, kind):
        env = dict(env)
        for i, s in enumerate(todo):
            self.budget -= 1
            if self.budget < 0:
                return [('opaque', 'too many paths', None, s)]
            rest = todo[i + 1:]
            if isinstance(s, ast.If):
                t = _truth(_sub(s.test, env, self.mod, self.nd), kind, self.selfn)
                outs = []
                if t is not False:
                    outs += self.run(list(s.body) + rest, env, kind)
                if t is not True:
                    outs += self.run(list(s.orelse) + rest, env, kind)
                return outs
            if isinstance(s, (ast.For, ast.While, ast.Try, ast.With, ast.AsyncFor, ast.AsyncWith)) or type(s).__name__ in ('Match', 'TryStar'):
                return [('opaque', type(s).__name__, None, s)]
            sink = self.sink(s, env)
            if sink is not None:
                return [sink]
            if isinstance(s, ast.Return):
                if s.value is not None and self.selfn in names_loaded(_sub(s.value, env, self.mod, self.nd)):
                    return [('opaque', 'return value not recognised: %s' % u(s.value)[:60], None, s)]
                return [('none', 'returns without touching the data', None, s)]
            if isinstance(s, ast.Raise):
                return [('raise', u(s.exc)[:60] if s.exc is not None else 'raise', None, s)]
            if isinstance(s, ast.Assign):
                val = _sub(s.value, env, self.mod, self.nd)
                for t in s.targets:
                    self.bind(t, val, env, kind)
            elif isinstance(s, (ast.AugAssign, ast.AnnAssign)):
                for nm in target_names(s.target):
                    env.pop(nm, None)
        return [('none', 'falls off the end', None, None)]

    def bind(self, t, val, env, kind):
        if isinstance(t, ast.Name):
            env[t.id] = val
        elif isinstance(t, (ast.Tuple, ast.List)):
            if isinstance(val, (ast.Tuple, ast.List)) and len(val.elts) == len(t.elts):
                for te, ve in zip(t.elts, val.elts):
                    self.bind(te, ve, env, kind)
            else:
                for i, te in enumerate(t.elts):
                    if isinstance(te, ast.Name):
                        env[te.id] = _sub(ast.Subscript(value=val, slice=ast.Constant(value=i), ctx=ast.Load()), {}, self.mod, self.nd)

    def sink(self, s, env):
        exprs = []
        if isinstance(s, ast.Return) and s.value is not None:
            exprs = [s.value]
        elif isinstance(s, ast.Assign):
            exprs = [t for t in s.targets if isinstance(t, ast.Subscript)]
        elif isinstance(s, ast.AugAssign) and isinstance(s.target, ast.Subscript):
            exprs = [s.target]
        elif isinstance(s, ast.Expr):
            exprs = [s.value]
        for e in exprs:
            e2 = _sub(e, env, self.mod, self.nd)
            for c in ast.walk(e2):
                if isinstance(c, ast.Call) and isinstance(c.func, ast.Attribute) and u(c.func.value) == self.selfn and c.func.attr == self.fn.name:
                    a0 = c.args[0] if c.args else (c.keywords[0].value if c.keywords else None)
                    return ('redispatch', u(a0), u(e2), s)
            if isinstance(s, ast.Expr):
                continue
            acc = self.access(e2)
            if acc is not None:
                return ('access', u(acc), u(e2), s)
        return None

    def access(self, e):
        """The outermost subscript chain rooted in self._data / self._array."""
        roots = ('%s._data' % self.selfn, '%s._array' % self.selfn)
        inner = set()
        found = []
        for n in ast.walk(e):
            if isinstance(n, ast.Subscript):
                b = n
                while isinstance(b, ast.Subscript):
                    b = b.value
                if isinstance(b, ast.Attribute) and u(b) in roots:
                    found.append(n)
                    if isinstance(n.value, ast.Subscript):
                        inner.add(id(n.value))
        for n in found:
            if id(n) not in inner:
                return n
        return None


_ELEM = ('slice', 'int', 'other')


def d3_dispatch(ck, mod):
    rule = 'C05.D3.dispatch-agreement'
    G, W = CLS + '.__getitem__', CLS + '.__setitem__'
    fg, fw = mod.func(G), mod.func(W)
    nd = _ndarray_attrs(mod, CLS)
    dg, dw = _Dispatch(mod, fg, nd), _Dispatch(mod, fw, nd)

    def show(o):
        return '%s %s' % (o[0], o[1])

    def one(outs):
        return outs[0] if len(outs) == 1 and outs[0][0] != 'opaque' else None

    n = 0
    for a in _ELEM:
        for b in _ELEM:
            kind = ('tuple', a, b)
            og, ow = dg.table(kind), dw.table(kind)
            g, w = one(og), one(ow)
            case = 'index (%s, %s)' % (a, b)
            if g is None or w is None:
                ck.missing(rule, 'outcome of %s not determined: reader %s / writer %s' % (
                    case, '; '.join(show(o) for o in og)[:160], '; '.join(show(o) for o in ow)[:160]))
                continue
            if g[0] not in ('access', 'redispatch') and g[:2] == w[:2]:
                ck.missing(rule, 'neither reader nor writer reaches a data access for %s (%s)' % (case, show(g)[:100]))
                continue
            n += 1
            ck.check(g[:2] == w[:2], rule, mod, g[3] if g[3] is not None else fg, '__getitem__ <-> __setitem__',
                     'case %s -> %s' % (case, show(g)[:180]),
                     'reader and writer convert this index form identically',
                     'for the %s the reader goes through %s but the writer through %s: a value written through '
                     'one index form is read back from a different cell' % (case, show(g), show(w)))
    ck.floor(rule, n, 5, 'index-form cases')
    # ragged boolean mask: where() then re-dispatch; both accept tuple and mask indices
    want = u(_sub(ast.parse('where(INDEX)').body[0].value, {}, mod))
    masks = {}
    for q, f, dd, rec in ((G, fg, dg, 'self.__getitem__(iis)'), (W, fw, dw, 'self.__setitem__(iis, value)')):
        outs = dd.table(('ragged',))
        o = one(outs)
        masks[q] = o
        if o is None:
            ck.missing(rule + '.mask', 'outcome of a ragged-mask index in %s not determined: %s' % (q, '; '.join(show(x) for x in outs)[:200]))
            continue
        ck.check(o[0] == 'redispatch' and o[1] == want, rule + '.mask', mod, o[3] if o[3] is not None else f, q,
                 'mask -> where(mask) -> %s' % rec, 'boolean ragged mask converted to paired indices and re-dispatched',
                 'a ragged boolean mask must be converted with where() and re-dispatched (found: %s)' % show(o))
    tg = one(dg.table(('tuple', 'other', 'other')))
    tw = one(dw.table(('tuple', 'other', 'other')))
    if None not in (tg, tw, masks.get(G), masks.get(W)):
        ck.check(all(o[0] not in ('none', 'raise') for o in (tg, tw, masks[G], masks[W])), rule + '.forms', mod, fg, '__getitem__ <-> __setitem__',
                 'tuple: %s / %s; mask: %s / %s' % (tg[0], tw[0], masks[G][0], masks[W][0]),
                 'both accept tuple and ragged-mask indices', 'reader and writer accept different index kinds')
    # D6: plain row access of the reader
    idx = ast.Name(id='INDEX', ctx=ast.Load())
    for kind, want_whole, what in ((('int',), 'self._array[INDEX]', 'integer index returns the row view'),
                                   (('slice',), 'RaggedArray(self._array[INDEX])', 'row slice returns the ragged array of the selected rows'),
                                   (('list',), 'RaggedArray(self._array[INDEX])', 'row list returns the ragged array of the selected rows')):
        outs = dg.table(kind)
        o = one(outs)
        if o is None:
            ck.missing('C05.D6.observers', 'outcome of a[%s] not determined: %s' % (kind[0], '; '.join(show(x) for x in outs)[:200]))
            continue
        whole = (o[2] or '').replace(dg.selfn + '.', 'self.')
        ck.check(o[0] == 'access' and whole in (want_whole, want_whole.replace('RaggedArray(', 'RaggedArray(array=')), 'C05.D6.observers', mod,
                 o[3] if o[3] is not None else fg, G, 'a[%s] -> %s' % (kind[0], o[2]), what,
                 'a[%s] must return %s' % (kind[0], want_whole.replace('INDEX', 'i')))


def d3_row_count(ck, mod):
    """A row slice is expanded against the NUMBER OF ROWS (reader and writer
    agreeing on a wrong length would pass the agreement rule)."""
    rule = 'C05.D3.row-count'
    F = '_slice_to_list'
    fs = mod.func(F)
    sps = params(fs)
    if len(sps) < 2:
        ck.missing(rule, '_slice_to_list(slice, length): parameters not recognised')
        return
    n = 0
    for q in (CLS + '.__getitem__', CLS + '.__setitem__'):
        f = mod.func(q)
        fi = finfo(mod, f)
        sn = params(f)[0]
        forms = [x.replace('%s', sn) for x in ('len(%s.lengths)', '%s.lengths.shape[0]', '%s.lengths.size', 'len(%s._array)',
                                               '%s._array.shape[0]', 'len(%s)', 'len(%s.starts)', '%s.starts.shape[0]', '%s.starts.size')]
        for c in calls_in(f):
            if call_name(c) != F:
                continue
            b = _bind_call(mod, c)
            if b is None:
                ck.missing(rule, 'arguments of %s in %s not recognised' % (u(c)[:80], q))
                continue
            n += 1
            ln = b.get(sps[1])
            if ln is None:
                ck.bad(rule, mod, c, q, u(c)[:160], 'the row slice must be expanded with length = number of rows: without it an open or '
                       'negative row bound raises instead of selecting rows')
                continue
            v = _classify(_expand(fi, ln), forms, {sn})
            ck.decide(v, rule, mod, c, q, '%s with length %s' % (u(c)[:100], _xu(fi, ln)[:80]), 'row slice expanded against the number of rows',
                      'the row slice must be expanded against the number of rows (len(self.lengths))')
    ck.floor(rule, n, 2, 'row-slice expansions in reader and writer')


# ---------------------------------------------------------------------------
# D4

_ALLOC ={'np.zeros', 'np.ones', 'np.full', 'np.empty'}
_LIKE = {'np.zeros_like', 'np.ones_like', 'np.full_like', 'np.empty_like', 'np.minimum', 'np.maximum', 'np.clip',
         'np.asarray', 'np.array', 'np.abs', 'np.where'}


def _row_indexed(fn, lengths):
    """Names of arrays with one entry per ROW of the ragged array: `lengths`
    and whatever is computed elementwise from it."""
    S = {lengths}

    def elementwise(e):
        if isinstance(e, ast.Name):
            return e.id in S
        if isinstance(e, ast.BinOp):
            return elementwise(e.left) or elementwise(e.right)
        if isinstance(e, ast.UnaryOp):
            return elementwise(e.operand)
        if isinstance(e, ast.IfExp):
            return elementwise(e.body) and elementwise(e.orelse)
        if isinstance(e, ast.Call):
            cn = call_name(e) or ''
            args = list(e.args) + [k.value for k in e.keywords]
            if cn in _ALLOC:
                for a in args:
                    for x in walk_expr(a):
                        if isinstance(x, ast.Attribute) and x.attr == 'shape' and isinstance(x.value, ast.Name) and x.value.id in S:
                            return True
                        if isinstance(x, ast.Call) and call_name(x) == 'len' and x.args and isinstance(x.args[0], ast.Name) and x.args[0].id in S:
                            return True
                return False
            if cn in _LIKE:
                return any(elementwise(a) for a in e.args)
            if isinstance(e.func, ast.Attribute) and e.func.attr in ('copy', 'astype', 'clip'):
                return elementwise(e.func.value)
        return False
    changed = True
    while changed:
        changed = False
        for s in walk_local(fn):
            if isinstance(s, ast.Assign) and len(s.targets) == 1 and isinstance(s.targets[0], ast.Name) and \
                    s.targets[0].id not in S and elementwise(s.value):
                S.add(s.targets[0].id)
                changed = True
    return S


def _seq_of_iter(fi, it):
    """('seq', Y) for `Y`; ('range', Y) for range(len(Y)) / range(Y.shape[0]) / range(Y.size);
    ('enumerate', Y); ('zip', [Y...]); else None.  Y as canonical expanded text."""
    e = _xc(fi, it)
    if isinstance(e, ast.Call):
        cn = call_name(e)
        if cn == 'range' and len(e.args) == 1 and not e.keywords:
            for pat in ('len(_Y)', '_Y.shape[0]', '_Y.size'):
                b = match(pat, e.args[0])
                if b is not None:
                    return ('range', u(b['_Y']))
            return None
        if cn == 'enumerate' and len(e.args) == 1 and not e.keywords:
            return ('enumerate', u(e.args[0]))
        if cn == 'zip' and e.args and not e.keywords:
            return ('zip', [u(a) for a in e.args])
        return None
    return ('seq', u(e))


def _per_selection(fn, fi, rows):
    """Names of sequences with exactly one entry per SELECTED row, in selection order."""
    S = {rows}
    changed = True
    while changed:
        changed = False
        for loop in walk_local(fn):
            if isinstance(loop, ast.For):
                k = _seq_of_iter(fi, loop.iter)
                over = k is not None and ((k[0] in ('seq', 'range', 'enumerate') and k[1] in S) or (k[0] == 'zip' and any(y in S for y in k[1])))
                if not over or loop.orelse:
                    continue
                if any(isinstance(x, (ast.Break, ast.Continue)) for x in walk_local(loop)):
                    continue
                for st in loop.body:
                    if isinstance(st, ast.Expr) and isinstance(st.value, ast.Call) and isinstance(st.value.func, ast.Attribute) and \
                            st.value.func.attr == 'append' and isinstance(st.value.func.value, ast.Name):
                        nm = st.value.func.value.id
                        appends = [c for c in calls_in(fn) if isinstance(c.func, ast.Attribute) and c.func.attr in ('append', 'extend', 'insert', 'pop', 'remove')
                                   and isinstance(c.func.value, ast.Name) and c.func.value.id == nm]
                        if nm not in S and len(appends) == 1:
                            S.add(nm)
                            changed = True
            elif isinstance(loop, ast.Assign) and len(loop.targets) == 1 and isinstance(loop.targets[0], ast.Name) and loop.targets[0].id not in S:
                v = loop.value
                src = None
                if isinstance(v, ast.Call) and call_name(v) in ('np.array', 'np.asarray', 'list', 'tuple') and v.args and \
                        isinstance(v.args[0], ast.ListComp):
                    v = v.args[0]
                if isinstance(v, ast.Call) and call_name(v) in ('np.array', 'np.asarray', 'list', 'tuple') and v.args and isinstance(v.args[0], ast.Name):
                    src = v.args[0].id
                elif isinstance(v, ast.Call) and isinstance(v.func, ast.Attribute) and v.func.attr == 'copy' and isinstance(v.func.value, ast.Name):
                    src = v.func.value.id
                elif isinstance(v, ast.ListComp) and len(v.generators) == 1 and not v.generators[0].ifs:
                    k = _seq_of_iter(fi, v.generators[0].iter)
                    if k is not None and k[0] in ('seq', 'range', 'enumerate') and k[1] in S:
                        src = k[1]
                if src in S:
                    S.add(loop.targets[0].id)
                    changed = True
    return S


def _loop_vars(fi, target, it, rows, persel, gen):
    """{name: (kind, sequence, generator)}; kind: 'rowid' (an element of the
    row selection), 'pos' (a position in a per-selection sequence), 'elem'
    (element of a per-selection sequence other than the selection), 'unknown'."""
    k = _seq_of_iter(fi, it)
    names = target_names(target)
    out = {nm: ('unknown', None, gen) for nm in names}
    if k is None:
        return out
    if k[0] == 'seq' and isinstance(target, ast.Name):
        if k[1] == rows:
            out[target.id] = ('rowid', rows, gen)
        elif k[1] in persel:
            out[target.id] = ('elem', k[1], gen)
    elif k[0] == 'range' and isinstance(target, ast.Name) and k[1] in persel:
        out[target.id] = ('pos', k[1], gen)
    elif k[0] == 'enumerate' and isinstance(target, (ast.Tuple, ast.List)) and len(target.elts) == 2 and \
            all(isinstance(e, ast.Name) for e in target.elts) and k[1] in persel:
        out[target.elts[0].id] = ('pos', k[1], gen)
        out[target.elts[1].id] = ('rowid' if k[1] == rows else 'elem', k[1], gen)
    elif k[0] == 'zip' and isinstance(target, (ast.Tuple, ast.List)) and len(target.elts) == len(k[1]) and \
            all(isinstance(e, ast.Name) for e in target.elts) and all(y in persel for y in k[1]):
        for e, y in zip(target.elts, k[1]):
            out[e.id] = ('rowid' if y == rows else 'elem', y, gen)
    return out


def _list_valued(e):
    """The (expanded) expression evaluates to a Python sequence whose length
    depends on the data - a comprehension, list(...)/tuple(...)/sorted(...),
    an empty display, `[x] * n` - and not to an ndarray."""
    if isinstance(e, ast.ListComp):
        return True
    if isinstance(e, (ast.List, ast.Tuple)):
        return not e.elts
    if isinstance(e, ast.Call) and call_name(e) in ('list', 'tuple', 'sorted') and not e.keywords:
        return True
    if isinstance(e, ast.BinOp) and isinstance(e.op, ast.Mult):
        return any(isinstance(x, ast.List) for x in (e.left, e.right))
    return False


def _float_when_empty(fi, e):
    """Why the index array `e` is float64 (not an integer array) when it
    selects nothing, or None.  Decided from the constructor expression alone:
      np.array(<python sequence>) / np.asarray(...) without an integer dtype:
          numpy infers the dtype from the elements, and float64 from none;
      np.concatenate([<python sequence> for ...]): every piece is converted
          on its own, an empty piece is a float64 array (with dtype=int the
          'same_kind' cast float64 -> int is refused: TypeError)."""
    x = _xc(fi, e)
    if isinstance(x, ast.Call) and call_name(x) in ('np.array', 'np.asarray', 'np.asanyarray') and x.args:
        typed = any(k.arg == 'dtype' for k in x.keywords) or len(x.args) > 1
        if not typed and _list_valued(x.args[0]):
            return 'np.array(<python sequence>) takes its dtype from the elements; for an empty selection the sequence is [] and the array float64'
    if isinstance(x, ast.Call) and isinstance(x.func, ast.Attribute) and x.func.attr == 'copy' and getattr(x, '_from_np_array', False) \
            and isinstance(x.func.value, ast.Name):
        # np.array(<name>) whose name could not be expanded: every definition a python sequence
        try:
            defs = fi.defs_of_use(e.func.value if isinstance(e, ast.Call) and isinstance(e.func, ast.Attribute) else x.func.value)
        except Exception:
            defs = set()
        vals = [fi.def_value(d, x.func.value.id) for d in defs if d not in ('PARAM', 'UNBOUND')]
        if defs and len(vals) == len(defs) and all(v is not None and _list_valued(canon(v)) for v in vals):
            return 'np.array(<python sequence>) takes its dtype from the elements; for an empty selection the sequence is [] and the array float64'
    if isinstance(x, ast.Call) and call_name(x) in ('np.concatenate', 'np.hstack') and x.args:
        a = x.args[0]
        pieces = []
        if isinstance(a, (ast.ListComp, ast.GeneratorExp)):
            pieces = [a.elt]
        elif isinstance(a, (ast.List, ast.Tuple)):
            pieces = list(a.elts)
        if any(_list_valued(p_) for p_ in pieces):
            return ('the pieces handed to np.concatenate are python sequences: a piece of length zero becomes a float64 array, so the '
                    'result is float64 - or, with dtype=int, the cast float64 -> int is refused (TypeError, casting="same_kind")')
    return None


def d5_index_dtype(ck, mod):
    """The (rows, columns) arrays returned by the flat -> 2-D conversion are
    used as INDICES (lengths[rows], starts[rows] + columns): they must have an
    integer dtype also when the mask selects nothing."""
    rule = 'C05.D5.flat-to-2d.index-dtype'
    F = '_convert_from_1d'
    fn = mod.functions.get(F)
    if fn is None:
        ck.missing(rule, 'function %s' % F)
        return
    fi = finfo(mod, fn)
    n = 0
    for r in returns_of(fn):
        if not (isinstance(r.value, ast.Tuple) and len(r.value.elts) == 2):
            continue
        for which, e in zip(('row', 'column'), r.value.elts):
            n += 1
            why = _float_when_empty(fi, e)
            ck.check(why is None, rule, mod, r, F, '%s index array returned for a ragged mask' % which,
                     'not a dtype-less conversion of a python sequence',
                     'the %s indices of a ragged mask are built as %s: %s; a float array cannot index lengths/starts, so a mask without '
                     'a True entry (a[a > 100], a[a < 0] = 0 on data without negatives) raises IndexError instead of selecting nothing'
                     % (which, _xu(fi, e)[:120], why))
    ck.floor(rule, n, 2, 'index arrays returned by _convert_from_1d')


def d4_index_space(ck, mod):
    rule = 'C05.D4.index-space'
    F = '_get_iis_from_slices'
    fn = mod.func(F)
    ck.analysed(mod, fn)
    fi = finfo(mod, fn)
    ps = params(fn)
    if len(ps) < 3:
        ck.missing(rule, '_get_iis_from_slices(rows, column slice, lengths): parameters not recognised')
        return
    rows, sl, lengths = ps[:3]
    rowidx = _row_indexed(fn, lengths)
    persel = _per_selection(fn, fi, rows)
    state = {'n': 0, 'rep': 0, 'stops': set(), 'loops': [], 'protocol': []}
    # the sequence returned as the new lengths
    newlen = None
    for r in returns_of(fn):
        if isinstance(r.value, ast.Tuple) and len(r.value.elts) == 2:
            newlen = _xu(fi, r.value.elts[1])

    def rowid_of(e, env):
        """('rowid', gen) / ('pos', gen) / None for an index expression."""
        if isinstance(e, ast.Name) and e.id in env:
            k = env[e.id]
            if k[0] in ('rowid', 'pos'):
                return (k[0], k[2], k[1])
            return ('unknown', k[2], k[1])
        if isinstance(e, ast.Subscript) and u(e.value) == rows and isinstance(e.slice, ast.Name) and e.slice.id in env:
            k = env[e.slice.id]
            if k[0] == 'pos':
                return ('rowid', k[2], k[1])
            return ('unknown', k[2], k[1])
        return None

    def count_of(e, env):
        if isinstance(e, ast.Name) and e.id in env and env[e.id][0] == 'elem':
            return (env[e.id][1], env[e.id][2])
        if isinstance(e, ast.Subscript) and isinstance(e.value, ast.Name) and e.value.id in persel and e.value.id != rows and \
                isinstance(e.slice, ast.Name) and e.slice.id in env and env[e.slice.id][0] == 'pos':
            return (e.value.id, env[e.slice.id][2])
        return None

    def check_sub(sub, env):
        idx = sub.slice
        if not (names_loaded(idx) & set(env)):
            return
        state['n'] += 1
        k = rowid_of(idx, env)
        ctx = '; '.join('%s: %s of %s' % (nm, v[0], v[1]) for nm, v in sorted(env.items()) if nm in names_loaded(idx))
        con = '%s with %s' % (u(sub), ctx)
        if k is not None and k[0] == 'rowid':
            ck.ok(rule, mod, sub, con, 'row-indexed array subscripted with a ROW ID of the selection')
        elif k is not None and k[0] == 'pos':
            ck.bad(rule, mod, sub, F, con,
                   '`%s` is indexed by row id (it is derived from `%s`), but `%s` is a position in `%s`: a position in the '
                   'row selection is used as a row id, so for a[1:, :] / a[[2, 0], :] the stop of the wrong row '
                   'clips the slice' % (u(sub.value), lengths, u(idx), k[2]))
        else:
            ck.missing(rule, 'index of the row-indexed array in %s not recognised (%s)' % (u(sub), ctx))

    def check_repeat(call, env):
        state['rep'] += 1
        a, b = call.args[0], call.args[1]
        ka, kb = rowid_of(a, env), count_of(b, env)
        con = u(call)
        if ka is not None and ka[0] == 'pos':
            ck.bad(rule + '.repeat', mod, call, F, con, 'a position in the row selection (`%s`) is repeated as if it were a row id' % u(a))
        elif ka is None or ka[0] != 'rowid' or kb is None:
            ck.missing(rule + '.repeat', 'operands of %s not recognised as (row id of position k, column count of position k)' % con[:120])
        elif ka[1] is not kb[1]:
            ck.bad(rule + '.repeat', mod, call, F, con, 'row ids must be repeated per selected column count of the same position')
        elif newlen is not None and kb[0] != newlen:
            ck.missing(rule + '.repeat', '%s repeats by `%s`, which is not the sequence returned as the new lengths (%s)' % (con[:100], kb[0], newlen[:60]))
        else:
            ck.ok(rule + '.repeat', mod, call, con, 'row id of selection position k repeated once per selected column of position k')

    def visit(node, env):
        if isinstance(node, (ast.FunctionDef, ast.AsyncFunctionDef, ast.ClassDef, ast.Lambda)):
            return
        if isinstance(node, ast.For):
            visit(node.iter, env)
            env2 = dict(env)
            env2.update(_loop_vars(fi, node.target, node.iter, rows, persel, node))
            state['loops'].append((node, env2))
            for s in node.body:
                visit(s, env2)
            for s in node.orelse:
                visit(s, env)
            return
        if isinstance(node, (ast.ListComp, ast.SetComp, ast.GeneratorExp, ast.DictComp)):
            env2 = dict(env)
            for g in node.generators:
                visit(g.iter, env2)
                env2.update(_loop_vars(fi, g.target, g.iter, rows, persel, g))
                for c in g.ifs:
                    visit(c, env2)
            for part in ([node.key, node.value] if isinstance(node, ast.DictComp) else [node.elt]):
                visit(part, env2)
            return
        if isinstance(node, ast.Subscript) and isinstance(node.ctx, ast.Load) and isinstance(node.value, ast.Name) and node.value.id in rowidx and env:
            check_sub(node, env)
        if isinstance(node, ast.Call) and call_name(node) == 'itertools.repeat' and len(node.args) == 2 and env:
            check_repeat(node, env)
        if isinstance(node, ast.Call) and call_name(node) in ('np.arange', 'range') and env and len(node.args) >= 2:
            e = _xc(fi, node.args[1])
            if isinstance(e, ast.Subscript) and isinstance(e.value, ast.Name) and e.value.id in rowidx:
                state['stops'].add(e.value.id)
        if isinstance(node, ast.Call) and call_name(node) in ('np.arange', 'range') and env and not node.keywords:
            # the slice protocol: range(*sl.indices(n)), or start/stop/step unpacked from ONE sl.indices(n) in order
            b = None
            if len(node.args) == 1 and isinstance(node.args[0], ast.Starred):
                b = match('%s.indices(_A)' % sl, _xc(fi, node.args[0].value))
            elif len(node.args) == 3 and not any(isinstance(a, ast.Starred) for a in node.args):
                xs = [_xc(fi, a) for a in node.args]
                if all(isinstance(x, ast.Subscript) and const_value(x.slice, None) == i and not isinstance(const_value(x.slice, None), bool)
                       for i, x in enumerate(xs)) and len({u(x.value) for x in xs}) == 1:
                    b = match('%s.indices(_A)' % sl, xs[0].value)
            if b is not None:
                a = _xc(fi, b['_A'])
                if isinstance(a, ast.Subscript) and isinstance(a.value, ast.Name) and a.value.id == lengths:
                    k = rowid_of(a.slice, env)
                    state['protocol'].append((node, k is not None and k[0] == 'rowid'))
        for ch in ast.iter_child_nodes(node):
            visit(ch, env)

    for s in fn.body:
        visit(s, {})
    ck.floor(rule, state['n'], 1, 'row-indexed subscripts in the expansion loop')
    if state['rep'] == 0:
        reps = [c for c in calls_in(fn) if call_name(c) == 'np.repeat' and len(c.args) == 2]

        def unwrapped(e):
            x = _xc(fi, e)
            inner = _strip_array(x)       # np.asarray(rows, dtype=int): the same row ids
            return u(inner if inner is not None else x)

        def per_position_counts(e):
            # one count per selected row, in selection order: a per-selection sequence by name, or an
            # elementwise list / integer array over the selection or over a per-selection sequence
            if isinstance(e, ast.Name) and e.id in persel - {rows}:
                return True
            if _xu(fi, e) in persel - {rows}:
                return True
            ew = _elementwise(fi, e)
            if ew is None:
                return False
            d = ew[0]
            return (isinstance(d, ast.Name) and d.id in persel) or _xu(fi, d) in persel
        okr = [c for c in reps if unwrapped(c.args[0]) == rows and per_position_counts(c.args[1])]
        if okr:
            ck.ok(rule + '.repeat', mod, okr[0], u(okr[0]), 'row ids repeated by the per-position column counts')
        else:
            ck.missing(rule + '.repeat', 'construction of the row ids of the selected elements (itertools.repeat(row id, column count)) not found')

    # --- the row ids / column indices handed back are INDEX arrays: integer dtype also for empty per-row selections
    nd = 0
    for r in returns_of(fn):
        if isinstance(r.value, ast.Tuple) and len(r.value.elts) == 2 and isinstance(r.value.elts[0], ast.Tuple) and len(r.value.elts[0].elts) == 2:
            for which, e in zip(('row ids', 'column indices'), r.value.elts[0].elts):
                nd += 1
                why = _float_when_empty(fi, e)
                ck.check(why is None, rule + '.dtype', mod, fi.stmt(e) or r, F, '%s of the selected elements' % which,
                         'not a dtype-less conversion of python sequences',
                         'the %s are built as %s: %s; a selected row that contributes no element (a[:, 2:] with a row of length 2, '
                         'a[:, 1:] with a one-element row) therefore raises instead of giving an empty row' % (which, _xu(fi, e)[:140], why))
    if nd == 0:
        ck.missing(rule + '.dtype', 'return value ((row ids, column indices), new lengths) of %s' % F)

    # --- clip of the stops to the row lengths
    if state['protocol'] and not state['stops']:
        for node, isrow in state['protocol']:
            if isrow:
                ck.ok(rule + '.clip', mod, node, u(node)[:120], 'column range resolved by the slice protocol against the length of the same row '
                      '(slice.indices clips the bounds to that length)')
            else:
                ck.missing(rule + '.clip', 'length handed to %s.indices is not recognised as the length of the selected row' % sl)
        return
    stops = sorted(state['stops'] - {lengths})
    if len(stops) != 1:
        ck.missing(rule + '.clip', 'per-row stop array of the column ranges not recognised (%s)' % ', '.join(sorted(state['stops'])))
        return
    ST = stops[0]
    scope = {ST, lengths}
    why = 'stops must be clipped per row: stops[stops > lengths] = lengths[...]'
    first_loop = state['loops'][0][0] if state['loops'] else None
    done = False
    cl = subscript_stores(fn, ST)
    for s, t in cl:
        if not isinstance(s, ast.Assign):
            continue
        I = _xc(fi, t.slice, strict=False)
        val = _xc(fi, s.value, strict=False)
        vi = _classify(I, ['np.where(%s < %s)' % (lengths, ST), '%s < %s' % (lengths, ST), 'np.where(%s < %s)[0]' % (lengths, ST),
                           'np.where(%s <= %s)' % (lengths, ST), '%s <= %s' % (lengths, ST)], scope)
        same = isinstance(val, ast.Subscript) and u(val.value) == lengths and u(val.slice) == u(I)
        if vi[0] == 'match' and same:
            dom = first_loop is None or fi.cfg.dominates(s, first_loop)
            if dom:
                ck.ok(rule + '.clip', mod, s, u(s), 'stops beyond a row are clipped to that row\'s length')
            else:
                ck.missing(rule + '.clip', 'the clip %s does not dominate the expansion loop' % u(s)[:80])
            done = True
        elif vi[0] == 'far' or (vi[0] == 'match' and not _pure(val)):
            ck.missing(rule + '.clip', 'store into the stop array not recognised: %s' % u(s)[:120])
            done = True
        elif vi[0] == 'near' and lengths not in names_loaded(I) and lengths not in names_loaded(val):
            continue        # a store that does not involve the lengths: not the upper clip (e.g. a lower clamp at 0)
        else:
            ck.bad(rule + '.clip', mod, s, F, u(s), why)
            done = True
    if not done:
        mins = [s for s in assigns_to(fn, ST) if isinstance(s, ast.Assign) and
                any(match(p, s.value) is not None for p in ('np.minimum(%s, __)' % lengths, 'np.minimum(__, %s)' % lengths))]
        other = [c for c in calls_in(fn) if (call_name(c) or '') in ('np.clip', 'np.where', 'np.minimum', 'min', 'np.fmin', 'np.putmask', 'np.copyto')
                 and {ST, lengths} <= names_loaded(c)] + \
                [c for c in calls_in(fn) if isinstance(c.func, ast.Attribute) and c.func.attr in ('clip', 'minimum') and {ST, lengths} <= names_loaded(c)]
        if mins and (first_loop is None or fi.cfg.dominates(mins[-1], first_loop)):
            ck.ok(rule + '.clip', mod, mins[-1], u(mins[-1]), 'stops beyond a row are clipped to that row\'s length')
        elif other:
            ck.missing(rule + '.clip', 'limiting of the stops to the row lengths not recognised: %s' % u(other[0])[:120])
        else:
            ck.bad(rule + '.clip', mod, fn, F, 'clip', why)


# ---------------------------------------------------------------------------
# D5 / D6

def _starts_forms(Lx):
    return ['np.append([0], %s.cumsum()[:-1])' % Lx, 'np.append(0, %s.cumsum()[:-1])' % Lx,
            'np.concatenate(([0], %s.cumsum()[:-1]))' % Lx, 'np.concatenate([[0], %s.cumsum()[:-1]])' % Lx,
            'np.r_[0, %s.cumsum()[:-1]]' % Lx, '%s.cumsum() - %s' % (Lx, Lx),
            'np.insert(%s.cumsum()[:-1], 0, 0)' % Lx, 'np.insert(%s.cumsum(), 0, 0)[:-1]' % Lx]


_INT_DTYPES = {'int', 'np.int64', 'np.intp', 'np.int_', 'np.int32', 'numpy.int64', 'numpy.intp', "'int'", "'int64'", "'intp'",
               "'i8'", 'np.dtype(int)'}


def _int_dtype_kw(call):
    """The call carries dtype=<integer type> (and no other keyword)."""
    return len(call.keywords) == 1 and call.keywords[0].arg == 'dtype' and u(call.keywords[0].value) in _INT_DTYPES


def _strip_array(e):
    """np.array(x) / np.asarray(x) / np.array(x, dtype=int) / x.copy()  ->  x
    (index arrays: an explicit integer dtype does not change the values)"""
    if isinstance(e, ast.Call) and call_name(e) in ('np.array', 'np.asarray') and len(e.args) == 1 and \
            (not e.keywords or _int_dtype_kw(e)):
        return e.args[0]
    if isinstance(e, ast.Call) and isinstance(e.func, ast.Attribute) and e.func.attr == 'copy' and not e.args and not e.keywords:
        return e.func.value
    return None


def d5_where(ck, mod):
    rule = 'C05.D5.flat-to-2d'
    F = '_convert_from_1d'
    fn = mod.func(F)
    ck.analysed(mod, fn)
    fi = finfo(mod, fn)
    ps = params(fn)
    if len(ps) < 3:
        ck.missing(rule, '_convert_from_1d(flat index, lengths, starts): parameters not recognised')
        return
    P0, L, S = ps[:3]
    bind_cases(ck, mod, rule + '.call-binding', F, ['where'], 'where()')
    # operands whose value the expression shows: not the lists under construction
    scope = _value_scope(fi, fn)
    rets = [r for r in returns_of(fn) if r.value is not None]
    n = 0
    # row of ONE flat index (ELEM); starts are ascending (prefix sums of positive lengths), so
    # "last start <= index" = "number of starts <= index, minus one" = right bisection minus one
    row_forms = [x % {'S': S, 'E': ELEM} for x in (
        'np.where(%(S)s <= %(E)s)[0][-1]', 'np.where(%(S)s <= %(E)s)[0].max()', 'np.nonzero(%(S)s <= %(E)s)[0][-1]',
        '(%(S)s <= %(E)s).nonzero()[0][-1]', 'np.nonzero(%(S)s <= %(E)s)[0].max()', '(%(S)s <= %(E)s).nonzero()[0].max()',
        'np.searchsorted(%(S)s, %(E)s, side="right") - 1', '%(S)s.searchsorted(%(E)s, side="right") - 1',
        'bisect.bisect_right(%(S)s, %(E)s) - 1', 'bisect.bisect(%(S)s, %(E)s) - 1',
        '(%(S)s <= %(E)s).sum() - 1', 'np.count_nonzero(%(S)s <= %(E)s) - 1', 'len(np.where(%(S)s <= %(E)s)[0]) - 1')]
    why_r = 'row must be np.where(starts <= ii)[0][-1] (< loses the first element of each row)'
    why_c = 'column must be iis_flat[k] - starts[row[k]]'

    def flat_ok(e):
        # the flat index set: <first parameter>[0], possibly under a name
        if isinstance(e, ast.Name):
            e = fi.resolve(e)
        return u(e) == '%s[0]' % P0

    def listlike(x):
        return isinstance(x, (ast.ListComp, ast.GeneratorExp)) or _list_valued(x) or \
            (_strip_array(x) is not None and listlike(_strip_array(x)))

    def as_index(e):
        # np.array(X, dtype=int) -> X  (through temporaries; the result is an original node)
        p = _peel(fi, e)
        inner = _strip_array(p)
        return inner if inner is not None else None

    for r in rets:
        if not (isinstance(r.value, ast.Tuple) and len(r.value.elts) == 2):
            ck.missing(rule, 'return value of _convert_from_1d is not a (rows, columns) pair: %s' % u(r.value)[:100])
            continue
        er, ec = (as_index(x) for x in r.value.elts)
        if er is None or ec is None:
            er, ec = r.value.elts
        n += 1
        # --- rows
        ew = _elementwise(fi, er)
        if ew is not None:
            # a python list filled position by position (comprehension, append loop, fused loop, zip / enumerate re-indexing)
            dom, f = ew
            fx = _xc(fi, f)
            v = _classify(fx, row_forms, scope)
            if v[0] == 'match' and not flat_ok(dom):
                v = ('far', 1, None)
            ck.decide(v, rule, mod, r, F, 'rows: entry for the flat index %s of %s = %s' % (ELEM, u(dom)[:40], u(fx)[:140]),
                      'row of a flat index = LAST row whose start is <= the index', why_r)
        else:
            xr = _xc(fi, er)
            v = _classify(xr, ['np.searchsorted(%s, _F, side="right") - 1' % S, '%s.searchsorted(_F, side="right") - 1' % S], scope)
            if v[0] == 'near' and listlike(xr):
                v = ('far', v[1], v[2])       # a list built in a way the elementwise view does not cover
            if v[0] == 'match':
                Fx = v[1]['_F']
                Fx = _strip_array(Fx) or Fx   # integer index array of the same positions
                if not (flat_ok(Fx) or (isinstance(Fx, ast.Name) and any(u(a.value) == '%s[0]' % P0 for a in assigns_to(fn, Fx.id) if isinstance(a, ast.Assign)))):
                    v = ('far', 1, None)
            ck.decide(v, rule, mod, r, F, 'rows: %s' % u(xr)[:180], 'row of a flat index = LAST row whose start is <= the index', why_r)
        # --- columns
        cw = _elementwise(fi, ec)
        if cw is not None:
            dom, f = cw
            fx = _xc(fi, f)
            v = _classify(fx, ['%s - %s[%s]' % (ELEM, S, rf) for rf in row_forms], scope)
            if v[0] == 'match' and not flat_ok(dom):
                v = ('far', 1, None)
            ck.decide(v, rule, mod, r, F, 'columns: entry for the flat index %s of %s = %s' % (ELEM, u(dom)[:40], u(fx)[:140]),
                      'column = flat index - start of its row', why_c)
        else:
            # vectorised: <flat> - starts[<the rows that are returned>]
            rname = er.id if isinstance(er, ast.Name) else None
            xc_ = _xc(fi, ec, stop=(rname,) if rname else ())
            Rn = rname or '_R'
            v = _classify(xc_, ['_F - %s[%s]' % (S, Rn), '_F - %s[np.array(%s, dtype=int)]' % (S, Rn), '_F - %s[np.asarray(%s, dtype=int)]' % (S, Rn)], scope)
            if v[0] == 'near' and listlike(xc_):
                v = ('far', v[1], v[2])
            if v[0] == 'match':
                Fx = v[1]['_F']
                Fx = _strip_array(Fx) or Fx
                Rx = v[1].get('_R')
                if not (flat_ok(Fx) or (isinstance(Fx, ast.Name) and any(u(a.value) == '%s[0]' % P0 for a in assigns_to(fn, Fx.id) if isinstance(a, ast.Assign)))) \
                        or (Rx is not None and u(Rx) not in (u(_xc(fi, er)), u(_xc(fi, r.value.elts[0])))):
                    v = ('far', 1, None)
            ck.decide(v, rule, mod, r, F, 'columns: %s' % u(xc_)[:180], 'column = flat index - start of its row', why_c)
    ck.floor(rule, n, 1, 'return of the (rows, columns) pair')
    # starts: exclusive prefix sums of the lengths, wherever they are derived
    for q in (F, '_convert_from_2d'):
        f = mod.func(q)
        fq = finfo(mod, f)
        qs = params(f)
        if len(qs) < 3:
            ck.missing(rule + '.starts', 'parameters of %s' % q)
            continue
        Lq, Sq = qs[1], qs[2]
        st = [s for s in assigns_to(f, Sq) if isinstance(s, ast.Assign)]
        for s in st:
            v = _classify(_expand(fq, s.value), _starts_forms(Lq), {Lq})
            ck.decide(v, rule + '.starts', mod, s, q, u(s)[:200], 'starts = exclusive prefix sums of lengths',
                      'starts must be np.append([0], np.cumsum(lengths)[:-1])')
        if not st:
            ck.missing(rule + '.starts', 'derivation of starts from lengths in %s' % q)
    q = CLS + '.starts'
    f = mod.func(q)
    fq = finfo(mod, f)
    selfn = params(f)[0]
    rr = [r for r in returns_of(f) if r.value is not None]
    want = C('np.append([0], np.cumsum(%s.lengths)[:-1])' % selfn)
    for r in rr:
        v = _classify(_expand(fq, r.value), _starts_forms('%s.lengths' % selfn), {selfn})
        ck.decide(v, rule + '.starts', mod, r, q, _xu(fq, r.value)[:200], 'same definition of starts (recomputed from the current lengths on every access)',
                  '%s must compute starts as %s from the CURRENT lengths on every access (a cached copy goes stale when append changes the lengths)' % (q, want))
    stores = [s for s in walk_local(f) if isinstance(s, (ast.Assign, ast.AugAssign)) and
              any(not isinstance(t, ast.Name) for t in (s.targets if isinstance(s, ast.Assign) else [s.target]))]
    ck.check(len(rr) == 1 and not stores, rule + '.starts', mod, f, q, 'single return, no attribute/element store in %s' % q,
             'starts is recomputed on every access, nothing is cached',
             '%s must compute starts as %s from the CURRENT lengths on every access (a cached copy goes stale when append changes the lengths)' % (q, want))
    # where(): positions of the flat mask converted with the mask's own starts
    fw = mod.func('where')
    ck.analysed(mod, fw)
    fiw = finfo(mod, fw)
    M = params(fw)[0]
    cs = [c for c in calls_in(fw) if call_name(c) == F]
    if not cs:
        # re-expressed without the conversion helper: the rule has nothing to compare
        ck.missing(rule + '.where', 'call of _convert_from_1d in where()')
    for c in cs:
        b = _bind_call(mod, c) or {}
        a0 = b.get(P0)
        ok_start = (S in b and _xu(fiw, b[S]) == '%s.starts' % M) or (S not in b and L in b and _xu(fiw, b[L]) == '%s.lengths' % M)
        if a0 is None:
            ck.missing(rule + '.where', 'arguments of %s' % u(c)[:100])
            continue
        v = _classify(_expand(fiw, a0), ['np.where(%s._data)' % M, '%s._data.nonzero()' % M, 'np.nonzero(%s._data)' % M], {M})
        if v[0] == 'match' and not ok_start:
            v = ('near', 1, '_convert_from_1d(np.where(mask._data), starts=mask.starts)')
        ck.decide(v, rule + '.where', mod, c, 'where', 'np.where(mask._data) -> _convert_from_1d(..., starts=mask.starts)',
                  'mask positions converted with the mask\'s own starts', 'where must convert np.where(mask._data) with mask.starts')
    # simple observers
    obs = {'__len__': ['len(%s._array)', 'len(%s.lengths)', '%s.lengths.size', '%s.lengths.shape[0]'],
           'flatten': ['%s._data.flatten()', '%s._data.ravel().copy()', '%s._data.reshape(-1).copy()'],
           'dtype': ['%s._data.dtype'],
           # number of scalars = size of the concatenation of the rows (len(_data) only counts entries along
           # the ragged axis: it differs as soon as the elements are multi-dimensional)
           'size': ['%s._data.size', 'np.size(%s._data)', '%s._data.flatten().size', '%s.flatten().size', '%s._data.ravel().size',
                    'np.prod(%s._data.shape)', 'int(np.prod(%s._data.shape))', 'math.prod(%s._data.shape)', 'len(%s._data.flatten())',
                    'len(%s._data.ravel())', 'len(%s.flatten())']}
    why_obs = {'size': 'size must return the number of scalars of the flat data (self._data.size == sum of the row sizes == flatten().size); '
                       'len(self._data) counts entries along the ragged axis only and is smaller for multi-dimensional elements'}
    for name, forms in obs.items():
        # the EFFECTIVE definition: the last binding of the name in the class body (Module.functions keeps the last one)
        f = mod.func(CLS + '.' + name)
        ck.analysed(mod, f)
        fo = finfo(mod, f)
        sn = params(f)[0]
        forms = [x.replace('%s', sn) for x in forms]
        r = [x for x in returns_of(f) if x.value is not None]
        if len(r) != 1:
            ck.missing('C05.D6.observers', 'single return of %s.%s' % (CLS, name))
            continue
        v = _classify(_expand(fo, r[0].value), forms, {sn})
        ck.decide(v, 'C05.D6.observers', mod, r[0], CLS + '.' + name, u(r[0]), '%s = %s' % (name, forms[0]),
                  why_obs.get(name, '%s must return %s' % (name, forms[0])))
    # the attribute-style observers are properties (a.size / a.shape / a.dtype / a.starts are values, not bound methods)
    for name in ('dtype', 'shape', 'size', 'starts'):
        f = mod.functions.get(CLS + '.' + name)
        if f is None:
            ck.missing('C05.D6.observers.property', 'definition of %s.%s' % (CLS, name))
            continue
        decs = [dotted(d) or u(d) for d in f.decorator_list]
        if any(d in ('property', 'builtins.property', 'functools.cached_property', 'cached_property') for d in decs):
            ck.check('property' in decs or 'builtins.property' in decs, 'C05.D6.observers.property', mod, f, CLS + '.' + name,
                     '@%s def %s' % (decs[0], name), 'attribute read evaluates the observer on the current state',
                     '%s must be a plain property recomputed on every read (a cached property goes stale after append / __setitem__)' % name)
        elif decs:
            ck.missing('C05.D6.observers.property', 'decorators of %s.%s not recognised: %s' % (CLS, name, ', '.join(decs)[:100]))
        else:
            ck.bad('C05.D6.observers.property', mod, f, CLS + '.' + name, 'def %s (no @property)' % name,
                   '%s is read as an attribute: without @property the read returns a bound method' % name)
    # shape: every result is a tuple whose first entry is the number of rows
    f = mod.func(CLS + '.shape')
    ck.analysed(mod, f)
    fo = finfo(mod, f)
    sn = params(f)[0]
    nrows = [x.replace('%s', sn) for x in ('len(%s.lengths)', '%s.lengths.shape[0]', '%s.lengths.size', 'len(%s._array)', '%s._array.shape[0]', 'len(%s)')]
    n = 0
    for r in returns_of(f):
        if r.value is None:
            continue
        xv = _xc(fo, r.value)
        if not isinstance(xv, ast.Tuple) or not xv.elts:
            ck.missing('C05.D6.observers.shape', 'result of %s.shape is not a tuple display: %s' % (CLS, u(xv)[:100]))
            continue
        n += 1
        v = _classify(xv.elts[0], nrows, {sn})
        ck.decide(v, 'C05.D6.observers.shape', mod, r, CLS + '.shape', u(r)[:160], 'shape[0] = number of rows',
                  'the first entry of shape must be the number of rows (len(self.lengths))')
    ck.floor('C05.D6.observers.shape', n, 1, 'tuple results of shape')


# ---------------------------------------------------------------------------
# D7

def _ndarray_by_construction(fi, e):
    x = _xc(fi, e)
    if isinstance(x, ast.Attribute) and x.attr == 'lengths':
        return True          # the slot only ever holds np.array(...) (D3 of the write side)
    return isinstance(x, ast.Call) and (call_name(x) in _NDARRAY_MAKERS or getattr(x, '_from_np_array', False))


def row_container(ck, mod, rule, quals):
    """The row container `self._array` must hold ONE ROW VIEW PER SLOT whatever
    the row lengths are.  `np.array(<list of row arrays>, dtype=object)` does not
    guarantee that: numpy chooses the rank of the result from the run-time
    shapes of the items, and for items of EQUAL shape it builds an
    (n_rows, L, ...) array of python scalars - element-wise copies, dtype
    object - instead of a 1-D array of n_rows views.  Every store of that form
    into the container is reported unless it sits under a test that the
    lengths are NOT all equal whose operand is an ndarray by construction (for
    a python list `lengths == lengths[0]` is a single False).  Accepted:
    slot-wise filling of np.empty(n, dtype=object), reshape views."""
    total = 0
    for q in quals:
        fn = mod.functions.get(q)
        if fn is None:
            ck.missing(rule, 'function %s' % q)
            continue
        fi = finfo(mod, fn)
        ps = params(fn)
        if not ps:
            continue
        ARR = '%s._array' % ps[0]
        for s in walk_local(fn):
            if not (isinstance(s, ast.Assign) and any(u(t) == ARR for t in s.targets)):
                continue
            total += 1
            v = _xc(fi, s.value)
            objarr = isinstance(v, ast.Call) and call_name(v) in ('np.array', 'np.asarray') and v.args and \
                any(k.arg == 'dtype' and u(k.value) in ("'O'", 'object', "'object'", 'np.object_') for k in v.keywords)
            if not objarr:
                ck.ok(rule, mod, s, '%s: %s' % (q, u(s)[:100]), 'not an np.array(<sequence of rows>, dtype=object) conversion')
                continue
            inner = v.args[0]
            if isinstance(inner, ast.Name):
                # a named sequence of rows (`row_views = partition_list(...)`): WHICH expression the name stands for -
                # the helper call is not a pure temporary, so the expansion above left the name alone
                raw = s.value
                for _ in range(4):
                    if isinstance(raw, ast.Name):
                        raw = fi.resolve(raw)
                    else:
                        break
                if isinstance(raw, ast.Call) and raw.args and isinstance(raw.args[0], ast.Name):
                    try:
                        inner = canon(fi.resolve(raw.args[0]))
                    except Exception:
                        pass
            rows_seq = (isinstance(inner, ast.Call) and (call_name(inner) or '').split('.')[-1] == 'partition_list') or _list_valued(inner) \
                or isinstance(inner, ast.List)
            if not rows_seq:
                ck.missing(rule, '%s: items of the object-array conversion not recognised: %s' % (q, u(inner)[:100]))
                continue
            # a sound "rows are not all equally long" guard
            guarded = False
            for a, node in _atoms(_path_conditions(mod, s, fn)):
                e = _atom_expr(a)
                for lx in {n_.id for n_ in ast.walk(e) if isinstance(n_, ast.Name)} | {'%s.lengths' % ps[0]}:
                    pats = ['not (%s == %s[0]).all()' % (lx, lx), '(%s != %s[0]).any()' % (lx, lx), '(%s - %s[0]).any()' % (lx, lx),
                            'len(set(%s)) != 1' % lx, '1 < len(set(%s))' % lx, 'len(np.unique(%s)) != 1' % lx, '1 < len(np.unique(%s))' % lx]
                    if any(match(p_, canon(e)) is not None for p_ in pats):
                        operand = [n_ for n_ in ast.walk(e) if u(n_) == lx]
                        if operand and _ndarray_by_construction(fi, operand[0]):
                            guarded = True
            if guarded:
                ck.ok(rule, mod, s, '%s: %s' % (q, u(s)[:100]), 'reached only with rows of unequal length (elementwise test on an ndarray)')
                continue
            ck.bad(rule, mod, s, q, 'row container built by np.array(<sequence of row arrays>, dtype=object)',
                   'numpy takes the rank of np.array(<rows>, dtype=object) from the run-time shapes: when all rows have the same length '
                   '(also: a single row) the result is an (n_rows, L) matrix of python objects - copies, dtype object - not a 1-D array '
                   'of row views.  Reads then return object rows detached from the flat data (a[0].dtype is object, a[0:2] / a[[0]] turn '
                   'the whole array into dtype object, a[i][j] = v is not seen by a[i, j]) and writers that re-run the constructor on the '
                   'container decay the flat data to dtype object.  A test `lengths == lengths[0]` on the caller\'s list does not '
                   'protect the store (list == int is one False).  The container must be filled slot by slot '
                   '(np.empty(n, dtype=object); c[i] = row)')
    return total


def _data_aliases_resolved(mod, fn, fi, v, DATA):
    """`v` with every local alias of the flat data (see _Provenance.alias_of_root) spelled as the slot itself."""
    try:
        P = _Provenance(mod, fn, fi, DATA)
        hits = [n for n in ast.walk(v) if isinstance(n, ast.Name) and isinstance(n.ctx, ast.Load) and P.alias_of_root(n)]
        for n in hits:
            v = _replace_node(v, n, ast.copy_location(_copy.deepcopy(_parse(DATA)), n))
    except Exception:
        pass
    return v


def _trailing_shape(v, DATA):
    """reshape arguments of `<DATA>.reshape(...)`: (leading shape entries, element dimensions kept?)"""
    args = list(v.args)
    trailing = False
    if len(args) == 1 and isinstance(args[0], ast.BinOp) and isinstance(args[0].op, ast.Add) and \
            isinstance(args[0].left, (ast.Tuple, ast.List)) and any(
                match(f, args[0].right) is not None for f in ('%s.shape[1:]' % DATA, 'tuple(%s.shape[1:])' % DATA, '%s.shape[1:None]' % DATA)):
        trailing = True
        args = [args[0].left]
    if len(args) == 1 and isinstance(args[0], (ast.Tuple, ast.List)):
        args = list(args[0].elts)
    return args, trailing


def trailing_dims(ck, mod, rule):
    """The flat data may carry the dimensions of one element behind the ragged
    axis (frames x atoms x 3, rows of feature vectors: shape, size,
    partition_list and ra.load all provide for it).  A rectangular row view
    `self._data.reshape(rows, L)` with a two-entry target shape re-cuts those
    dimensions as if they were row entries; the target shape must end in
    `self._data.shape[1:]`.  Exempt: the single-row view of a sequence of
    scalars (one-dimensional by the branch it sits in: `not
    _is_iterable(array[0])`)."""
    q = CLS + '.__init__'
    fn = mod.functions.get(q)
    if fn is None:
        ck.missing(rule, 'constructor %s' % q)
        return 0
    fi = finfo(mod, fn)
    selfn = params(fn)[0]
    DATA, ARR, SL = '%s._data' % selfn, '%s._array' % selfn, '%s.lengths' % selfn
    n = 0
    for s in walk_local(fn):
        if not (isinstance(s, ast.Assign) and any(u(t) == ARR for t in s.targets)):
            continue
        v = canon(_data_aliases_resolved(mod, fn, fi, _expand(fi, s.value), DATA))
        if not (isinstance(v, ast.Call) and isinstance(v.func, ast.Attribute) and v.func.attr == 'reshape' and u(v.func.value) == DATA):
            continue
        n += 1
        args, trailing = _trailing_shape(v, DATA)
        scalars = False
        conds = _path_conditions(mod, s, fn)
        for a, node in _atoms(conds) + _named_atoms(fi, conds):
            if not isinstance(a, Cmp) and a[2] is False and isinstance(a[1], ast.Call) and (call_name(a[1]) or '').split('.')[-1] == '_is_iterable' \
                    and a[1].args and isinstance(a[1].args[0], ast.Subscript) and const_value(a[1].args[0].slice, 'x') == 0:
                scalars = True
        if len(args) != 2 and not trailing:
            ck.missing(rule, 'target shape of the row view not recognised: %s' % u(v)[:100])
            continue
        ck.check(trailing or scalars, rule, mod, s, q, 'rectangular row view of the flat data (reshape of %s)' % DATA,
                 'the dimensions of one element are carried over (... + self._data.shape[1:])' if trailing else
                 'single row of scalars: the flat data is one-dimensional on this branch',
                 'the equal-length fast path reshapes the flat data to exactly (rows, row length); for flat data of shape (N, d...) '
                 '- multi-dimensional elements, e.g. RaggedArray(coords of shape (6, 3), lengths=np.array([2, 2, 2])) or ra.load of '
                 'equally long trajectories of feature vectors - numpy re-cuts the N*d numbers into N*d/L rows of L scalars: len(), '
                 'a[i], iteration, row slices and ra.save see the wrong number of rows with fragments of neighbouring frames. '
                 'The target shape must keep the element dimensions: (rows, L) + self._data.shape[1:]')
    return n


# Sixth wave: ONE memory behind both representations.  `_data` (read by a[i, j], 2-D slices, paired indices, masks,
# flatten, dtype) and `_array` (read by a[i], row slices, iteration, len) are two representations of the same rows; the
# class keeps them equal by making the row container a VIEW of the flat data (reshape / partition into slices), so
# a write through either is seen by both.  Necessary condition: every value stored into the row container is derived
# from the flat data by view-preserving steps (or is the empty container).  A container taken from somewhere else -
# the caller's input, a copy - is a second memory: b[i][j] = v (or a later change of the caller's rows) shows in a[i]
# and iteration but not in a[i, j] / a[:, j] / flatten(); rows of another dtype than the concatenation are read back
# with a[i].dtype != a.dtype.

_VIEW_METHODS = {'reshape', 'view', 'ravel', 'squeeze', 'swapaxes', 'transpose'}
_COPY_METHODS = {'copy', 'astype', 'tolist', 'flatten', 'repeat', 'take', 'compress'}
_COPY_FUNCS = {'np.copy', 'copy.copy', 'copy.deepcopy', 'np.concatenate', 'np.hstack', 'np.vstack', 'np.stack', 'np.repeat', 'np.tile',
               'np.take', 'np.ascontiguousarray', 'np.array', 'np.asarray', 'np.asanyarray', 'list', 'tuple'}
_SEQ_OF = ('np.array', 'np.asarray', 'np.asanyarray', 'list', 'tuple')
_BUILTIN_NAMES = set(dir(__import__('builtins')))
_FRESH = {'np.empty', 'np.zeros', 'np.ones', 'np.full', 'np.empty_like', 'np.zeros_like'}


def _basic_index(ix):
    """True: basic indexing (a view) / False: advanced (a copy) / None: cannot tell from the syntax."""
    items = ix.elts if isinstance(ix, ast.Tuple) else [ix]
    out = True
    for it in items:
        if isinstance(it, ast.Slice) or (isinstance(it, ast.Constant) and (it.value is None or it.value is Ellipsis or
                                                                           (isinstance(it.value, int) and not isinstance(it.value, bool)))):
            continue
        if isinstance(it, (ast.List, ast.ListComp, ast.Compare)):
            return False
        out = None
    return out


def _worst(kinds):
    """Combine provenance verdicts of alternatives / parts: (kind, witness)."""
    kinds = [k for k in kinds if k is not None]
    for want in ('foreign', 'copy', 'unknown', 'fresh', 'view', 'empty', 'neutral'):
        for k in kinds:
            if k[0] == want:
                return k
    return ('neutral', None)


class _Provenance:
    """Where the memory of a value comes from, relative to ONE designated buffer (the text `root`, e.g. `self._data`):
    'view' (reached from the buffer by view-preserving steps: basic slices, reshape, partition into slices, a sequence /
    object array of such views), 'copy' (a recognised copy-making step applied to the buffer), 'foreign' (built from a
    parameter of the function without touching the buffer), 'empty' (a container without entries), 'neutral' (constants,
    sizes), 'unknown'.  Names are followed through ALL their reaching definitions (no purity requirement: this is about
    where memory comes from, not about values), a fresh object container through the values stored into its slots."""

    def __init__(self, mod, fn, fi, root, view_helpers=('partition_list',)):
        self.mod, self.fn, self.fi, self.root = mod, fn, fi, root
        self.selfn = root.split('.')[0]
        self.stored = set(params(fn)) | {n.id for n in walk_local(fn) if isinstance(n, ast.Name) and isinstance(n.ctx, ast.Store)}
        self.view_helpers = view_helpers
        self.bound = set()

    def _rebound_between(self, site, use):
        """Is the designated buffer rebound on a path definition -> use?"""
        for s in walk_local(self.fn):
            if isinstance(s, ast.Assign) and any(u(t) == self.root for t in s.targets) and s is not site and s is not use:
                try:
                    if self.fi.cfg.reachable(site, s, avoiding=[use]) and self.fi.cfg.reachable(s, use, avoiding=[site]):
                        return True
                except Exception:
                    return True
        return False

    def of(self, e, use, depth=8):
        if depth <= 0:
            return ('unknown', e)
        if isinstance(e, ast.IfExp):
            return _worst([self.of(e.body, use, depth - 1), self.of(e.orelse, use, depth - 1)])
        if isinstance(e, ast.Constant):
            return ('neutral', e)
        if isinstance(e, ast.Attribute) and u(e) == self.root:
            return ('view', e)
        if isinstance(e, ast.Attribute) and e.attr == 'T':
            return self.of(e.value, use, depth - 1)
        if isinstance(e, ast.Attribute):
            # shape / size / dtype ... of anything: no memory; another slot of self: unknown
            if e.attr in ('shape', 'size', 'ndim', 'dtype', 'lengths', 'starts'):
                return ('neutral', e)
            if isinstance(e.value, ast.Name) and e.value.id == self.selfn:
                return ('unknown', e)
            k = self.of(e.value, use, depth - 1)
            return k if k[0] == 'foreign' else ('unknown', e)
        if isinstance(e, ast.Name):
            if e.id in self.bound or (e.id in _BUILTIN_NAMES and e.id not in self.stored):
                return ('neutral', e)
            if e.id == self.selfn:
                return ('unknown', e)
            return self.of_name(e, use, depth)
        if isinstance(e, (ast.List, ast.Tuple)):
            if not e.elts:
                return ('empty', e)
            return _worst([self.of(x, use, depth - 1) for x in e.elts])
        if isinstance(e, (ast.ListComp, ast.GeneratorExp)):
            saved = set(self.bound)
            its = []
            for g in e.generators:
                its.append(self.of(g.iter, use, depth - 1))
                self.bound |= {t.id for t in ast.walk(g.target) if isinstance(t, ast.Name)}
            k = self.of(e.elt, use, depth - 1)
            self.bound = saved
            if k[0] == 'neutral':
                # the elements are the loop variables themselves / computed from them: they carry the memory of the iterables
                k = _worst(its) if any(isinstance(n, ast.Name) and n.id not in saved for n in ast.walk(e.elt)) else k
            return k
        if isinstance(e, ast.Subscript):
            k = self.of(e.value, use, depth - 1)
            if k[0] != 'view':
                return k
            b = _basic_index(e.slice)
            return k if b else (('copy', e) if b is False else ('unknown', e))
        if isinstance(e, ast.Starred):
            return self.of(e.value, use, depth - 1)
        if isinstance(e, ast.Call):
            cn = call_name(e) or ''
            args = list(e.args) + [k.value for k in e.keywords if k.arg not in ('dtype', 'copy', 'order', 'ndmin', 'subok')]
            if isinstance(e.func, ast.Attribute) and not cn.startswith(('np.', 'numpy.', 'copy.', 'itertools.')):
                recv = self.of(e.func.value, use, depth - 1)
                if recv[0] in ('view', 'copy', 'foreign', 'unknown'):
                    if e.func.attr in _VIEW_METHODS:
                        return recv
                    if e.func.attr in _COPY_METHODS and recv[0] == 'view':
                        return ('copy', e)
                    return recv if recv[0] != 'view' else ('unknown', e)
            if cn.split('.')[-1] in self.view_helpers and e.args:
                return self.of(e.args[0], use, depth - 1)
            if cn in ('enumerate', 'zip', 'reversed', 'iter', 'itertools.chain') and e.args:
                # the items carry the memory of the iterated sequences; which component is used is not tracked: mixed -> unknown
                parts = [k for k in (self.of(a, use, depth - 1) for a in e.args) if k[0] != 'neutral']
                if not parts:
                    return ('neutral', e)
                return parts[0] if len({k[0] for k in parts}) == 1 else ('unknown', e)
            if cn in _FRESH:
                n0 = const_value(e.args[0], None) if e.args else None
                return ('empty', e) if n0 == 0 or (isinstance(e.args[0] if e.args else None, (ast.Tuple, ast.List)) and
                                                   e.args[0].elts and const_value(e.args[0].elts[0], None) == 0) else ('fresh', e)
            if cn in _SEQ_OF and e.args:
                inner = e.args[0]
                k = self.of(inner, use, depth - 1)
                if k[0] != 'view':
                    return k
                # a python sequence of views -> container of views; an ndarray view handed to a copying constructor -> copy
                if self._is_sequence(inner, use):
                    return k
                if cn in ('np.asarray', 'np.asanyarray') and not any(kw.arg == 'dtype' for kw in e.keywords):
                    return k
                cp = next((kw.value for kw in e.keywords if kw.arg == 'copy'), None)
                if cn == 'np.array' and cp is not None and const_value(cp, None) is False:
                    return k
                if not self._is_one_array(inner):
                    return ('unknown', e)          # sequence or array? (a name bound on several paths, a helper)
                return ('copy', e) if cp is None or const_value(cp, None) is True else ('unknown', e)
            parts = [self.of(a, use, depth - 1) for a in args]
            w = _worst(parts)
            if w[0] == 'view':
                return ('copy', e) if cn in _COPY_FUNCS else ('unknown', e)
            if w[0] in ('copy', 'unknown', 'foreign'):
                return w
            return ('neutral', e)
        if isinstance(e, (ast.BinOp, ast.UnaryOp, ast.Compare, ast.BoolOp)):
            w = _worst([self.of(c, use, depth - 1) for c in ast.iter_child_nodes(e) if isinstance(c, ast.expr)])
            return ('copy', e) if w[0] == 'view' else w
        return ('unknown', e)

    def _is_sequence(self, e, use):
        """The expression is a python sequence of row views (not one ndarray): a display, a comprehension, the
        partitioning helper, list(...) of those - or a name bound to one."""
        for _ in range(6):
            if isinstance(e, ast.Name) and e.id not in self.bound:
                try:
                    e2 = self.fi.resolve(getattr(e, '_orig', e))
                except Exception:
                    return False
                if e2 is e:
                    acc = _accumulated_list(self.fi, getattr(e, '_orig', e)) if isinstance(getattr(e, '_orig', e), ast.Name) else None
                    return acc is not None
                e = e2
                continue
            break
        if isinstance(e, (ast.List, ast.Tuple, ast.ListComp, ast.GeneratorExp)):
            return True
        if isinstance(e, ast.Call):
            cn = call_name(e) or ''
            if cn.split('.')[-1] in self.view_helpers or cn in ('list', 'tuple'):
                return True
        return False

    def _is_one_array(self, e):
        """The expression certainly denotes ONE ndarray sharing the buffer (not a python sequence of views): the buffer,
        an alias of it, a basic slice / reshape of such."""
        for _ in range(6):
            if isinstance(e, ast.Name):
                if self.alias_of_root(e):
                    return True
                try:
                    e2 = self.fi.resolve(getattr(e, '_orig', e))
                except Exception:
                    return False
                if e2 is e or isinstance(e2, ast.Name) and e2.id == e.id:
                    return False
                e = e2
            elif isinstance(e, ast.Subscript):
                e = e.value
            elif isinstance(e, ast.Call) and isinstance(e.func, ast.Attribute) and e.func.attr in _VIEW_METHODS:
                e = e.func.value
            else:
                break
        return isinstance(e, ast.Attribute) and u(e) == self.root

    def alias_of_root(self, e, use=None):
        """A local alias of the buffer: every definition of the name that reaches the use is handed to the buffer
        (`ROOT = name`, or `ROOT = name = <expr>`) on every path definition -> use, the buffer not rebound afterwards
        (an UNBOUND path is a NameError, not a value)."""
        if not isinstance(e, ast.Name):
            return False
        o = getattr(e, '_orig', e)
        try:
            defs = self.fi.defs_of_use(o)
            use_stmt = self.fi.stmt(o) or use
            aliases = [s for s in walk_local(self.fn) if isinstance(s, ast.Assign) and any(u(t) == self.root for t in s.targets)]
            sites = [d for d in defs if d != 'UNBOUND']
            if not (aliases and sites and use_stmt is not None):
                return False
            for d in sites:
                if d == 'PARAM':
                    # the parameter itself was made the buffer (`ROOT = param`) on every path entry -> use
                    through = [s for s in aliases if isinstance(s.value, ast.Name) and s.value.id == e.id and
                               self.fi.defs_of_use(s.value) == {'PARAM'} and not self._rebound_between(s, use_stmt)]
                    if not through or self.fi.cfg.reachable(ENTRY, use_stmt, avoiding=through):
                        return False
                    continue
                if d in aliases and any(isinstance(t, ast.Name) and t.id == e.id for t in d.targets):
                    if self._rebound_between(d, use_stmt):
                        return False
                    continue
                through = [s for s in aliases if isinstance(s.value, ast.Name) and s.value.id == e.id and
                           self.fi.defs_of_use(s.value) == {d} and not self._rebound_between(s, use_stmt)]
                if not through or self.fi.cfg.reachable(d, use_stmt, avoiding=through):
                    return False
            return True
        except Exception:
            return False

    def of_name(self, e, use, depth):
        o = getattr(e, '_orig', e)
        try:
            defs = self.fi.defs_of_use(o)
        except Exception:
            return ('unknown', e)
        if not defs or 'UNBOUND' in defs and len(defs) == 1:
            return ('unknown', e)
        if self.alias_of_root(e, use):
            return ('view', e)
        out = []
        for site in defs:
            if site == 'UNBOUND':
                continue
            if site == 'PARAM':
                out.append(('foreign', e))
                continue
            v = self.fi.def_value(site, e.id)
            if v is None:
                if isinstance(site, ast.For):
                    # a loop variable carries the memory of what is iterated
                    out.append(self.of(site.iter, site, depth - 1))
                    continue
                out.append(('unknown', e))
                continue
            if self._rebound_between(site, use):
                out.append(('unknown', e))
                continue
            k = self.of(v, site, depth - 1)
            stores = [s for s in self.fi._mutated_in_place(e.id)]
            if k[0] in ('fresh', 'empty') and stores:
                # a fresh container filled slot by slot / by append: the memory of what is put into it
                put = []
                for s in stores:
                    if isinstance(s, ast.Assign) and all(isinstance(t, ast.Subscript) and isinstance(t.value, ast.Name) and t.value.id == e.id
                                                         for t in s.targets):
                        put.append(self.of(s.value, s, depth - 1))
                    elif isinstance(s, ast.Expr) and _is_append(s) and isinstance(s.value, ast.Call) and s.value.args:
                        put.append(self.of(s.value.args[0], s, depth - 1))
                    else:
                        put.append(('unknown', s))
                k = _worst(put) if put else k
                if k[0] == 'neutral':
                    k = ('unknown', e)
            elif stores and k[0] == 'view':
                pass        # writing into a view of the buffer writes the buffer
            elif stores:
                k = k if k[0] in ('foreign', 'copy') else ('unknown', e)
            out.append(k)
        return _worst(out)


def row_view(ck, mod, rule):
    """Every store into the row container `self._array`, in every method of the class, binds a view of the flat
    data `self._data` (or the empty container)."""
    n = 0
    for q, fn in sorted(mod.functions.items()):
        if not q.startswith(CLS + '.') or q.count('.') != 1:
            continue
        ps = params(fn)
        if not ps:
            continue
        ARR, DATA = '%s._array' % ps[0], '%s._data' % ps[0]
        stores = [s for s in walk_local(fn) if isinstance(s, ast.Assign) and any(u(t) == ARR for t in s.targets)]
        if not stores:
            continue
        fi = finfo(mod, fn)
        P = _Provenance(mod, fn, fi, DATA)
        for s in stores:
            n += 1
            try:
                kind, wit = P.of(s.value, s)
            except Exception as ex:          # an engine limitation must not become a verdict
                ck.missing(rule, '%s: provenance of %s not computed (%r)' % (q, u(s)[:80], ex))
                continue
            if kind in ('view', 'empty'):
                ck.ok(rule, mod, s, '%s: %s' % (q, u(s)[:100]),
                      'the row container is a view of the flat data' if kind == 'view' else 'the container without rows')
            elif kind in ('foreign', 'copy'):
                what = u(wit)[:80] if isinstance(wit, ast.AST) else '?'
                ck.bad(rule, mod, s, q, 'row container bound to memory other than the flat data',
                       '%s stores `%s` into %s: %s.  The row container (read by a[i], row slices, iteration) and the flat data (read by '
                       'a[i, j], 2-D slices, paired indices, masks, flatten, dtype) must be ONE memory - the container a view of %s '
                       '(reshape / partition into slices): otherwise a write through a row view b[i][j] = v, or a later change of the '
                       'caller\'s rows, shows in b[i] and iteration but not in b[i, j] / b[:, j] / b.flatten(), and rows of a dtype other '
                       'than that of the concatenation are read back with a[i].dtype != a.dtype'
                       % (q, what, ARR, 'a value built from a parameter without going through the flat data' if kind == 'foreign'
                          else 'a copy-making step detaches it from the flat data', DATA))
            else:
                ck.missing(rule, '%s: cannot tell whether %s is a view of the flat data (%s)' % (
                    q, u(s)[:100], u(wit)[:60] if isinstance(wit, ast.AST) else kind))
    ck.floor(rule, n, 3, 'stores into the row container')
    return n


def d7_constructor_and_lists(ck, mod, container=True):
    """Rectangular fast path of the constructor and the row x column product
    used for (rows, column-list) indices."""
    rule = 'C05.D7.row-major'
    q = CLS + '.__init__'
    fn = mod.func(q)
    ck.analysed(mod, fn)
    fi = finfo(mod, fn)
    ps = params(fn)
    selfn = ps[0]
    LP = 'lengths' if 'lengths' in ps else (ps[2] if len(ps) > 2 else None)
    DATA, ARR, SL = '%s._data' % selfn, '%s._array' % selfn, '%s.lengths' % selfn
    scope = {selfn, LP}
    why = ('the rectangular row view must be self._data.reshape(<number of rows or -1>, <row length>): with the arguments '
           'swapped the view has row-length rows of n-rows elements, so a[i], iteration and len() disagree with the rows')
    n = 0
    for s in walk_local(fn):
        if not (isinstance(s, ast.Assign) and any(u(t) == ARR for t in s.targets)):
            continue
        v = canon(_data_aliases_resolved(mod, fn, fi, _expand(fi, s.value), DATA))
        if not (isinstance(v, ast.Call) and isinstance(v.func, ast.Attribute) and v.func.attr == 'reshape' and u(v.func.value) == DATA):
            continue
        n += 1
        args, trailing = _trailing_shape(v, DATA)
        shape = ast.Tuple(elts=args, ctx=ast.Load())
        forms = []
        for lx in (LP, SL):
            forms += ['(-1, %s[0])' % lx] + ['(%s, %s[0])' % (nr, lx) for nr in
                                            ('len(%s)' % LP, 'len(%s)' % SL, '%s.shape[0]' % LP, '%s.shape[0]' % SL, '%s.size' % LP, '%s.size' % SL)]
        # a single row: allowed when the lengths just assigned hold ONE entry
        blk = mod.parent.get(s)
        sib = []
        for fld in ('body', 'orelse', 'finalbody'):
            b = getattr(blk, fld, None)
            if isinstance(b, list) and any(x is s for x in b):
                sib = b
        one_row = any(isinstance(x, ast.Assign) and any(u(t) == SL for t in x.targets) and
                      (match('np.array([__], dtype=__)', x.value) is not None or match('np.array([__])', x.value) is not None) for x in sib)
        if one_row:
            forms += ['(1, %s[0])' % SL, '(1, -1)', '(1, len(%s))' % DATA]
        vv = _classify(shape, forms, scope)
        ck.decide(vv, rule + '.reshape', mod, s, q, u(s)[:200] if u(canon(s.value)) == u(v) else '%s = %s' % (ARR, u(v)[:200]),
                  'equal-length fast path: rows x row-length view of the flat data', why)
        # the fast path over caller-supplied lengths is taken only when all lengths are equal
        if any(isinstance(x, ast.Name) and x.id == LP for x in ast.walk(shape)):
            gforms = ['(%s == %s[0]).all()' % (LP, LP), 'not (%s != %s[0]).any()' % (LP, LP), 'not (%s - %s[0]).any()' % (LP, LP),
                      'len(set(%s)) == 1' % LP, '(%s[0] == %s).all()' % (LP, LP), 'len(np.unique(%s)) == 1' % LP]
            verdicts = []
            for a, node in _xatoms(fi, _path_conditions(mod, s, fn)):
                e = _atom_expr(a)
                xe = _expand(fi, e)
                if not _uses_beyond_none(xe, LP):
                    continue
                verdicts.append((_classify(xe, gforms, {LP}), node, e))
            hit = [x for x in verdicts if x[0][0] == 'match']
            near = [x for x in verdicts if x[0][0] == 'near']
            gwhy = 'the reshape fast path must be guarded by np.all(lengths == lengths[0])'
            if hit:
                ck.ok(rule + '.reshape', mod, hit[0][1], u(hit[0][2]), 'the fast path is taken only when all lengths are equal')
            elif near:
                ck.bad(rule + '.reshape', mod, near[0][1], q, u(near[0][2]), gwhy)
            elif verdicts:
                ck.missing(rule + '.reshape', 'guard of the reshape fast path not recognised: %s' % u(verdicts[0][2])[:120])
            else:
                ck.bad(rule + '.reshape', mod, s, q, 'equal-length test', gwhy)
    ck.floor(rule + '.reshape', n, 2, 'reshape views in the constructor')
    trailing_dims(ck, mod, rule + '.reshape.trailing-dims')
    if container:
        row_container(ck, mod, 'C05.D7.row-container', [q])

    F = '_get_iis_from_list'
    fl = mod.func(F)
    ck.analysed(mod, fl)
    fil = finfo(mod, fl)
    if len(params(fl)) < 2:
        ck.missing(rule + '.product', 'parameters of _get_iis_from_list')
        return
    a, b = params(fl)[:2]
    n = 0
    for r in returns_of(fl):
        if not (isinstance(r.value, ast.Tuple) and len(r.value.elts) == 2):
            ck.missing(rule + '.product', 'return value of _get_iis_from_list is not (index pairs, new lengths): %s' % u(r.value)[:100])
            continue
        n += 1
        pairs = _xc(fil, r.value.elts[0])
        inner = 'list(itertools.product(%s, %s))' % (a, b)
        v = _classify(pairs, ['np.array(%s).T' % inner, 'np.array(%s).transpose()' % inner, 'np.transpose(np.array(%s))' % inner,
                              'np.asarray(%s).T' % inner, 'np.transpose(%s)' % inner, 'np.array(list(zip(*itertools.product(%s, %s))))' % (a, b),
                              'np.array([np.meshgrid(%s, %s, indexing="ij")[0].ravel(), np.meshgrid(%s, %s, indexing="ij")[1].ravel()])' % (a, b, a, b),
                              'np.array([np.repeat(%s, len(%s)), np.tile(%s, len(%s))])' % (a, b, b, a)], {a, b})
        ck.decide(v, rule + '.product', mod, r, F, 'pairs: %s' % u(pairs)[:200],
                  '(row, column) pairs enumerated row-major: all columns of the first row, then the next row',
                  'the index pairs must be itertools.product(rows, columns) (row-major) transposed into (rows, cols): the flat result is '
                  'chunked row by row by new_lengths, so a column-major enumeration (e.g. np.meshgrid default) scatters values into '
                  'transposed slots')
        nl = _xc(fil, r.value.elts[1])
        v = _classify(nl, ['list(itertools.repeat(len(%s), len(%s)))' % (b, a), '[len(%s)] * len(%s)' % (b, a), 'len(%s) * [len(%s)]' % (a, b),
                           '[len(%s) for __ in %s]' % (b, a), 'np.full(len(%s), len(%s))' % (a, b), 'np.repeat(len(%s), len(%s))' % (b, a),
                           '[len(%s) for __ in range(len(%s))]' % (b, a)], {a, b})
        ck.decide(v, rule + '.product', mod, r, F, 'new lengths: %s' % u(nl)[:200],
                  'every selected row contributes len(columns) elements', 'new_lengths must be len(columns) repeated len(rows) times')
    ck.floor(rule + '.product', n, 1, 'return of (index pairs, new lengths)')


# ---------------------------------------------------------------------------
# Fifth wave: case tables.  A loop-free function is run symbolically under each case of a FINITE abstract
# domain (one / many entries, no / some negative entries, parameter None / supplied, input empty / non-empty ...);
# a test is evaluated from its syntactic form (three-valued: unknown tests are followed both ways), the statements
# executed on a path are recorded as events in located roles, and a judge compares them with what the property
# needs in that case.  VIOLATION only when every path of the case shows a recognised wrong event; paths the
# rule cannot read give analysis-incomplete.  Nothing of the analysed code is executed.

INF = float('inf')


def _cmp_iv(op, a, b):
    """Three-valued comparison of two integer intervals (lo, hi)."""
    if op in (ast.Gt, ast.GtE):
        op, a, b = (ast.Lt if op is ast.Gt else ast.LtE), b, a
    if op is ast.Lt:
        return True if a[1] < b[0] else (False if a[0] >= b[1] else None)
    if op is ast.LtE:
        return True if a[1] <= b[0] else (False if a[0] > b[1] else None)
    if op in (ast.Eq, ast.NotEq):
        if a[0] == a[1] == b[0] == b[1]:
            v = True
        elif a[1] < b[0] or b[1] < a[0]:
            v = False
        else:
            return None
        return v if op is ast.Eq else not v
    return None


def _determinate(mod, fn, node, ev):
    """Every if-statement enclosing `node` was decided by the abstract case on this path."""
    val = {}
    for e in ev:
        if e[0] == 'test':
            val[id(e[3])] = e[2]
    conds = _path_conditions(mod, node, fn)
    return bool(conds) and all(val.get(id(n)) is not None for _, _, n in conds)


class _DropPredicates(ast.NodeTransformer):
    def visit_Call(self, n):
        self.generic_visit(n)
        if (call_name(n) or '').split('.')[-1] == '_is_iterable' and len(n.args) == 1 and not n.keywords:
            return n.args[0]
        return n


def _pure_pred(e):
    """_pure, with the module's own type predicate _is_iterable(x) (two isinstance tests) accepted as pure."""
    return _pure(_DropPredicates().visit(_copy.deepcopy(e)))


def _unconditional(node):
    """The sub-expressions of a statement / expression that are evaluated whenever it is (not the later operands
    of and / or, the arms of a conditional expression, the bodies of comprehensions and lambdas)."""
    todo = [node]
    while todo:
        n = todo.pop()
        yield n
        if isinstance(n, ast.BoolOp):
            todo.append(n.values[0])
        elif isinstance(n, ast.IfExp):
            todo.append(n.test)
        elif isinstance(n, (ast.ListComp, ast.SetComp, ast.GeneratorExp, ast.DictComp)):
            todo.append(n.generators[0].iter)
        elif isinstance(n, (ast.Lambda, ast.FunctionDef, ast.AsyncFunctionDef, ast.ClassDef)):
            continue
        else:
            todo.extend(ast.iter_child_nodes(n))


def _cp_state(st):
    return {k: (dict(v) if isinstance(v, dict) else (set(v) if isinstance(v, set) else v)) for k, v in st.items()}


def _exc_name(r):
    if r.exc is None:
        return 'raise'
    return (dotted(r.exc.func if isinstance(r.exc, ast.Call) else r.exc) or '?').split('.')[-1]


def _is_none(e):
    return isinstance(e, ast.Constant) and e.value is None


class _CaseWalk:
    """Path enumeration of one function under one abstract case.
    State: {'none': {parameter: is None?}, 'env': {temporary: value on this path}, ...};
    events: (kind, subject, payload, node); ends: return / raise / fall / opaque."""

    def __init__(self, mod, fn, keep=()):
        self.mod, self.fn = mod, fn
        self.fi = finfo(mod, fn)
        self.params = set(params(fn))
        self.keep = set(keep) | self.params
        self.budget = 0

    # --- hooks
    def ival(self, x, st):
        k = const_value(x, None)
        if isinstance(k, int) and not isinstance(k, bool):
            return (k, k)
        return None

    def batom(self, x, st, ev, sure):
        return None

    def effect(self, s, st, ev):
        pass

    def scan(self, node, st, ev):
        pass

    # --- machinery
    def xp(self, e, st, stop=()):
        env = st.get('env') or {}
        for _ in range(4):
            e2 = _subst(e, env)
            if e2 is e:
                break
            e = e2
        try:
            return canon(_expand(self.fi, e, stop=tuple(stop) or tuple(getattr(self, 'dims', ())), strict=False))
        except Exception:
            return canon(e)

    def none_uses(self, node, st, ev):
        """A parameter that is None in this case, read otherwise than in an `is None` test or as an argument
        handed on to a function of the module."""
        nn = {p for p, v in st['none'].items() if v is True}
        if not nn:
            return
        names = [n for n in ast.walk(node) if isinstance(n, ast.Name) and isinstance(n.ctx, ast.Load) and n.id in nn]
        if not names:
            return
        if any(isinstance(x, (ast.IfExp, ast.BoolOp)) for x in ast.walk(node)):
            return
        skip = set()
        for c in ast.walk(node):
            if isinstance(c, ast.Compare) and len(c.ops) == 1 and isinstance(c.ops[0], (ast.Is, ast.IsNot, ast.Eq, ast.NotEq)):
                for side in (c.left, c.comparators[0]):
                    if isinstance(side, ast.Name):
                        skip.add(id(side))
            if isinstance(c, ast.Call):
                direct = list(c.args) + [k.value for k in c.keywords]
                known_np = (call_name(c) or '').startswith(('np.', 'numpy.'))
                for a in direct:
                    if isinstance(a, ast.Name) and not known_np:
                        skip.add(id(a))
        for n in names:
            if id(n) not in skip:
                ev.append(('none-use', n.id, None, node))
                return

    def truth(self, t, st, ev, sure=True):
        if isinstance(t, ast.UnaryOp) and isinstance(t.op, ast.Not):
            v = self.truth(t.operand, st, ev, sure)
            return None if v is None else (not v)
        if isinstance(t, ast.BoolOp):
            is_and = isinstance(t.op, ast.And)
            vs = []
            for x in t.values:
                v = self.truth(x, st, ev, sure)
                vs.append(v)
                if v is (False if is_and else True):
                    break                   # short circuit: the remaining operands are not evaluated
                if v is None:
                    sure = False
            if is_and:
                return False if False in vs else (None if None in vs else True)
            return True if True in vs else (None if None in vs else False)
        x = self.xp(t, st)
        while isinstance(x, ast.Call) and call_name(x) == 'bool' and len(x.args) == 1 and not x.keywords:
            x = x.args[0]
        if isinstance(x, ast.BoolOp) or (isinstance(x, ast.UnaryOp) and isinstance(x.op, ast.Not)):
            if u(x) != u(canon(t)):
                return self.truth(x, st, ev, sure)
            return None
        if sure:
            self.scan(x, st, ev)
            self.none_uses(x, st, ev)
        v = self.batom(x, st, ev, sure)
        if v is not None:
            return v
        if isinstance(x, ast.Compare) and len(x.ops) == 1:
            a, b, op = x.left, x.comparators[0], type(x.ops[0])
            if op in (ast.Is, ast.IsNot):
                for p_, q_ in ((a, b), (b, a)):
                    if _is_none(q_) and isinstance(p_, ast.Name) and st['none'].get(p_.id) is not None:
                        k = st['none'][p_.id]
                        return k if op is ast.Is else not k
                return None
            ia, ib = self.ival(a, st), self.ival(b, st)
            if ia is not None and ib is not None:
                return _cmp_iv(op, ia, ib)
            return None
        iv = self.ival(x, st)
        if iv is not None:
            if iv == (0, 0):
                return False
            if iv[0] > 0:
                return True
        return None

    def bookkeeping(self, s, st):
        """None-ness of rebound parameters and the values of pure temporaries along the path."""
        env, none = st['env'], st['none']
        tg = []
        if isinstance(s, ast.Assign):
            tg = s.targets
        elif isinstance(s, (ast.AugAssign, ast.AnnAssign)):
            tg = [s.target]
        for t in tg:
            for nm in target_names(t):
                env.pop(nm, None)
                if nm in none:
                    none[nm] = None
        if isinstance(s, ast.Assign) and len(s.targets) == 1 and isinstance(s.targets[0], ast.Name):
            nm = s.targets[0].id
            if nm in none:
                none[nm] = True if _is_none(s.value) else False
            if nm not in self.keep and _pure_pred(s.value) and nm not in names_loaded(s.value):
                env[nm] = s.value

    def paths(self, st, budget=3000):
        self.budget = budget
        return self._walk(list(self.fn.body), st, [])

    def _walk(self, stmts, st, ev):
        for i, s in enumerate(stmts):
            self.budget -= 1
            if self.budget < 0:
                return [(ev, 'opaque', s)]
            rest = stmts[i + 1:]
            if isinstance(s, ast.If):
                t = self.truth(s.test, st, ev)
                ev = ev + [('test', None, t, s)]
                out = []
                if t is not False:
                    out += self._walk(list(s.body) + rest, _cp_state(st), list(ev))
                if t is not True:
                    out += self._walk(list(s.orelse) + rest, _cp_state(st), list(ev))
                return out
            if isinstance(s, ast.Try):
                out = self._walk(list(s.body) + list(s.orelse) + list(s.finalbody) + rest, _cp_state(st), list(ev))
                for h in s.handlers:
                    out += self._walk(list(h.body) + list(s.finalbody) + rest, _cp_state(st), list(ev) + [('handler', None, None, h)])
                return out
            if isinstance(s, ast.With):
                return self._walk(list(s.body) + rest, st, ev)
            if isinstance(s, (ast.For, ast.While, ast.AsyncFor, ast.AsyncWith)) or type(s).__name__ in ('Match', 'TryStar'):
                return [(ev, 'opaque', s)]
            if isinstance(s, ast.Raise):
                return [(ev, 'raise', s)]
            if isinstance(s, (ast.FunctionDef, ast.AsyncFunctionDef, ast.ClassDef, ast.Pass, ast.Import, ast.ImportFrom, ast.Global, ast.Nonlocal)):
                continue
            if isinstance(s, ast.Expr) and isinstance(s.value, ast.Constant):
                continue
            self.scan(s, st, ev)
            self.none_uses(s, st, ev)
            self.effect(s, st, ev)
            self.bookkeeping(s, st)
            if isinstance(s, ast.Return):
                return [(ev, 'return', s)]
        return [(ev, 'fall', None)]


def _run_cases(ck, rule, mod, F, walker, cases, judge, ok_text, ok_node=None):
    """judge(case, state0, events, end, node) -> 'neutral' or a list of findings
    ('bad', node, construct, detail) / ('unknown', text).  A case is violated when every non-neutral path
    has a 'bad' finding; a case with an unread path (and no such verdict) is undecided."""
    bads, unknowns = {}, []
    for label, st0 in cases:
        st = _cp_state(st0)
        st.setdefault('env', {})
        st.setdefault('none', {})
        try:
            outs = walker.paths(st)
        except RecursionError:
            outs = [([], 'opaque', None)]
        res = []
        for ev, end, node in outs:
            r = judge(label, st0, ev, end, node)
            if r == 'neutral':
                continue
            res.append(r)
        if not res:
            continue
        with_bad = [r for r in res if any(f[0] == 'bad' for f in r)]
        if len(with_bad) == len(res):
            seen_here = set()
            for r in with_bad:
                f = [f for f in r if f[0] == 'bad'][0]
                key = (id(f[1]), f[2])
                if key in seen_here:
                    continue
                seen_here.add(key)
                bads.setdefault(key, (f, label))
        elif with_bad:
            f = [f for f in with_bad[0] if f[0] == 'bad'][0]
            unknowns.append('%s, case %s: %s holds on some paths only (a test on the way is not evaluated by the rule)' % (F, label, f[2][:100]))
        else:
            for r in res:
                for f in r:
                    if f[0] == 'unknown':
                        unknowns.append('%s, case %s: %s' % (F, label, f[1]))
    for (f, label) in bads.values():
        ck.bad(rule, mod, f[1], F, f[2], '%s [case: %s]' % (f[3], label))
    seen = set()
    for t in unknowns:
        if t not in seen and len(seen) < 3:
            seen.add(t)
            ck.missing(rule, t[:300])
    if not bads and not unknowns:
        ck.ok(rule, mod, ok_node if ok_node is not None else walker.fn, '%s: %d cases' % (F, len(cases)), ok_text)
    return bool(bads), bool(unknowns)


def _call_binding(mod, callee, callers, outer=None):
    """{parameter of callee: True (None at every call site) / False (an argument at every call site)} for the
    parameters whose default is None, over the calls in the functions `callers`.  An argument that is a parameter of
    the caller takes that parameter's state from `outer`."""
    f = mod.functions.get(callee)
    if f is None:
        return {}
    out, n = {}, 0
    for q in callers:
        cf = mod.functions.get(q)
        if cf is None:
            continue
        for c in calls_in(cf):
            if call_name(c) != callee:
                continue
            b = _bind_call(mod, c)
            if b is None:
                return {}
            n += 1
            for p_ in params(f):
                d = param_default(f, p_)
                if d is None or not _is_none(d):
                    continue
                if p_ not in b or _is_none(b[p_]):
                    v = True
                elif isinstance(b[p_], ast.Name) and outer is not None and b[p_].id in outer:
                    v = outer[b[p_].id]
                else:
                    v = False
                if p_ in out and out[p_] != v:
                    v = None
                out[p_] = v
    return {k: v for k, v in out.items() if v is not None} if n else {}


_READERS = (CLS + '.__getitem__', CLS + '.__setitem__')
_MUTATING_ARRAY_METHODS = {'fill', 'sort', 'put', 'itemset', 'resize', 'partition', 'setfield', 'setflags', 'byteswap'}
_SIZE_PATS = ('len(_X)', '_X.size', '_X.shape[0]', 'np.size(_X)')
_NDIM_PATS = ('np.ndim(_X)', '_X.ndim', 'len(_X.shape)', 'len(np.shape(_X))')
_COUNT_NEG_PATS = ('len(np.where(_X < 0)[0])', 'np.where(_X < 0)[0].size', 'np.where(_X < 0)[0].shape[0]', '(_X < 0).sum()',
                   'np.count_nonzero(_X < 0)', '(_X < 0).nonzero()[0].size', 'len((_X < 0).nonzero()[0])',
                   'np.nonzero(_X < 0)[0].size', 'len(np.nonzero(_X < 0)[0])', 'len(_X[_X < 0])', '_X[_X < 0].size')
_NEG_SET_FORMS = ('np.where(%s < 0)[0]', 'np.where(%s < 0)', '%s < 0', '(%s < 0).nonzero()[0]', '(%s < 0).nonzero()',
                  'np.nonzero(%s < 0)[0]', 'np.nonzero(%s < 0)')
_TO_1D = ('%s.reshape(-1)', '%s.reshape((-1,))', 'np.atleast_1d(%s)', '%s.ravel()', '%s.flatten()', 'np.reshape(%s, -1)',
          '%s.reshape(%s.size)', '%s.reshape((%s.size,))')


def _dim_of(pats, x, dims):
    """The name bound to _X when x matches one of the patterns and the name is in `dims` (a collection, or a
    function name -> key or None)."""
    for pat in pats:
        b = match(pat, x)
        if b is not None and isinstance(b['_X'], ast.Name):
            if callable(dims):
                k = dims(b['_X'].id)
                if k is not None:
                    return b['_X'].id
            elif b['_X'].id in dims:
                return b['_X'].id
    return None


def _is_coercion(v, name):
    """np.array(X) / np.asarray(X) / X.copy() / X.astype(int) / np.array(X, dtype=int): the same entries."""
    inner = _strip_array(v)
    if inner is None and isinstance(v, ast.Call) and isinstance(v.func, ast.Attribute) and v.func.attr == 'astype' and \
            len(v.args) == 1 and u(v.args[0]) in _INT_DTYPES:
        inner = v.func.value
    if inner is None and isinstance(v, ast.Call) and call_name(v) in ('np.asanyarray', 'np.ascontiguousarray') and len(v.args) == 1:
        inner = v.args[0]
    return isinstance(inner, ast.Name) and inner.id == name


class _NegWalk(_CaseWalk):
    """_handle_negative_indices(rows, columns, lengths, starts)."""

    def __init__(self, mod, fn):
        ps = params(fn)
        self.R, self.Cn, self.L, self.S = ps[:4]
        self.dims = (self.R, self.Cn)
        _CaseWalk.__init__(self, mod, fn, keep=self.dims)
        self.scope = _value_scope(self.fi, fn)

    def root(self, nm, st):
        """The index array (rows / columns) whose entries the name holds: the parameter itself or a local alias."""
        if nm in self.dims:
            return nm
        return st['alias'].get(nm)

    def ival(self, x, st):
        k = _CaseWalk.ival(self, x, st)
        if k is not None:
            return k
        rt = lambda nm: self.root(nm, st)
        d = _dim_of(_SIZE_PATS, x, rt)
        if d is not None:
            return (1, 1) if st['size'][rt(d)] == 'one' else (2, INF)
        d = _dim_of(_COUNT_NEG_PATS, x, rt)
        if d is not None:
            n = st['neg'][rt(d)]
            if n == 'none':
                return (0, 0)
            if n == 'some':
                return (1, 1) if st['size'][rt(d)] == 'one' else (1, INF)
            return (0, INF)
        d = _dim_of(_NDIM_PATS, x, rt)
        if d is not None:
            return (0, 0) if st['nd0'].get(d) else (1, INF)
        return None

    def batom(self, x, st, ev, sure):
        rt = lambda nm: self.root(nm, st)
        for pat, pos in (('(_X < 0).any()', True), ('_X.min() < 0', True), ('(0 <= _X).all()', False), ('0 <= _X.min()', False)):
            d = _dim_of((pat,), x, rt)
            if d is not None:
                n = st['neg'][rt(d)]
                if n == 'unknown':
                    return None
                return (n == 'some') is pos
        return None

    def scan(self, node, st, ev):
        # numpy refuses nonzero() / where() of a 0-d array ("Calling nonzero on 0d arrays is not allowed")
        for c in _unconditional(node):
            if not isinstance(c, ast.Call):
                continue
            arg = None
            if call_name(c) in ('np.where', 'np.nonzero', 'np.flatnonzero', 'np.argwhere') and len(c.args) == 1 and not c.keywords:
                arg = c.args[0]
            elif isinstance(c.func, ast.Attribute) and c.func.attr == 'nonzero' and not c.args:
                arg = c.func.value
            if arg is None:
                continue
            for d, z in st['nd0'].items():
                if z and d in names_loaded(arg) and self.root(d, st) is not None:
                    ev.append(('err0d', self.root(d, st), None, c))

    def _update(self, s, t, op, add, st, ev, elementwise=False):
        b = t.value if isinstance(t, ast.Subscript) else t
        X = b.id
        info = {'whole': not isinstance(t, ast.Subscript), 'op': op, 'idx': None, 'idx_text': None, 'elementwise': elementwise}
        if isinstance(t, ast.Subscript):
            I = self.xp(t.slice, st)
            info['idx_text'] = u(I)
            v = _classify(I, [f.replace('%s', X) for f in _NEG_SET_FORMS], {X})
            info['idx'] = {'match': 'neg', 'near': 'wrong', 'far': 'unknown'}[v[0]]
        off = self.xp(add, st)
        info['off_text'] = u(off)
        L, S, R = self.L, self.S, self.R
        if X == self.R:
            v = _classify(off, ['len(%s)' % S, '%s.shape[0]' % S, '%s.size' % S, 'len(%s)' % L, '%s.shape[0]' % L, '%s.size' % L], self.scope)
            info['off'] = {'match': 'nrows', 'near': 'wrong', 'far': 'unknown'}[v[0]]
        else:
            v = _classify(off, ['%s[%s[_I]]' % (L, R), '%s[%s][_I]' % (L, R)], self.scope)
            if v[0] == 'match':
                info['off'] = 'same-pos' if info['idx_text'] is not None and u(canon(v[1]['_I'])) == info['idx_text'] else 'wrong'
            else:
                v2 = _classify(off, ['%s[%s]' % (L, R)], self.scope)
                info['off'] = {'match': 'all-rows', 'near': 'wrong', 'far': 'unknown'}[v2[0]]
        ev.append(('upd', X, info, s))
        st['neg'][X] = 'unknown'

    def effect(self, s, st, ev):
        dims = self.dims
        alias = st['alias']
        # calls that may write an index array behind the rule's back: helpers of the module, numpy's in-place
        # functions (out=..., ufunc.at, np.put ...), mutating methods of the array itself
        for c in ast.walk(s):
            if not isinstance(c, ast.Call):
                continue
            cn = call_name(c) or ''
            direct = [a.id for a in list(c.args) + [k.value for k in c.keywords] if isinstance(a, ast.Name)]
            recv = c.func.value.id if isinstance(c.func, ast.Attribute) and isinstance(c.func.value, ast.Name) else None
            hit = [a for a in direct if self.root(a, st) is not None]
            if hit and (cn in self.mod.functions or cn in IMPURE_NP or cn.endswith('.at') or any(k.arg == 'out' for k in c.keywords)) \
                    and not (isinstance(s, ast.Return)):
                ev.append(('opaque', self.root(hit[0], st), None, s))
            elif recv is not None and self.root(recv, st) is not None and c.func.attr in _MUTATING_ARRAY_METHODS:
                ev.append(('opaque', self.root(recv, st), None, s))
        if isinstance(s, ast.AugAssign):
            b = s.target.value if isinstance(s.target, ast.Subscript) else s.target
            if isinstance(b, ast.Name) and b.id in dims:
                self._update(s, s.target, type(s.op), s.value, st, ev)
            elif isinstance(b, ast.Name) and b.id in alias:
                ev.append(('opaque', alias[b.id], None, s))
            return
        if isinstance(s, ast.Assign) and len(s.targets) == 1 and isinstance(s.targets[0], ast.Name):
            # local aliases of an index array:  t = X ; t = <coercion / reshape(-1) of t> ; X = t
            t, v = s.targets[0].id, s.value
            if isinstance(v, ast.Name) and self.root(v.id, st) is not None:
                X = self.root(v.id, st)
                if t == X:
                    st['nd0'][X] = st['nd0'].get(v.id, False)
                    return
                if t not in dims:
                    alias[t] = X
                    st['nd0'][t] = st['nd0'].get(v.id, False)
                    return
            elif t in alias:
                vv = canon(v)
                if _is_coercion(vv, t):
                    return
                if any(match(f.replace('%s', t), vv) is not None for f in _TO_1D):
                    st['nd0'][t] = False
                    return
                del alias[t]
                st['nd0'].pop(t, None)
        if isinstance(s, ast.Assign):
            for t in s.targets:
                b = t
                while isinstance(b, ast.Subscript):
                    b = b.value
                if isinstance(t, (ast.Tuple, ast.List)):
                    for nm in target_names(t):
                        if nm in dims:
                            ev.append(('opaque', nm, None, s))
                    continue
                if isinstance(b, ast.Name) and b.id in alias and isinstance(t, ast.Subscript):
                    ev.append(('opaque', alias[b.id], None, s))
                    continue
                if not (isinstance(b, ast.Name) and b.id in dims):
                    continue
                X = b.id
                v = canon(s.value)
                if isinstance(t, ast.Name):
                    if _is_coercion(v, X):
                        continue
                    if any(match(f.replace('%s', X), v) is not None for f in _TO_1D):
                        st['nd0'][X] = False
                        continue
                bw = None
                if isinstance(t, ast.Name):
                    for pat in ('np.where(%s < 0, %s + _O, %s)', 'np.where(%s < 0, _O + %s, %s)'):
                        bw = bw or match(pat.replace('%s', X), v)
                if bw is not None:
                    # X = np.where(X < 0, X + off, X): the entries with X < 0, and only those, are offset (elementwise)
                    self._update(s, ast.Subscript(value=ast.Name(id=X, ctx=ast.Load()), slice=_parse('%s < 0' % X), ctx=ast.Store()),
                                 ast.Add, bw['_O'], st, ev, elementwise=True)
                elif isinstance(v, ast.BinOp) and isinstance(v.op, (ast.Add, ast.Sub)) and u(v.left) == u(canon(t)):
                    self._update(s, t, type(v.op), s.value.right, st, ev)
                elif isinstance(v, ast.BinOp) and isinstance(v.op, ast.Add) and u(v.right) == u(canon(t)):
                    self._update(s, t, ast.Add, s.value.left, st, ev)
                else:
                    ev.append(('opaque', X, None, s))
            return


def neg_cases(ck, mod):
    """_handle_negative_indices over the cases (one / many rows, one / many columns, 0-d or 1-d single entries,
    no / some negative rows, no / some negative columns), lengths and starts supplied as on the read path."""
    rule = 'C05.D1.row-bounds.negative-cases'
    F = '_handle_negative_indices'
    fn = mod.functions.get(F)
    if fn is None or len(params(fn)) < 4:
        return
    W = _NegWalk(mod, fn)
    R, Cn, L, S = W.R, W.Cn, W.L, W.S
    bind = _call_binding(mod, F, ['_convert_from_2d'], outer=_call_binding(mod, '_convert_from_2d', _READERS))
    none0 = {L: bind.get(L, False), S: bind.get(S, False)}
    cases = []
    for sr, sc in (('one', 'one'), ('one', 'many'), ('many', 'many')):
        for zr in ((True, False) if sr == 'one' else (False,)):
            for zc in ((True, False) if sc == 'one' else (False,)):
                for nr in ('none', 'some'):
                    for nc in ('none', 'some'):
                        label = '%s row index%s, %s column index%s; negative rows: %s, negative columns: %s' % (
                            sr, ' (0-d)' if zr else '', sc, ' (0-d)' if zc else '', nr, nc)
                        cases.append((label, {'size': {R: sr, Cn: sc}, 'nd0': {R: zr, Cn: zc}, 'neg': {R: nr, Cn: nc}, 'none': dict(none0),
                                              'alias': {}}))
    what = {R: 'row', Cn: 'column'}

    def judge(label, st0, ev, end, node):
        out = []
        if end == 'opaque':
            return [('unknown', 'statement not followed: %s' % u(node)[:80])]
        if end == 'raise':
            en = _exc_name(node)
            if en == 'IndexError':
                bad0 = [e for e in ev if e[0] == 'err0d']
                if not bad0 and _determinate(mod, fn, node, ev):
                    cond = [t for t, _, _ in _path_conditions(mod, node, fn)]
                    return [('bad', node, 'raise IndexError%s' % ((' under `%s`' % u(cond[-1])[:80]) if cond else ''),
                             'every index of this case is refused - also the valid ones (a[-1, ...], a[..., -1]): the tests on the way to the '
                             'raise are decided by the case alone, i.e. the negative entries were not offset before the re-test')]
                if not bad0:
                    return 'neutral'
            else:
                cond = [t for t, _, _ in _path_conditions(mod, node, fn)]
                out.append(('bad', node, 'raise %s%s' % (en, (' under `%s`' % u(cond[-1])[:80]) if cond else ''),
                            'the refusal is reached although lengths and starts are supplied, as on every read: the index is valid '
                            'for the list of rows but the read raises %s' % en))
                return out
        for e in ev:
            if e[0] == 'err0d':
                out.append(('bad', e[3], '%s with the %s index still 0-d' % (u(e[3])[:80], what[e[1]]),
                            'a scalar index arrives as a 0-d array; it must be brought to one dimension (reshape(-1)) before '
                            'np.where / nonzero is applied to it: numpy refuses nonzero() of a 0-d array, so a[i, j] raises ValueError'))
                return out
        if end == 'return' and isinstance(node.value, ast.Tuple) and len(node.value.elts) == 2 and \
                all(isinstance(x, ast.Name) for x in node.value.elts):
            got = [x.id for x in node.value.elts]
            if got == [Cn, R]:
                out.append(('bad', node, u(node), 'the normalised (rows, columns) must be returned in this order'))
                return out
        for X in (R, Cn):
            if any(e[0] == 'opaque' and e[1] == X for e in ev):
                o = [e for e in ev if e[0] == 'opaque' and e[1] == X][0]
                out.append(('unknown', 'update of the %s indices not read: %s' % (what[X], u(o[3])[:100])))
                continue
            ups = [e for e in ev if e[0] == 'upd' and e[1] == X]
            neg = st0['neg'][X]
            size = st0['size'][X]
            eff = [e for e in ups if not (e[2]['idx'] == 'neg' and neg == 'none')]
            if neg == 'none':
                if eff:
                    e = eff[0]
                    if e[2]['idx'] == 'unknown':
                        out.append(('unknown', 'index set of %s not recognised' % u(e[3])[:100]))
                    else:
                        out.append(('bad', e[3], u(e[3])[:160], 'executed for %s indices without a negative entry: a valid non-negative index is '
                                    'shifted by the %s' % (what[X], 'number of rows' if X == R else 'row length')))
                continue
            if not eff:
                out.append(('bad', fn, 'offset of the negative %s indices' % what[X],
                            'no offset is applied on the path taken when some %s index is negative: the index stays negative (IndexError for a '
                            'valid a[..-1..], or - without the re-test - a read from the previous row)' % what[X]))
                continue
            if len(eff) > 1:
                out.append(('bad', eff[1][3], u(eff[1][3])[:160], 'the negative %s indices are offset twice on one path' % what[X]))
                continue
            e = eff[0]
            info = e[2]
            if info['op'] is not ast.Add:
                out.append(('bad', e[3], u(e[3])[:160], 'the %s must be ADDED to a negative %s index (x[neg] += n)'
                            % ('number of rows' if X == R else 'length of the row', what[X])))
                continue
            if info['whole'] and size == 'many':
                out.append(('bad', e[3], u(e[3])[:160], 'the whole %s index array is shifted although it has several entries of which only some '
                            'are negative: the non-negative entries are shifted too' % what[X]))
                continue
            if info['idx'] == 'wrong':
                out.append(('bad', e[3], u(e[3])[:160], 'the offset must be applied to the entries with %s < 0 (found the index set %s)'
                            % (X, info['idx_text'][:80])))
                continue
            if info['idx'] == 'unknown':
                out.append(('unknown', 'index set of %s not recognised' % u(e[3])[:100]))
                continue
            k = info['off']
            if k == 'unknown':
                out.append(('unknown', 'offset of %s not recognised (%s)' % (u(e[3])[:80], info['off_text'][:60])))
                continue
            if X == R:
                good = k == 'nrows'
            else:
                sr, sc = st0['size'][R], st0['size'][Cn]
                if info['elementwise']:
                    good = k == 'all-rows' and (sr == sc or sr == 'one')
                else:
                    good = (k == 'same-pos' and sr == sc and not info['whole']) or (k == 'all-rows' and (sr == 'one' or (info['whole'] and sr == sc)))
            if not good:
                out.append(('bad', e[3], u(e[3])[:160],
                            ('negative rows must be offset by the number of rows' if X == R else
                             'a negative column must be offset by the length of ITS row: lengths[rows[neg]] for paired index arrays, '
                             'lengths[rows] only when there is a single row (found %s for %s row index / %s column index)'
                             % (info['off_text'][:60], st0['size'][R], st0['size'][Cn]))))
        return out

    _run_cases(ck, rule, mod, F, W, cases, judge,
               'in every case the negative entries - and only those - are offset once by the number of rows / the length of their row')


_SPREAD_FORMS = ('np.array([%(C)s for __ in %(R)s])', 'np.array([%(C)s] * len(%(R)s))', 'np.array([%(C)s] * %(R)s.size)',
                 'np.array(len(%(R)s) * [%(C)s])', 'np.repeat(%(C)s, len(%(R)s))', 'np.repeat(%(C)s, %(R)s.size)',
                 'np.full(%(R)s.shape, %(C)s)', 'np.full(len(%(R)s), %(C)s)', 'np.full(%(R)s.size, %(C)s)', 'np.tile(%(C)s, %(R)s.size)',
                 'np.tile(%(C)s, len(%(R)s))', 'np.full_like(%(R)s, %(C)s)', 'np.array([%(C)s for __ in range(len(%(R)s))])',
                 'np.array([%(C)s for __ in range(%(R)s.size)])', 'np.array([int(%(C)s)] * len(%(R)s))',
                 'np.array([%(C)s.item() for __ in %(R)s])', 'np.array([int(%(C)s) for __ in %(R)s])')


class _ConvWalk(_CaseWalk):
    """_convert_from_2d: sizes of the row / column index arrays handed to _handle_negative_indices."""

    def __init__(self, mod, fn, R, Cn):
        self.dims = (R, Cn)
        self.R, self.Cn = R, Cn
        _CaseWalk.__init__(self, mod, fn, keep=self.dims)
        self.spreads = 0

    def ival(self, x, st):
        k = _CaseWalk.ival(self, x, st)
        if k is not None:
            return k
        d = _dim_of(_SIZE_PATS, x, self.dims)
        if d is not None:
            return (1, 1) if st['size'][d] == 'one' else (2, INF)
        return None

    def effect(self, s, st, ev):
        if not isinstance(s, ast.Assign):
            return
        R, Cn = self.R, self.Cn
        for t in s.targets:
            if isinstance(t, (ast.Tuple, ast.List)):
                nms = target_names(t)
                if not (set(nms) & set(self.dims)):
                    continue
                if isinstance(s.value, ast.Call) and call_name(s.value) == '_handle_negative_indices':
                    ev.append(('norm', None, dict(st['size']), s))
                elif isinstance(s.value, ast.Name) or (isinstance(s.value, (ast.Tuple, ast.List)) and not (names_loaded(s.value) & set(self.dims))):
                    pass            # unpacking of the index pair
                else:
                    ev.append(('opaque', None, None, s))
                continue
            if not (isinstance(t, ast.Name) and t.id in self.dims):
                b = t
                while isinstance(b, ast.Subscript):
                    b = b.value
                if isinstance(b, ast.Name) and b.id in self.dims:
                    ev.append(('opaque', b.id, None, s))
                continue
            X, other = t.id, (Cn if t.id == R else R)
            v = self.xp(s.value, st)
            if other not in names_loaded(v):
                continue            # definition / coercion of this index array alone
            if X == Cn and any(match(f % {'C': Cn, 'R': R}, v) is not None for f in _SPREAD_FORMS):
                ev.append(('spread', Cn, None, s))
                self.spreads += 1
                st['size'][Cn] = st['size'][R]
                continue
            ev.append(('opaque', X, None, s))


def conv2d_cases(ck, mod):
    """_convert_from_2d under the read-path binding (lengths and starts supplied): no refusal other than
    IndexError is reached; a single column for several rows - and only that - is spread to one column per row
    before the in-place normalisation; the rows / columns are handed to the normalisation in this order."""
    F = '_convert_from_2d'
    fn = mod.functions.get(F)
    if fn is None:
        return
    fi = finfo(mod, fn)
    ps = params(fn)
    H = '_handle_negative_indices'
    hf = mod.functions.get(H)
    calls = [c for c in calls_in(fn) if call_name(c) == H]
    if hf is None or len(calls) != 1 or len(ps) < 3:
        return          # d1_bounds reports the missing normalisation (negatives-first)
    hps = params(hf)
    b = _bind_call(mod, calls[0])
    if b is None or len(hps) < 4 or hps[0] not in b or hps[1] not in b:
        ck.missing('C05.D1.row-bounds.negatives-first.operands', 'arguments of %s not recognised' % u(calls[0])[:100])
        return
    # --- operand order
    rule = 'C05.D1.row-bounds.negatives-first.operands'
    P0 = ps[0]

    def roles(e):
        out = set()

        def rec(e, d):
            if d <= 0 or e is None:
                out.add('?')
                return
            for _ in range(4):
                inner = _strip_array(e)
                if inner is None and isinstance(e, ast.Call) and isinstance(e.func, ast.Attribute) and \
                        e.func.attr in ('astype', 'reshape', 'ravel', 'flatten', 'copy', 'squeeze') and not (call_name(e) or '').startswith(('np.', 'numpy.')):
                    inner = e.func.value
                if inner is None and isinstance(e, ast.Call) and call_name(e) in ('np.array', 'np.asarray', 'np.atleast_1d', 'np.asanyarray', 'np.ravel') and e.args:
                    inner = e.args[0]
                if inner is None:
                    break
                e = inner
            if isinstance(e, ast.ListComp) and len(e.generators) == 1:
                return rec(e.elt, d)
            if isinstance(e, ast.Call) and call_name(e) in ('np.repeat', 'np.tile') and e.args:
                return rec(e.args[0], d)
            if isinstance(e, ast.Call) and call_name(e) == 'np.full' and len(e.args) >= 2:
                return rec(e.args[1], d)
            if isinstance(e, ast.BinOp) and isinstance(e.op, ast.Mult):
                for side in (e.left, e.right):
                    if isinstance(side, ast.List) and len(side.elts) == 1:
                        return rec(side.elts[0], d)
            if isinstance(e, (ast.List, ast.Tuple)) and len(e.elts) == 1:
                return rec(e.elts[0], d)
            if isinstance(e, ast.Subscript) and isinstance(e.value, ast.Name) and e.value.id == P0:
                k = const_value(e.slice, None)
                try:
                    isparam = fi.defs_of_use(e.value) == {'PARAM'}
                except Exception:
                    isparam = False
                out.add(k if isparam and k in (0, 1) and not isinstance(k, bool) else '?')
                return
            if isinstance(e, ast.Name):
                try:
                    defs = fi.defs_of_use(e)
                except Exception:
                    out.add('?')
                    return
                for site in defs:
                    if isinstance(site, ast.Assign) and len(site.targets) == 1 and isinstance(site.targets[0], (ast.Tuple, ast.List)) and \
                            isinstance(site.value, ast.Name) and site.value.id == P0 and all(isinstance(x, ast.Name) for x in site.targets[0].elts):
                        pos = [i for i, x in enumerate(site.targets[0].elts) if x.id == e.id]
                        out.add(pos[0] if len(pos) == 1 and len(site.targets[0].elts) == 2 else '?')
                    elif isinstance(site, (ast.Assign, ast.AnnAssign)):
                        v = fi.def_value(site, e.id)
                        if v is None:
                            out.add('?')
                        else:
                            rec(v, d - 1)
                    else:
                        out.add('?')
                return
            out.add('?')
        rec(e, 8)
        return out

    r0, r1 = roles(b[hps[0]]), roles(b[hps[1]])
    con = '%s(%s, %s, ...)' % (H, u(b[hps[0]])[:40], u(b[hps[1]])[:40])
    kw_swapped = (hps[2] in b and hps[3] in b and isinstance(b[hps[2]], ast.Name) and isinstance(b[hps[3]], ast.Name) and
                  b[hps[2]].id == ps[2] and b[hps[3]].id == ps[1] and
                  fi.defs_of_use(b[hps[3]]) == {'PARAM'})
    if (r0, r1) == ({1}, {0}) or kw_swapped:
        ck.bad(rule, mod, calls[0], F, con,
               'the row indices must be handed to %s as its first and the column indices as its second argument (and lengths / starts under '
               'their own names): swapped, rows are offset by row lengths and columns by the number of rows, and the flat index is '
               'starts[column] + row' % H)
    elif (r0, r1) == ({0}, {1}):
        ck.ok(rule, mod, calls[0], con, 'rows and columns of the index pair are handed to the normalisation in this order')
    else:
        ck.missing(rule, 'origin of the arguments of %s in %s not traced to the two components of the index pair' % (u(calls[0])[:80], F))
    # --- case table
    a0, a1 = b[hps[0]], b[hps[1]]
    if not (isinstance(a0, ast.Name) and isinstance(a1, ast.Name)) or a0.id == a1.id:
        ck.missing('C05.D1.row-bounds.spread', 'the arguments of %s are not two local names: sizes not followed' % u(calls[0])[:80])
        return
    R, Cn = (a0.id, a1.id) if (r0, r1) != ({1}, {0}) else (a1.id, a0.id)
    W = _ConvWalk(mod, fn, R, Cn)
    bind = _call_binding(mod, F, _READERS)
    none0 = {p_: v for p_, v in bind.items()}
    cases = []
    for sr in ('one', 'many'):
        for sc in ('one', 'many'):
            cases.append(('%s row index, %s column index' % (sr, sc), {'size': {R: sr, Cn: sc}, 'none': dict(none0)}))

    def judge(label, st0, ev, end, node):
        if end == 'opaque':
            return [('unknown', 'statement not followed: %s' % u(node)[:80])]
        if end == 'raise':
            en = _exc_name(node)
            if en == 'IndexError':
                return 'neutral'
            cond = [t for t, _, _ in _path_conditions(mod, node, fn)]
            return [('bad', node, 'raise %s%s' % (en, (' under `%s`' % u(cond[-1])[:80]) if cond else ''),
                     'the refusal is reached although lengths and starts are supplied, as on every read through __getitem__: every '
                     'a[rows, columns] raises %s' % en)]
        for e in ev:
            if e[0] == 'none-use':
                return [('bad', e[3], u(e[3])[:160], '`%s` is None on the read path and is used as a value here' % e[1])]
        if any(e[0] == 'opaque' for e in ev):
            o = [e for e in ev if e[0] == 'opaque'][0]
            return [('unknown', 'rebinding of the index arrays not read: %s' % u(o[3])[:100])]
        sp = [e for e in ev if e[0] == 'spread']
        nrm = [e for e in ev if e[0] == 'norm']
        if not nrm:
            return [('unknown', 'no call of %s on this path' % H)]
        want = 1 if (st0['size'][R], st0['size'][Cn]) == ('many', 'one') else 0
        if len(sp) == want:
            return []
        if sp:
            g = [t for t, _, _ in _path_conditions(mod, sp[0][3], fn)]
            return [('bad', sp[0][3], 'column spread under `%s`' % (u(g[-1])[:120] if g else 'no condition'),
                     'the single column index is copied once per row although %s: the copy is meant for a[[r0, r1, ...], c] only; '
                     'for a scalar row the row index is a 0-d array (not iterable), for paired index arrays the result is a 2-D array of '
                     'columns and the flat index / the result has the wrong shape' % label)]
        return [('bad', fn, 'spread of a single column index over several rows',
                 'with several rows and ONE column (a[[r0, r1, ...], c]) the column is not copied once per row before %s: the in-place offset '
                 'of a negative column (columns += lengths[rows]) cannot be stored into the one-element array (ValueError instead of the '
                 'last elements)' % H)]

    rule = 'C05.D1.row-bounds.spread'
    anybad, anyunk = _run_cases(ck, rule, mod, F, W, cases, judge,
                                'a single column index is spread over the rows exactly when there are several rows and one column; '
                                'no configuration refusal is reachable with lengths and starts supplied')


def bind_cases(ck, mod, rule, F, callers, what):
    """A helper of the read path under the None-ness of its optional parameters at the call sites of the read
    path: no refusal (raise) is reached for that configuration and no parameter that is None there is used as a
    value."""
    fn = mod.functions.get(F)
    if fn is None:
        return
    bind = _call_binding(mod, F, callers)
    if not bind:
        return
    W = _CaseWalk(mod, fn)
    label = ', '.join('%s %s' % (p_, 'omitted (None)' if v else 'supplied') for p_, v in sorted(bind.items()))

    def judge(lab, st0, ev, end, node):
        if end == 'raise':
            en = _exc_name(node)
            if en == 'IndexError':
                return 'neutral'
            cond = [t for t, _, _ in _path_conditions(mod, node, fn)]
            return [('bad', node, 'raise %s%s' % (en, (' under `%s`' % u(cond[-1])[:80]) if cond else ''),
                     'the refusal is reached for the arguments %s passes (%s): %s' % (what, label, 'every such read raises %s' % en))]
        for e in ev:
            if e[0] == 'none-use':
                return [('bad', e[3], u(e[3])[:160], '`%s` is None for the arguments %s passes (%s) and is used as a value here; '
                         'the supplied argument is discarded / the conversion works on None' % (e[1], what, label))]
        return []

    _run_cases(ck, rule, mod, F, W, [(label, {'none': dict(bind)})], judge,
               'no configuration refusal and no use of an omitted parameter is reachable for the arguments of the read path')


def _over_param(e, A):
    """The expression iterates over / maps the parameter A itself."""
    for n in ast.walk(e):
        if isinstance(n, ast.comprehension) and isinstance(n.iter, ast.Name) and n.iter.id == A:
            return n
        if isinstance(n, ast.Call) and call_name(n) == 'map' and len(n.args) == 2 and isinstance(n.args[1], ast.Name) and n.args[1].id == A:
            return n
    return None


class _InitWalk(_CaseWalk):
    """RaggedArray.__init__(self, array, lengths=None, ...)."""

    def __init__(self, mod, fn):
        ps = params(fn)
        self.selfn, self.A = ps[0], ps[1]
        self.LP = 'lengths' if 'lengths' in ps else ps[2]
        _CaseWalk.__init__(self, mod, fn)

    def ival(self, x, st):
        k = _CaseWalk.ival(self, x, st)
        if k is not None:
            return k
        for pat in ('len(%s)', '%s.shape[0]'):
            if match(pat % self.A, x) is not None:
                return (0, 0) if st['empty'] else (1, INF)
        return None

    def batom(self, x, st, ev, sure):
        if isinstance(x, ast.Call) and (call_name(x) or '').split('.')[-1] == '_is_iterable' and len(x.args) == 1 and \
                match('%s[0]' % self.A, x.args[0]) is not None:
            if st['empty']:
                return None
            return st['iter']
        return None

    def scan(self, node, st, ev):
        if not st['empty']:
            return
        for n in _unconditional(node):
            if isinstance(n, ast.Subscript) and isinstance(n.ctx, ast.Load) and isinstance(n.value, ast.Name) and n.value.id == self.A and \
                    isinstance(const_value(n.slice, None), int) and not isinstance(const_value(n.slice, None), bool):
                ev.append(('index-empty', None, None, node))
                return

    def effect(self, s, st, ev):
        if not isinstance(s, ast.Assign):
            return
        A, LP, sn = self.A, self.LP, self.selfn
        for t in s.targets:
            if not (isinstance(t, ast.Attribute) and isinstance(t.value, ast.Name) and t.value.id == sn):
                continue
            v = self.xp(s.value, st)
            handler = any(e[0] == 'handler' for e in ev)
            if t.attr == '_data':
                kind = 'unknown'
                if isinstance(v, ast.Call) and call_name(v) in ('np.concatenate', 'np.hstack', 'np.vstack') and v.args and A in names_loaded(v.args[0]):
                    kind = 'concat'
                elif _is_coercion(v, A) or (isinstance(v, ast.Call) and call_name(v) in ('np.array', 'np.asarray', 'np.asanyarray') and v.args and
                                            isinstance(v.args[0], ast.Name) and v.args[0].id == A):
                    kind = 'asis'
                elif handler:
                    kind = 'fallback'
                ev.append(('set', 'data', kind, s))
            elif t.attr == 'lengths':
                kind = 'unknown'
                inner = v
                if isinstance(v, ast.Call) and call_name(v) in ('np.array', 'np.asarray', 'np.fromiter') and v.args:
                    inner = v.args[0]
                elif isinstance(v, ast.Call) and isinstance(v.func, ast.Attribute) and v.func.attr == 'copy':
                    inner = v.func.value
                if isinstance(inner, ast.Call) and call_name(inner) == 'list' and len(inner.args) == 1:
                    inner = inner.args[0]
                g = _over_param(inner, A)
                if isinstance(inner, ast.Name) and inner.id == LP and inner is not v:
                    kind = 'given'
                elif g is not None:
                    if isinstance(g, ast.Call) and u(g.args[0]) == 'len':
                        kind = 'per-row'
                    elif isinstance(g, ast.comprehension) and isinstance(inner, (ast.ListComp, ast.GeneratorExp)) and isinstance(g.target, ast.Name) and \
                            any(match(p_ % g.target.id, inner.elt) is not None for p_ in ('len(%s)', '%s.shape[0]', 'np.shape(%s)[0]')):
                        kind = 'per-row'
                elif isinstance(inner, (ast.List, ast.Tuple)) and len(inner.elts) == 1 and \
                        any(match(p_ % A, inner.elts[0]) is not None for p_ in ('len(%s)', '%s.shape[0]', '%s.size')):
                    kind = 'single'
                elif (isinstance(inner, (ast.List, ast.Tuple)) and not inner.elts and inner is not v) or \
                        (isinstance(v, ast.Call) and call_name(v) in ('np.zeros', 'np.empty') and v.args and const_value(v.args[0], None) == 0):
                    kind = 'empty'
                ev.append(('set', 'lengths', kind, s))


def init_cases(ck, mod):
    """How the constructor reads its input: nested rows (lengths omitted, first entry iterable) are concatenated
    and their lengths measured row by row; a flat sequence of scalars is one row; an empty input has no rows;
    flat data plus lengths is taken as it is with the caller's lengths."""
    rule = 'C05.D7.constructor-cases'
    q = CLS + '.__init__'
    fn = mod.functions.get(q)
    if fn is None or len(params(fn)) < 3:
        return
    W = _InitWalk(mod, fn)
    A, LP = W.A, W.LP
    cases = [('nested rows, lengths omitted', {'empty': False, 'iter': True, 'none': {LP: True}}, ('concat', 'per-row')),
             ('flat sequence of scalars, lengths omitted', {'empty': False, 'iter': False, 'none': {LP: True}}, ('asis', 'single')),
             ('empty input, lengths omitted', {'empty': True, 'iter': None, 'none': {LP: True}}, ('asis', 'empty')),
             ('flat data of scalars plus lengths', {'empty': False, 'iter': False, 'none': {LP: False}}, ('asis', 'given')),
             ('flat data of multi-dimensional elements plus lengths', {'empty': False, 'iter': True, 'none': {LP: False}}, ('asis', 'given'))]
    expect = {c[0]: c[2] for c in cases}
    names = {'concat': 'the concatenation of the rows (np.concatenate(array))', 'asis': 'the input taken as the flat data (np.array(array))',
             'per-row': 'one length per row ([len(row) for row in array])', 'single': 'one row ([len(array)])', 'empty': 'no rows ([])',
             'given': "the caller's lengths (np.array(lengths))", 'fallback': 'the object-array fallback'}

    def judge(label, st0, ev, end, node):
        if end == 'raise':
            return 'neutral'
        if end == 'opaque':
            return [('unknown', 'statement not followed: %s' % u(node)[:80])]
        out = []
        for e in ev:
            if e[0] == 'index-empty':
                return [('bad', e[3], u(e[3])[:120], '`%s[0]` is evaluated although the input is empty: RaggedArray([]) raises IndexError '
                         'instead of giving the array without rows' % A)]
        wd, wl = expect[label]
        for slot, want in (('data', wd), ('lengths', wl)):
            sets = [e for e in ev if e[0] == 'set' and e[1] == slot]
            if not sets:
                out.append(('unknown', 'no assignment of self.%s on a path' % ('_data' if slot == 'data' else 'lengths')))
                continue
            e = sets[-1]
            k = e[2]
            if k == want or (want == 'concat' and k == 'fallback'):
                continue
            if k == 'unknown':
                out.append(('unknown', 'value of %s not recognised' % u(e[3])[:100]))
                continue
            out.append(('bad', e[3], u(e[3])[:160], 'for %s the constructor must set %s, but this statement - %s - is executed: the rows read '
                        'back differ from the rows handed in' % (label, names[want], names.get(k, k))))
        return out

    _run_cases(ck, rule, mod, q, W, [(c[0], c[1]) for c in cases], judge,
               'nested rows / flat scalars / empty input / flat data plus lengths are each interpreted as such')


class _ShapeWalk(_CaseWalk):
    def __init__(self, mod, fn):
        self.selfn = params(fn)[0]
        _CaseWalk.__init__(self, mod, fn)
        sl = '%s.lengths' % self.selfn
        self.uneq = [p_ % {'L': sl} for p_ in ('(%(L)s - %(L)s[0]).any()', '(%(L)s != %(L)s[0]).any()', 'len(set(%(L)s)) != 1', '1 < len(set(%(L)s))',
                                               'len(np.unique(%(L)s)) != 1', '1 < len(np.unique(%(L)s))', '%(L)s.min() != %(L)s.max()',
                                               '(%(L)s[0] != %(L)s).any()')]
        self.eq = [p_ % {'L': sl} for p_ in ('(%(L)s == %(L)s[0]).all()', 'len(set(%(L)s)) == 1', 'len(np.unique(%(L)s)) == 1',
                                             '%(L)s.min() == %(L)s.max()', '(%(L)s[0] == %(L)s).all()')]

    def ival(self, x, st):
        k = _CaseWalk.ival(self, x, st)
        if k is not None:
            return k
        d = '%s._data' % self.selfn
        for pat in ('len(%s.shape)', '%s.ndim', 'np.ndim(%s)'):
            if match(pat % d, x) is not None:
                return (1, 1) if st['nd1'] else (2, INF)
        return None

    def effect(self, s, st, ev):
        # the value returned on this path, with the temporaries of the path substituted
        if isinstance(s, ast.Return) and s.value is not None:
            ev.append(('ret', None, self.xp(s.value, st), s))

    def batom(self, x, st, ev, sure):
        if any(match(p_, x) is not None for p_ in self.uneq):
            return not st['equal']
        if any(match(p_, x) is not None for p_ in self.eq):
            return st['equal']
        if isinstance(x, ast.Call) and (call_name(x) or '').split('.')[-1] == '_is_iterable' and len(x.args) == 1 and \
                match('%s._data[0]' % self.selfn, x.args[0]) is not None:
            return st['iter']
        return None


def shape_cases(ck, mod):
    """shape = (rows, common row length or None[, element width or None]) over the cases (rows equally long or
    not) x (scalar elements / array elements in 2-D flat data / array elements in an object array)."""
    rule = 'C05.D6.observers.shape.cases'
    q = CLS + '.shape'
    fn = mod.functions.get(q)
    if fn is None:
        return
    W = _ShapeWalk(mod, fn)
    sn = W.selfn
    SL, DATA = '%s.lengths' % sn, '%s._data' % sn
    cases = []
    for eq in (True, False):
        for it, nd1, txt in ((False, True, 'scalar elements'), (True, False, 'array elements, flat data with element dimensions'),
                             (True, True, 'array elements kept in a one-dimensional object array')):
            cases.append(('rows %s, %s' % ('equally long' if eq else 'of different lengths', txt), {'equal': eq, 'iter': it, 'nd1': nd1}))

    def pick(e, st):
        for _ in range(3):
            if isinstance(e, ast.IfExp):
                t = W.truth(e.test, st, [])
                if t is None:
                    return None
                e = e.body if t else e.orelse
            else:
                break
        return e

    def judge2(label, st0, ev, end, node):
        if end == 'raise':
            return 'neutral'
        r = [e for e in ev if e[0] == 'ret']
        if end != 'return' or not r:
            return [('unknown', 'shape does not end in a return of a value on a path')]
        v = r[-1][2]
        st = _cp_state(st0)
        st.setdefault('env', {})
        st.setdefault('none', {})
        v = pick(v, st)
        if not isinstance(v, ast.Tuple):
            return [('unknown', 'result of shape is not a tuple display: %s' % u(v)[:80] if v is not None else 'result of shape not read')]
        want_n = 3 if st0['iter'] else 2
        con = u(node)[:160]
        if len(v.elts) != want_n:
            if len(v.elts) in (2, 3):
                return [('bad', node, con, 'for %s shape must have %d entries (a third entry - the element width - exactly when the elements '
                         'are arrays themselves); this return has %d' % (label, want_n, len(v.elts)))]
            return [('unknown', 'result of shape has %d entries' % len(v.elts))]
        out = []
        e1 = pick(v.elts[1], st)
        if e1 is None:
            out.append(('unknown', 'second entry of shape not read: %s' % u(v.elts[1])[:80]))
        else:
            common = _classify(e1, ['%s[0]' % SL, 'int(%s[0])' % SL, '%s.max()' % SL, '%s.min()' % SL, '%s[-1]' % SL], {sn})[0] == 'match'
            if st0['equal']:
                if _is_none(e1):
                    out.append(('bad', node, con, 'all rows are equally long: shape[1] must be that length (self.lengths[0]), this path returns None'))
                elif not common:
                    out.append(('unknown', 'second entry of shape not recognised: %s' % u(e1)[:80]))
            else:
                if common:
                    out.append(('bad', node, con, 'the rows differ in length: shape[1] must be None, this path returns the length of one row'))
                elif not _is_none(e1):
                    out.append(('unknown', 'second entry of shape not recognised: %s' % u(e1)[:80]))
        if want_n == 3:
            e2 = pick(v.elts[2], st)
            if e2 is None:
                out.append(('unknown', 'third entry of shape not read: %s' % u(v.elts[2])[:80]))
            else:
                width = _classify(e2, ['%s.shape[1]' % DATA, '%s[0].shape[0]' % DATA, 'len(%s[0])' % DATA], {sn})[0] == 'match'
                if st0['nd1']:
                    if width:
                        out.append(('bad', node, con, 'the flat data is a one-dimensional object array here: it has no shape[1] (IndexError); '
                                    'the third entry must be None'))
                    elif not _is_none(e2):
                        out.append(('unknown', 'third entry of shape not recognised: %s' % u(e2)[:80]))
                else:
                    if _is_none(e2):
                        out.append(('bad', node, con, 'the flat data carries the element dimensions: the third entry of shape must be the element '
                                    'width (self._data.shape[1]), this path returns None'))
                    elif not width:
                        out.append(('unknown', 'third entry of shape not recognised: %s' % u(e2)[:80]))
        return out

    _run_cases(ck, rule, mod, q, W, cases, judge2,
               'shape[1] is the common row length exactly when all rows are equally long; the element width is reported exactly for array elements')


def check(ck):
    mod = ck.repo.mod(RA)
    d7_constructor_and_lists(ck, mod)
    from ..patterns import check_no_arg_mutation
    check_no_arg_mutation(ck, 'C05.D8.reads-are-pure', [(RA, CLS + '.__getitem__'), (RA, '_convert_from_2d'), (RA, '_convert_from_1d'),
                                                        (RA, 'where'), (RA, '_get_iis_from_list'), (RA, '_slice_to_list'),
                                                        (RA, '_get_iis_from_slices')], exempt_self_methods=False)
    d1_bounds(ck, mod)
    # reader and writer as they are after following their delegation to new private helpers
    rw = _follow_delegates(ck, mod, [CLS + '.__getitem__', CLS + '.__setitem__'])
    d1_call_sites(ck, rw)
    d1_negatives(ck, mod)
    d1_inplace_cells(ck, mod)
    d2_slices(ck, mod)
    d3_dispatch(ck, rw)
    d3_row_count(ck, rw)
    d4_index_space(ck, mod)
    d5_where(ck, mod)
    d5_index_dtype(ck, mod)
    init_cases(ck, mod)
    shape_cases(ck, mod)
    row_view(ck, mod, 'C05.D7.row-view')
    return EXPLANATION

"""C08 Reactive flux: formula/orientation in both branches, diagonal reset,
net flux, backward committor, reactive populations, inputs unmodified.

The constructs are located by ROLE - "the value that is returned", "the tuple
position of the helper's result that holds the committors call", "the in-place
stores into the returned matrix" - and compared after expansion of temporaries
(`xval`, an extension of FuncInfo.expand that also follows rebinding chains
`x = f(x)` / `x op= v` of objects that are mutated in place elsewhere).  A
recognised construct with different content is a VIOLATION; an unfamiliar
shape is ANALYSIS-INCOMPLETE."""
import ast

from ..cfg import Assume
from ..core import call_name, params, u, walk_expr, walk_local
from ..match import canon, classify, match_any
from ..normal import MUTATING_METHODS, is_pure
from ..patterns import (Cmp, calls_in, check_no_arg_mutation, conjuncts,
                        finfo, returns_of, subscript_stores)
from .C07 import d3_committors, d2_masking

TP = 'enspara/tpt/tpt.py'
CO = 'enspara/tpt/core.py'
HELPER = '_get_data_from_tprob'

EXPLANATION = (
    'Static decision of the structural necessary conditions of the reactive '
    'flux definition: (D1) both the dense and the sparse branch compute '
    'T[i,j] * (pi*q-)[i] * q+[j] - the row factor carries the new trailing '
    'axis, the column factor none - and the diagonal is set to zero after the '
    'product and before the return; (D2) net flux is f - f^T of the same f '
    'with negatives set to zero, and - because reactive_fluxes returns a '
    'scipy.sparse matrix for a sparse tprob (container kinds propagated from '
    'the matrix parameter through conversion methods, .T, +/-, comparisons) - '
    'no numpy function that coerces its argument with np.asarray (where, '
    'flatnonzero, maximum, minimum, clip, isclose) is applied to the sparse-capable net flux '
    'outside an issparse-excluded branch; (D3) q- = 1 - q+ from one committor call on '
    'the same (tprob, sources, sinks), reactive populations are pi*q+*q- '
    'normalised by their own sum; (D4) no store (including augmented '
    'assignment) reaches tprob or the caller\'s populations; (D5) the '
    'committor boundary pins shared with C07, and along reactive_fluxes / '
    'reactive_populations -> _get_data_from_tprob -> committors -> _I_m_Q no '
    'operation that only one container kind defines (scipy.sparse-only methods; '
    'len(), ndarray-only methods, asarray-coercing numpy functions) is evaluated '
    'for a matrix of the other kind (issparse/isinstance/hasattr tests and '
    '`p is None` tests resolved with the arguments of the calls on that path). '
    'Conservation identities are not decided.')


# ---------------------------------------------------------------------------
# expansion of temporaries, including rebinding chains of mutated objects
# (candidates for promotion to sa/cfg.py FuncInfo)

def inplace_sites(fi, name):
    """Statements that mutate the object bound to `name` in place.  Unlike
    FuncInfo._mutated_in_place a plain rebinding `name = name.method(...)` only
    counts if the method is a known mutator."""
    out = []
    for s in fi._mutated_in_place(name):
        if isinstance(s, (ast.Assign, ast.AnnAssign)):
            tg = s.targets if isinstance(s, ast.Assign) else [s.target]
            plain = all(isinstance(t, ast.Name) or (isinstance(t, (ast.Tuple, ast.List)) and all(isinstance(e, ast.Name) for e in t.elts))
                        for t in tg)
            mutator = s.value is not None and any(
                isinstance(c, ast.Call) and isinstance(c.func, ast.Attribute) and c.func.attr in MUTATING_METHODS
                and isinstance(c.func.value, ast.Name) and c.func.value.id == name for c in ast.walk(s.value))
            if plain and not mutator:
                continue
        out.append(s)
    return out


# constructors of scipy.sparse that build a fresh container from their
# arguments (no side effect, deterministic)
SPARSE_MODULES = ('sparse', 'scipy.sparse', 'sp.sparse', 'sps', 'spsparse')
SPARSE_BUILDERS = {'diags', 'diags_array', 'spdiags', 'eye', 'eye_array', 'identity'} | {
    '%s_%s' % (f, k) for f in ('csr', 'csc', 'lil', 'coo', 'dok', 'bsr', 'dia') for k in ('matrix', 'array')}


def sparse_builder(e):
    """Name of the scipy.sparse constructor that e calls (`sparse.diags(...)`), else None."""
    if not isinstance(e, ast.Call):
        return None
    cn = call_name(e) or ''
    if '.' not in cn:
        return None
    modname, last = cn.rsplit('.', 1)
    return last if modname in SPARSE_MODULES and last in SPARSE_BUILDERS else None


def pure_x(e):
    """normal.is_pure, with the scipy.sparse constructors counted as pure."""
    if is_pure(e):
        return True

    class _T(ast.NodeTransformer):
        def visit_Call(self, node):
            self.generic_visit(node)
            if sparse_builder(node) is not None:
                return ast.copy_location(ast.Tuple(elts=list(node.args) + [k.value for k in node.keywords], ctx=ast.Load()), node)
            return node
    import copy
    try:
        return is_pure(_T().visit(copy.deepcopy(e)))
    except Exception:
        return False


def def_stmt(fi, e):
    """The statement to report for expression e: its single definition if e is
    a name with one, else the statement it occurs in."""
    if isinstance(e, ast.Name):
        d = [s for s in fi.defs_of_use(e) if not isinstance(s, str)]
        if len(d) == 1:
            return d[0]
    return fi.stmt(e) or e


def carried_def(fi, name_node):
    """The single definition `x = <pure expr>` / `x op= <pure expr>` that
    reaches this use of x, provided neither x's object nor any operand of the
    expression is rebound or mutated in place between the definition and the
    use.  Unlike FuncInfo.temp_value this accepts (a) an expression that
    mentions x itself (`x = x * w`: the operand is the previous value of x),
    (b) augmented assignment to a name and (c) an object that is mutated in
    place somewhere else in the function (only mutations that can execute
    between the definition and the use matter).  Returns (site, expr) or
    None."""
    try:
        defs = fi.defs_of_use(name_node)
    except Exception:
        return None
    if len(defs) != 1:
        return None
    site = next(iter(defs))
    name = name_node.id
    if isinstance(site, ast.AugAssign):
        if not (isinstance(site.target, ast.Name) and site.target.id == name):
            return None
        v = site.value
    elif isinstance(site, (ast.Assign, ast.AnnAssign)):
        v = fi.def_value(site, name)
    else:
        return None
    if v is None or isinstance(v, ast.GeneratorExp) or not pure_x(v):
        return None
    use = fi.stmt(name_node)
    if use is None:
        return None
    cfg = fi.cfg

    def between(ms):
        if ms is site:
            return False
        if ms is use:
            # the use statement mutates after reading, unless it runs again
            return use is not site and cfg.reachable(use, use, avoiding=[site])
        return cfg.reachable(site, ms, avoiding=[use]) and cfg.reachable(ms, use, avoiding=[site])

    if use is not site and any(between(ms) for ms in inplace_sites(fi, name)):
        return None
    for m in walk_expr(v):
        if not (isinstance(m, ast.Name) and isinstance(m.ctx, ast.Load)) or m.id == name:
            continue
        if use is not site and fi.rd.defs_at(site, m.id) != fi.rd.defs_at(use, m.id):
            return None
        if any(between(ms) for ms in inplace_sites(fi, m.id)):
            return None
    return site, v


def xval(fi, expr, stop=(), depth=12):
    """Copy of expr with temporaries and rebinding chains replaced by their
    definitions (see carried_def).  Every Name that is left carries `_orig`,
    the source node it stands for (for reaching-definition queries)."""

    def name_use(e, d):
        if d > 0 and e.id not in stop:
            v = fi.temp_value(e) if isinstance(e.ctx, ast.Load) else None
            if v is not None:
                return ex(v, d - 1)
            r = carried_def(fi, e)
            if r is not None:
                site, v = r
                if isinstance(site, ast.AugAssign):
                    return ast.copy_location(ast.BinOp(left=name_use(site.target, d - 1), op=site.op,
                                                       right=ex(v, d - 1)), site)
                return ex(v, d - 1)
        new = ast.copy_location(ast.Name(id=e.id, ctx=ast.Load()), e)
        new._orig = e
        return new

    def ex(e, d):
        if isinstance(e, ast.Name):
            return name_use(e, d)
        if not isinstance(e, ast.AST):
            return e
        if isinstance(e, (ast.expr_context, ast.operator, ast.unaryop, ast.boolop, ast.cmpop)):
            return e
        new = type(e)()
        for f in e._fields:
            val = getattr(e, f, None)
            if isinstance(val, list):
                setattr(new, f, [ex(x, d) for x in val])
            elif isinstance(val, ast.AST):
                setattr(new, f, ex(val, d))
            else:
                setattr(new, f, val)
        for a in ('lineno', 'col_offset', 'end_lineno', 'end_col_offset'):
            if hasattr(e, a):
                setattr(new, a, getattr(e, a))
        return new
    return ex(expr, depth)


def expand_info(fi, expr, stop=()):
    """(canonical expanded tree, {leaf name: set of frozensets of definition
    sites reaching the occurrences of that name})."""
    raw = xval(fi, expr, stop)
    leaf = {}
    for n in ast.walk(raw):
        if isinstance(n, ast.Name) and getattr(n, '_orig', None) is not None:
            try:
                d = frozenset(fi.defs_of_use(n._orig))
            except Exception:
                d = frozenset()
            leaf.setdefault(n.id, set()).add(d)
            del n._orig
    return canon(raw), leaf


def bind_args(call, names):
    """{callee parameter: argument expression} for positional + keyword
    arguments, or None (star-args, unknown keyword, duplicate)."""
    if any(isinstance(a, ast.Starred) for a in call.args) or any(k.arg is None for k in call.keywords):
        return None
    if len(call.args) > len(names):
        return None
    out = dict(zip(names, call.args))
    for k in call.keywords:
        if k.arg in out or k.arg not in names:
            return None
        out[k.arg] = k.value
    return out


def is_param_use(fi, e, name=None):
    """e is a Name that can only hold the (unmodified binding of the) parameter."""
    return isinstance(e, ast.Name) and (name is None or e.id == name) and fi.defs_of_use(e) == {'PARAM'}


def zero_const(e):
    return isinstance(e, ast.Constant) and type(e.value) in (int, float) and e.value == 0


def pass_through(ck, rule, mod, fn, fi, call, callee_params, F, n=4):
    """The first n parameters of fn are handed to the callee's first n
    parameters, position by position."""
    own = params(fn)[:n]
    b = bind_args(call, callee_params)
    if b is None or len(own) < n or len(callee_params) < n:
        ck.missing(rule, 'arguments of %s in %s cannot be bound to the callee parameters' % (u(call)[:120], F))
        return False
    good = True
    for slot, mine in zip(callee_params[:n], own):
        a = b.get(slot)
        if a is None:
            ck.bad(rule, mod, call, F, u(call)[:200], '%s does not pass its `%s` on as `%s`: the callee then works on a '
                   'default instead of the caller\'s value' % (F, mine, slot))
            good = False
        elif is_param_use(fi, a, mine):
            ck.ok(rule, mod, call, '%s: %s=%s' % (u(call)[:120], slot, mine), 'argument handed through unchanged')
        elif isinstance(a, ast.Name) and a.id in own and is_param_use(fi, a):
            ck.bad(rule, mod, call, F, u(call)[:200], 'parameter `%s` is passed where the callee expects `%s` (must be `%s`)' % (a.id, slot, mine))
            good = False
        else:
            ck.missing(rule, 'argument %s=%s of %s in %s is not the plain parameter `%s`' % (slot, u(a)[:80], call_name(call), F, mine))
            good = False
    return good


# ---------------------------------------------------------------------------
# roles of the helper's result tuple

def comm_def(fi, e):
    """e is a Name whose single definition is directly `<x> = committors(...)`."""
    if not isinstance(e, ast.Name):
        return None
    defs = fi.defs_of_use(e)
    if len(defs) != 1:
        return None
    site = next(iter(defs))
    if not isinstance(site, (ast.Assign, ast.AnnAssign)):
        return None
    v = fi.def_value(site, e.id)
    if isinstance(v, ast.Call) and (call_name(v) or '').split('.')[-1] == 'committors':
        return v
    return None


SIZE_FORMS = ['len(_X)', '_X.shape[_I]', '_X.size', 'int(len(_X))', 'int(_X.shape[_I])']


def never_none(fi, e, depth=6):
    """e cannot evaluate to None: a non-None constant, a size expression
    (len(X) / X.shape[i] / X.size), the result of an arithmetic operator or a
    comparison, or a Name all of whose reaching definitions bind such a value.
    Decided from the VALUE BOUND at each definition site: a later rebinding of
    an operand (`n = T.shape[0]; T = T.tolil()`) does not make the number that
    was bound any less of a number, so - unlike an expansion of the temporary -
    nothing has to be shown about the statements between definition and use."""
    if depth <= 0 or e is None:
        return False
    if isinstance(e, ast.Constant):
        return e.value is not None
    if isinstance(e, (ast.BinOp, ast.UnaryOp, ast.Compare, ast.Tuple, ast.List, ast.Dict, ast.Set, ast.JoinedStr)):
        return True
    if match_any(SIZE_FORMS, canon(e)) is not None:
        return True
    if isinstance(e, ast.IfExp):
        return never_none(fi, e.body, depth - 1) and never_none(fi, e.orelse, depth - 1)
    if isinstance(e, ast.Name) and isinstance(e.ctx, ast.Load):
        try:
            defs = fi.defs_of_use(e)
        except Exception:
            return False
        if not defs:
            return False
        for d in defs:
            if isinstance(d, ast.AugAssign) and isinstance(d.target, ast.Name):
                continue
            if not isinstance(d, (ast.Assign, ast.AnnAssign)):
                return False
            if not never_none(fi, fi.def_value(d, e.id), depth - 1):
                return False
        return True
    return False


def comm_call(fi, e):
    """The committors(...) call that e IS: the call itself, or a Name whose
    single definition is directly that call."""
    if isinstance(e, ast.Call) and (call_name(e) or '').split('.')[-1] == 'committors':
        return e
    return comm_def(fi, e)


def set_origin(fi, a):
    return {p for p in fi.derives_from(a)[0] if not p.startswith('<free>')}


def comm_orientation(fi, call, cpar, sources, sinks):
    """'forward' if the call's source/sink slots derive from the (sources,
    sinks) parameters in that order, 'reverse' if from (sinks, sources), else
    None."""
    b = bind_args(call, cpar)
    if b is None or cpar[1] not in b or cpar[2] not in b:
        return None
    o1, o2 = set_origin(fi, b[cpar[1]]), set_origin(fi, b[cpar[2]])
    if o1 == {sources} and o2 == {sinks}:
        return 'forward'
    if o1 == {sinks} and o2 == {sources}:
        return 'reverse'
    return None


def helper_roles(mod, cpar=('tprob', 'sources', 'sinks')):
    """Which position of the tuple returned by _get_data_from_tprob holds the
    populations / the number of states / q+ / q-, decided from what each
    element IS (def-use), not from its name.  -> (roles, None) | (None, why)

    q+ is the element bound directly to a committors(...) call.  When TWO
    elements are such calls (q- computed by a committor solve of its own
    instead of 1 - q+), the one whose source/sink slots are fed from (sources,
    sinks) in that order is q+ and the other one q-; two calls of the same
    orientation leave the roles undecided."""
    fn = mod.func(HELPER)
    fi = finfo(mod, fn)
    P = params(fn)
    if len(P) < 4:
        return None, '%s has fewer than four parameters' % HELPER
    pops = P[3]
    r = returns_of(fn)
    if len(r) != 1 or not isinstance(r[0].value, ast.Tuple) or len(r[0].value.elts) != 4:
        return None, '%s does not end in a single `return <pi>, <n>, <q+>, <q->`' % HELPER
    elts = r[0].value.elts
    direct = [i for i, e in enumerate(elts) if comm_def(fi, e) is not None]
    second = set()              # committors calls that play the role of q-
    if len(direct) == 2:
        ori = {i: comm_orientation(fi, comm_def(fi, elts[i]), list(cpar), P[1], P[2]) for i in direct}
        fwd = [i for i in direct if ori[i] == 'forward']
        rev = [i for i in direct if ori[i] == 'reverse']
        if len(fwd) == 1:
            second = set(direct) - set(fwd)
        elif len(rev) == 1 and not fwd:
            second = set(rev)
    cand = {'pi': [], 'n': [], 'qf': [], 'qb': []}
    for i, e in enumerate(elts):
        ex, _ = expand_info(fi, e)
        if i in second:
            cand['qb'].append(i)
        elif comm_def(fi, e) is not None:
            cand['qf'].append(i)
        elif match_any(SIZE_FORMS, ex) is not None:
            cand['n'].append(i)
        elif any(c.split('.')[-1] == 'committors' for c in fi.derives_from(e)[1]):
            cand['qb'].append(i)        # computed from the committors, but not the call itself
        elif isinstance(e, ast.Name):
            cand['pi'].append(i)
        else:
            cand['qb'].append(i)
    if any(len(v) != 1 for v in cand.values()):
        return None, 'roles of the four values returned by %s not recognised (%s): %s' % (
            HELPER, ', '.join('%s@%s' % (k, v) for k, v in cand.items()), u(r[0])[:120])
    roles = {k: v[0] for k, v in cand.items()}
    roles.update(fn=fn, fi=fi, ret=r[0], elts=elts)
    return roles, None


def unpack_roles(ck, rule, mod, fn, fi, roles, F):
    """The call of the helper in a public function: arguments handed through,
    result unpacked into four names.  -> (stmt, {'pi':name, ...}) | None"""
    calls = [c for c in calls_in(fn) if (call_name(c) or '').split('.')[-1] == HELPER]
    if len(calls) != 1:
        ck.missing(rule, 'exactly one call of %s in %s (found %d)' % (HELPER, F, len(calls)))
        return None
    call = calls[0]
    st = fi.stmt(call)
    if not (isinstance(st, ast.Assign) and st.value is call and len(st.targets) == 1 and isinstance(st.targets[0], ast.Tuple)
            and len(st.targets[0].elts) == 4 and all(isinstance(e, ast.Name) for e in st.targets[0].elts)):
        ck.missing(rule, 'result of %s is not unpacked into four names in %s' % (HELPER, F))
        return None
    pass_through(ck, rule, mod, fn, fi, call, params(roles['fn']), F)
    tn = [e.id for e in st.targets[0].elts]
    if len(set(tn)) != 4:
        ck.bad(rule, mod, st, F, u(st)[:160], 'the four results of %s must be bound to four different names' % HELPER)
        return None
    names = {k: tn[roles[k]] for k in ('pi', 'n', 'qf', 'qb')}
    ck.ok(rule, mod, st, u(st)[:160], 'helper result unpacked by position: pi=%(pi)s n=%(n)s q+=%(qf)s q-=%(qb)s' % names)
    return st, names


# ---------------------------------------------------------------------------
# D1

def is_issparse_of(e, tprob):
    return isinstance(e, ast.Call) and (call_name(e) or '').split('.')[-1] in ('issparse', 'isspmatrix') \
        and len(e.args) == 1 and not e.keywords and isinstance(e.args[0], ast.Name) and e.args[0].id == tprob


def sparse_polarity(test, polarity, tprob):
    """'sparse' / 'dense' if (test is polarity) fixes issparse(tprob), else None."""
    cj = conjuncts(test, polarity)
    for c in cj or []:
        if isinstance(c, tuple) and c[0] == 'expr' and is_issparse_of(c[1], tprob):
            return 'sparse' if c[2] else 'dense'
    return None


def branch_of(fi, site, tprob):
    for a in fi.cfg.nodes:
        if isinstance(a, Assume) and fi.cfg.dominates(a, site):
            lab = sparse_polarity(a.test, a.polarity, tprob)
            if lab is not None:
                return lab
    return None


def _full_slice(s):
    return isinstance(s, ast.Slice) and s.lower is None and s.upper is None and s.step is None


def _none(e):
    return isinstance(e, ast.Constant) and e.value is None


def _minus1_or(e, sizes):
    return u(e) == '-1' or u(e) in sizes


def oriented(e, sizes):
    """('row', x) for x[:, None] / x.reshape(n, 1); ('col', x) for x[None, :]
    / x[None] / x.reshape(1, n); else None.  (canonical trees)"""
    if isinstance(e, ast.Subscript):
        s = e.slice
        if isinstance(s, ast.Tuple) and len(s.elts) == 2:
            a, b = s.elts
            if _full_slice(a) and _none(b):
                return 'row', e.value
            if _none(a) and _full_slice(b):
                return 'col', e.value
        if _none(s):
            return 'col', e.value
    if isinstance(e, ast.Call) and isinstance(e.func, ast.Attribute) and e.func.attr == 'reshape' and not e.keywords:
        a = list(e.args)
        if len(a) == 1 and isinstance(a[0], ast.Tuple):
            a = list(a[0].elts)
        if len(a) == 2:
            if _minus1_or(a[0], sizes) and u(a[1]) == '1':
                return 'row', e.func.value
            if u(a[0]) == '1' and _minus1_or(a[1], sizes):
                return 'col', e.func.value
    return None


CONVERSIONS = {'tolil', 'tocsr', 'tocsc', 'tocoo', 'tobsr', 'todok', 'todia', 'copy'}


def diag_vector(e, mode):
    """v if e builds the square matrix diag(v) with v on the MAIN diagonal:
    sparse.diags(v) / sparse.diags(v, 0) / sparse.diags([v], [0]) /
    sparse.diags_array(v) / sparse.spdiags(v, 0, n, n) (any storage format),
    in dense context also np.diag(v) / np.diagflat(v).  None otherwise."""
    while isinstance(e, ast.Call) and isinstance(e.func, ast.Attribute) and e.func.attr in CONVERSIONS and not e.args and not e.keywords \
            and isinstance(e.func.value, ast.Call):
        e = e.func.value
    if not isinstance(e, ast.Call):
        return None
    b = sparse_builder(e)
    if b in ('diags', 'diags_array'):
        a = bind_args(e, ['diagonals', 'offsets', 'shape', 'format', 'dtype'])
        if a is None or 'diagonals' not in a or 'shape' in a:
            return None
        v, off = a['diagonals'], a.get('offsets')
        if isinstance(v, (ast.List, ast.Tuple)):
            if len(v.elts) != 1 or not (isinstance(off, (ast.List, ast.Tuple)) and len(off.elts) == 1 and zero_const(off.elts[0])):
                return None
            return v.elts[0]
        return v if off is None or zero_const(off) else None
    if b == 'spdiags':
        a = bind_args(e, ['data', 'diags', 'm', 'n', 'format'])
        if a is None or 'data' not in a or not zero_const(a.get('diags')) or 'm' not in a:
            return None
        if 'n' in a and u(a['n']) != u(a['m']):
            return None
        return a['data']
    if mode == 'dense' and call_name(e) in ('np.diag', 'np.diagflat') and len(e.args) == 1 and not e.keywords:
        return e.args[0]
    return None


def product_factors(e, mode, tprob, sizes, vectors=(), family=None):
    """Factor lists of an elementwise product tree.
    -> (base, rows, cols, problems): occurrences of the matrix, factors
    broadcast along rows (trailing new axis), along columns, and the
    sub-expressions that are not an elementwise product of plain names.

    Scaling by a diagonal matrix with the MATRIX product is the same function:
    X @ diag(v) scales column j by v[j], diag(v) @ X scales row i by v[i]
    (`@` and .dot are the matrix product for ndarrays and for both
    scipy.sparse container families).

    `family` (a list) receives the `*` operations of the sparse branch whose
    meaning depends on the scipy.sparse container FAMILY: for the *_matrix
    classes `*` is the matrix product, for the *_array classes it is the
    elementwise product.  That is the case when one operand is the
    sparse-capable matrix (contains `tprob`) and the other one is known not to
    be a scalar: a sparse diagonal matrix, one of the `vectors`, an oriented
    vector, or the matrix again."""
    base, rows, cols, problems = [], [], [], []
    vectors = set(vectors)

    def vec(x, out):
        if isinstance(x, ast.BinOp) and isinstance(x.op, ast.Mult):
            vec(x.left, out)
            vec(x.right, out)
        elif isinstance(x, ast.Call) and call_name(x) == 'np.multiply' and len(x.args) == 2 and not x.keywords:
            vec(x.args[0], out)
            vec(x.args[1], out)
        elif isinstance(x, ast.Name):
            out.append(x.id)
        else:
            problems.append(u(x)[:80])

    def holds_matrix(x):
        """x is computed from the sparse-capable matrix by container-valued operations."""
        if isinstance(x, ast.Name):
            return x.id == tprob
        if isinstance(x, ast.BinOp) and isinstance(x.op, (ast.Mult, ast.MatMult, ast.Add, ast.Sub)):
            return holds_matrix(x.left) or holds_matrix(x.right)
        if isinstance(x, ast.Attribute) and x.attr == 'T':
            return holds_matrix(x.value)
        if isinstance(x, ast.Call) and isinstance(x.func, ast.Attribute) and x.func.attr in SPARSE_KEEP | {'dot'}:
            return holds_matrix(x.func.value) or (x.func.attr == 'dot' and any(holds_matrix(a) for a in x.args))
        return False

    def non_scalar(x):
        """x is known to be a vector or a matrix (never a scalar)."""
        if diag_vector(x, 'sparse') is not None or sparse_builder(x) is not None or oriented(x, sizes) is not None or holds_matrix(x):
            return True
        if isinstance(x, ast.Name):
            return x.id in vectors
        if isinstance(x, ast.BinOp) and isinstance(x.op, (ast.Mult, ast.Add, ast.Sub, ast.Div)):
            return non_scalar(x.left) or non_scalar(x.right)        # broadcasting: one non-scalar operand is enough
        return False

    def matmul(l, r, x, mode):
        dl, dr = diag_vector(l, mode), diag_vector(r, mode)
        if dr is not None and dl is None:
            mat(l, mode)
            vec(dr, cols)
        elif dl is not None and dr is None:
            mat(r, mode)
            vec(dl, rows)
        else:
            problems.append('matrix product whose other operand is not a diagonal matrix diag(v): %s' % u(x)[:80])

    def mat(x, mode):
        if isinstance(x, ast.BinOp) and isinstance(x.op, ast.MatMult):
            matmul(x.left, x.right, x, mode)
            return
        if isinstance(x, ast.BinOp) and isinstance(x.op, ast.Mult):
            if mode == 'sparse':
                other = x.right if holds_matrix(x.left) else x.left if holds_matrix(x.right) else None
                if family is not None and other is not None and non_scalar(other):
                    family.append((x, other))
                    return
                problems.append('`*` applied to the sparse container (matrix product for scipy.sparse matrices): %s' % u(x)[:80])
                return
            mat(x.left, mode)
            mat(x.right, mode)
            return
        if isinstance(x, ast.Call) and isinstance(x.func, ast.Attribute) and not x.keywords:
            cn = call_name(x)
            if cn == 'np.multiply' and len(x.args) == 2 and mode == 'dense':
                mat(x.args[0], mode)
                mat(x.args[1], mode)
                return
            if cn == 'np.outer' and len(x.args) == 2:
                vec(x.args[0], rows)
                vec(x.args[1], cols)
                return
            if x.func.attr == 'multiply' and len(x.args) == 1 and mode == 'sparse':
                mat(x.func.value, mode)
                mat(x.args[0], 'dense')     # the operand of .multiply is a dense array
                return
            if x.func.attr in CONVERSIONS and not x.args and (mode == 'sparse' or x.func.attr == 'copy'):
                mat(x.func.value, mode)
                return
            if x.func.attr == 'dot' and len(x.args) == 1 and cn not in ('np.dot', 'numpy.dot'):
                matmul(x.func.value, x.args[0], x, mode)
                return
        o = oriented(x, sizes)
        if o is not None:
            vec(o[1], rows if o[0] == 'row' else cols)
            return
        if isinstance(x, ast.Name) and x.id == tprob:
            base.append(x.id)
            return
        vec(x, cols)            # a plain 1-d vector broadcasts along the last axis

    mat(e, mode)
    return base, rows, cols, problems


def source_stmt(fi, x):
    """The statement in which the node x of an expanded tree was written (xval
    keeps the source position of every node it copies), else None."""
    ln = getattr(x, 'lineno', None)
    if ln is None:
        return None
    best = None
    for st in fi.cfg.nodes:
        if isinstance(st, ast.stmt) and not isinstance(st, (ast.If, ast.For, ast.While, ast.With, ast.Try)) \
                and getattr(st, 'lineno', None) is not None and st.lineno <= ln <= (getattr(st, 'end_lineno', None) or st.lineno):
            if best is None or st.lineno > best.lineno:
                best = st
    return best


def d1_fluxes(ck, mod, roles):
    rule = 'C08.D1.flux'
    F = 'reactive_fluxes'
    fn = mod.func(F)
    ck.analysed(mod, fn)
    fi = finfo(mod, fn)
    tprob = params(fn)[0]
    if roles is None:
        ck.missing(rule + '.roles', 'result roles of %s unknown: flux formula not checked' % HELPER)
        return
    un = unpack_roles(ck, rule + '.roles', mod, fn, fi, roles, F)
    if un is None:
        return
    unp, nm = un
    pi, n, qf, qb = nm['pi'], nm['n'], nm['qf'], nm['qb']
    sizes = {n} | {'%s.shape[%d]' % (x, i) for x in (tprob,) for i in (0, 1)} | \
        {t % v for v in (pi, qf, qb) for t in ('len(%s)', '%s.shape[0]', '%s.size')}
    want = {tprob: frozenset(['PARAM']), pi: frozenset([unp]), qf: frozenset([unp]), qb: frozenset([unp])}
    rets = returns_of(fn)
    if not rets:
        ck.missing(rule, 'return statement of %s' % F)
        return
    n_formulas = 0
    labels = set()
    for r in rets:
        if not isinstance(r.value, ast.Name):
            ck.missing(rule, '%s does not return a named matrix: %s' % (F, u(r)[:120]))
            continue
        M = r.value.id
        sizes_m = sizes | {'%s.shape[0]' % M, '%s.shape[1]' % M}
        # source order (a set of AST nodes iterates in address order: the
        # evidence and the order of the messages must not depend on that)
        sites = sorted(fi.defs_of_use(r.value), key=lambda s: (0, 0, s) if isinstance(s, str)
                       else (1, getattr(s, 'lineno', 0), ''))
        pure_product = {}          # def site -> formula recognised as the plain product
        for site in sites:
            v = fi.def_value(site, M) if isinstance(site, (ast.Assign, ast.AnnAssign)) else None
            if v is None:
                ck.missing(rule, 'definition of the returned matrix `%s` in %s is not a plain assignment (%s)' % (
                    M, F, site if isinstance(site, str) else u(site)[:100]))
                continue
            tree, leaf = expand_info(fi, v)
            lab = branch_of(fi, site, tprob)
            alts = [(lab, tree)]
            if lab is None and isinstance(tree, ast.IfExp):
                l2 = sparse_polarity(tree.test, True, tprob)
                if l2 is not None:
                    alts = [(l2, tree.body), ('dense' if l2 == 'sparse' else 'sparse', tree.orelse)]
            for lab, t in alts:
                if lab is None:
                    ck.missing(rule, 'definition `%s` of the returned matrix is not under a sparse.issparse(%s) decision' % (u(site)[:100], tprob))
                    continue
                labels.add(lab)
                n_formulas += 1
                family = []
                base, rows, cols, problems = product_factors(t, lab, tprob, sizes_m, vectors=(pi, qf, qb), family=family)
                construct = '%s: %s' % (lab, u(site)[:200])
                if family:
                    x, other = family[0]
                    where = source_stmt(fi, x) or site
                    ck.bad(rule + '.sparse-operator', mod, where, F, '`*` between the scipy.sparse-capable matrix and a non-scalar operand',
                           'in the branch taken for scipy.sparse input the flux product uses the `*` operator on the sparse container: `%s`. '
                           'Its meaning depends on the container family - for the scipy.sparse *_matrix classes `*` is the MATRIX product, for the '
                           '*_array classes (csr_array, coo_array, ...; sparse.issparse is True for them as well) it is the ELEMENTWISE product - and '
                           'the other operand `%s` is not a scalar, so the two families compute different functions of the same operands: at most one '
                           'of them is T[i,j]*(pi*q-)[i]*q+[j] (elementwise with a diagonal matrix keeps only the diagonal T[i,i], which the reset '
                           'then zeroes; the matrix product with a vector is a matrix-vector product). Use what every container defines with one '
                           'meaning: .multiply(...) for the elementwise product, `@` / .dot for the matrix product'
                           % (u(x)[:160], u(other)[:80]))
                    continue
                known = set(want)
                foreign = [x for x in base + rows + cols if x not in known]
                stale = [x for x in set(base + rows + cols) if x in known and leaf.get(x) != {want[x]}]
                if problems or foreign or stale:
                    ck.missing(rule, 'flux product of the %s branch not recognised as an elementwise product of %s, %s, %s, %s: %s' % (
                        lab, tprob, pi, qb, qf, '; '.join(problems + foreign + ['%s rebound' % x for x in stale])[:200]))
                    continue
                ok = base == [tprob] and sorted(rows) == sorted([pi, qb]) and cols == [qf]
                ck.check(ok, rule, mod, site, F, construct,
                         'f[i, j] = T[i, j] * (pi * q-)[i] * q+[j]: row factors %s, column factors %s' % (sorted(rows), cols),
                         '%s branch: the flux must scale ROW i by pi[i]*q-[i] (factor with a trailing new axis, e.g. '
                         '[:, None]) and COLUMN j by q+[j] (plain vector), each exactly once; found matrix factors %s, row factors %s and column factors %s '
                         '- a transposed broadcast weights columns by the populations/backward committor' % (lab, base, sorted(rows), sorted(cols)))
                if ok:
                    pure_product[site] = True
        d1_diagonal(ck, mod, fn, fi, r, M, sites, pure_product, sizes_m, {M, tprob, n, pi, qf, qb})
    if labels and labels != {'sparse', 'dense'}:
        ck.missing(rule, 'the matrix returned by %s is defined on the %s path only: sparse/dense decision not recognised' % (F, '/'.join(sorted(labels))))
    ck.floor(rule, n_formulas, 2, 'flux products (sparse and dense)')


def d1_diagonal(ck, mod, fn, fi, ret, M, sites, pure_product, sizes, scope):
    rule = 'C08.D1.flux.diagonal'
    F = 'reactive_fluxes'
    IDX = ['(np.arange(_A), np.arange(_B))', '(range(_A), range(_B))', 'np.diag_indices(_A)', 'np.diag_indices_from(%s)' % M]
    VAL = ['np.zeros(_S)', 'np.zeros(_S, dtype=_T)', 'np.zeros(_S, _T)', 'np.zeros(shape=_S)', 'np.zeros(shape=_S, dtype=_T)', '0', '0.0']
    FLOATS = ('float', 'np.float64', 'np.double', "'float'", "'float64'", 'np.float_', 'np.float32', 'tprob.dtype', '%s.dtype' % M)

    def sized(v):
        """match whose size operands are not a length of the matrix -> near"""
        if v[0] != 'match':
            return v
        for k, e in v[1].items():
            if k == '_S' and isinstance(e, (ast.Tuple, ast.List)) and len(e.elts) == 1:
                e = e.elts[0]           # shape (n,) is shape n
            if k in ('_A', '_B', '_S') and u(e) not in sizes:
                return ('near', 1, None)
            if k == '_T' and u(e) not in FLOATS:
                return ('far', 1, None)
        return v

    good, seen, tried = [], set(), []
    recognised_all = True
    for s, t in subscript_stores(fn, M):
        seen.add(s)
        if not isinstance(s, ast.Assign) or len(s.targets) != 1:
            recognised_all = False
            ck.missing(rule, 'in-place update of the flux matrix not recognised: %s' % u(s)[:120])
            continue
        vi = sized(classify(canon(xval(fi, t.slice, stop=(M,))), IDX, scope=scope))
        vv = sized(classify(canon(xval(fi, s.value, stop=(M,))), VAL, scope=scope))
        v = vi if vi[0] != 'match' else vv
        if vi[0] == 'match' and vv[0] == 'match':
            good.append(s)
        elif 'far' in (vi[0], vv[0]):
            recognised_all = False
            v = vi if vi[0] == 'far' else vv
        elif vi[0] == 'near':
            v = vi
        if v[0] == 'near':
            tried.append(s)
        ck.decide(v, rule, mod, s, F, u(s)[:200],
                  'self-transitions carry no reactive flux: the diagonal (i, i), i < n_states, is set to zero',
                  'the only store into the flux matrix must set exactly its diagonal (np.arange(n), np.arange(n)) to zero')
    for s in fi.cfg.nodes:
        c = s.value if isinstance(s, ast.Expr) and isinstance(s.value, ast.Call) else None
        if c is None:
            continue
        if call_name(c) == 'np.fill_diagonal' and c.args and isinstance(c.args[0], ast.Name) and c.args[0].id == M:
            seen.add(s)
            b = bind_args(c, ['a', 'val', 'wrap'])
            ok = b is not None and zero_const(canon(xval(fi, b['val'])) if 'val' in b else None)
            ck.check(ok, rule, mod, s, F, u(s)[:200], 'diagonal filled with zero', 'np.fill_diagonal must write 0 on the diagonal of the flux matrix')
            (good if ok else tried).append(s)
        elif isinstance(c.func, ast.Attribute) and c.func.attr == 'setdiag' and isinstance(c.func.value, ast.Name) and c.func.value.id == M:
            seen.add(s)
            b = bind_args(c, ['values', 'k'])
            ok = b is not None and 'values' in b and zero_const(canon(xval(fi, b['values']))) and ('k' not in b or zero_const(b['k']))
            ck.check(ok, rule, mod, s, F, u(s)[:200], 'main diagonal set to zero', 'setdiag must write 0 on the MAIN diagonal (k=0) of the flux matrix')
            (good if ok else tried).append(s)
    for s in inplace_sites(fi, M):
        if s not in seen and not (isinstance(s, ast.AugAssign) and isinstance(s.target, ast.Name)):
            recognised_all = False
            ck.missing(rule, 'in-place update of the flux matrix not recognised: %s' % u(s)[:120])
    # every path product -> return passes through a diagonal reset
    uncovered = []
    for site in sites:
        if isinstance(site, str):
            continue
        if not fi.cfg.reachable(site, ret, avoiding=good):
            ck.ok(rule, mod, site, 'reset after: %s' % u(site)[:120], 'diagonal zeroed after the product and before the return')
        elif not fi.cfg.reachable(site, ret, avoiding=good + tried):
            pass                    # the store on this path was reported above
        elif recognised_all and pure_product.get(site):
            uncovered.append(site)
        else:
            ck.missing(rule, 'no recognised diagonal reset between `%s` and the return' % u(site)[:100])
    if uncovered:
        ck.bad(rule, mod, good[0] if good else ret, F, u(good[0])[:200] if good else 'diagonal reset',
               'the diagonal of the flux matrix must be set to zero after the product and before the return, for both branches: '
               'the product %s reaches the return without passing a diagonal reset' % ' / '.join('`%s`' % u(x)[:100] for x in uncovered))


# ---------------------------------------------------------------------------
# D2

def d2_net(ck, mod):
    rule = 'C08.D2.net-flux'
    F = 'net_fluxes'
    fn = mod.func(F)
    ck.analysed(mod, fn)
    fi = finfo(mod, fn)
    calls = [c for c in calls_in(fn) if (call_name(c) or '').split('.')[-1] == 'reactive_fluxes']
    if len(calls) != 1:
        ck.missing(rule, 'exactly one call of reactive_fluxes in net_fluxes (found %d)' % len(calls))
        return
    call = calls[0]
    cst = fi.stmt(call)
    pass_through(ck, rule, mod, fn, fi, call, params(mod.func('reactive_fluxes')), F)
    if not (isinstance(cst, ast.Assign) and cst.value is call and len(cst.targets) == 1 and isinstance(cst.targets[0], ast.Name)):
        ck.missing(rule, 'result of reactive_fluxes is not bound to a name in net_fluxes')
        return
    f = cst.targets[0].id
    DIFF = ['%s - %s.T' % (f, f), '%s - %s.transpose()' % (f, f), '%s - np.transpose(%s)' % (f, f), '%s - %s.transpose(1, 0)' % (f, f),
            '%s - %s.swapaxes(0, 1)' % (f, f), 'np.subtract(%s, %s.T)' % (f, f)]

    def diff(tree, leaf, node):
        v = classify(tree, DIFF, scope={f})
        if v[0] == 'match' and leaf.get(f) != {frozenset([cst])}:
            v = ('far', 0, None)
        return ck.decide(v, rule, mod, node, F, u(node)[:200], 'net = f - f^T of the same f',
                         'net flux must be fluxes - fluxes.T of the reactive fluxes (f^T - f gives the reverse direction)')

    rets = returns_of(fn)
    if not rets:
        ck.missing(rule, 'return statement of net_fluxes')
    for r in rets:
        if r.value is None:
            ck.missing(rule, 'net_fluxes returns nothing')
            continue
        tree, leaf = expand_info(fi, r.value)
        if isinstance(tree, ast.Name) and isinstance(r.value, ast.Name):
            # a named matrix that is updated in place before the return
            N = tree.id
            sites = fi.defs_of_use(r.value)
            site = next(iter(sites)) if len(sites) == 1 else None
            v = fi.def_value(site, N) if isinstance(site, (ast.Assign, ast.AnnAssign)) else None
            if v is None:
                ck.missing(rule, 'single plain definition of the returned matrix `%s`' % N)
                continue
            dtree, dleaf = expand_info(fi, v)
            inner = functional_positive_part(dtree)
            if inner is not None:
                diff(inner, dleaf, site)
                ck.ok(rule + '.positive-part', mod, site, u(site)[:200], 'negative entries set to zero')
                continue
            diff(dtree, dleaf, site)
            d2_clip(ck, mod, fn, fi, r, N, site)
        else:
            inner = functional_positive_part(tree)
            if inner is None:
                v = classify(tree, DIFF, scope={f})
                if v[0] == 'match':
                    ck.bad(rule + '.positive-part', mod, r, F, u(r)[:200], 'the net flux must keep only the positive part of f - f^T: the difference is returned unclipped')
                else:
                    ck.missing(rule, 'value returned by net_fluxes not recognised: %s' % u(tree)[:120])
                continue
            diff(inner, leaf, r)
            ck.ok(rule + '.positive-part', mod, r, u(r)[:200], 'negative entries set to zero')
    ck.floor(rule + '.positive-part', ck.rule_counts.get(rule + '.positive-part', 0), 1, 'positive-part step')


def functional_positive_part(tree):
    """_D if tree is max(_D, 0) written functionally."""
    forms = ['np.maximum(_D, _Z)', 'np.maximum(_Z, _D)', '_D.clip(min=_Z)', '_D.clip(_Z, None)', '_D.clip(_Z)', 'np.clip(_D, _Z, None)',
             'np.clip(_D, a_min=_Z, a_max=None)', 'np.where(_D < _Z, _Z, _D)', 'np.where(_D <= _Z, _Z, _D)', 'np.where(_Z < _D, _D, _Z)',
             'np.where(_Z <= _D, _D, _Z)']
    for p in forms:
        b = match_any([p], tree)
        if b is not None and zero_const(b['_Z']):
            return b['_D']
    return None


def d2_clip(ck, mod, fn, fi, ret, N, site):
    rule = 'C08.D2.net-flux.positive-part'
    F = 'net_fluxes'
    IDX = ['np.where(%s < _Z)' % N, '%s < _Z' % N, 'np.nonzero(%s < _Z)' % N, 'np.where(%s <= _Z)' % N, '%s <= _Z' % N, 'np.nonzero(%s <= _Z)' % N]
    good, seen, all_rec, tried = [], set(), True, []
    for s, t in subscript_stores(fn, N):
        seen.add(s)
        if not isinstance(s, ast.Assign) or len(s.targets) != 1:
            all_rec = False
            ck.missing(rule, 'in-place update of the net flux matrix not recognised: %s' % u(s)[:120])
            continue
        vi = classify(canon(xval(fi, t.slice, stop=(N,))), IDX, scope={N})
        if vi[0] == 'match' and not zero_const(vi[1]['_Z']):
            vi = ('near', 1, None)
        val = canon(xval(fi, s.value, stop=(N,)))
        if vi[0] == 'match':
            vv = ('match', {}) if zero_const(val) else classify(val, ['0'], scope={N})
        else:
            vv = ('match', {})
        v = vi if vi[0] != 'match' else vv
        if v[0] == 'match':
            good.append(s)
        elif v[0] == 'far':
            all_rec = False
        else:
            tried.append(s)
        ck.decide(v, rule, mod, s, F, u(s)[:200], 'negative entries set to zero (at most one direction per pair carries net flux)',
                  'the net flux must keep only the positive part of f - f^T: exactly the entries < 0 are set to 0 (a tolerance test also '
                  'erases genuine small positive net fluxes)')
    for s in inplace_sites(fi, N):
        if s not in seen:
            all_rec = False
            ck.missing(rule, 'in-place update of the net flux matrix not recognised: %s' % u(s)[:120])
    if not fi.cfg.reachable(site, ret, avoiding=good):
        if good:
            ck.ok(rule, mod, good[0], 'clip before return: %s' % u(good[0])[:120], 'every path from f - f^T to the return clips the negatives')
    elif not fi.cfg.reachable(site, ret, avoiding=good + tried):
        pass                        # the store on this path was reported above
    elif all_rec:
        ck.bad(rule, mod, good[0] if good else ret, F, u(good[0])[:200] if good else 'positive part',
               'the net flux must keep only the positive part of f - f^T: the difference reaches the return without the negatives being set to zero')
    else:
        ck.missing(rule, 'positive-part step between f - f^T and the return not recognised')


# ---------------------------------------------------------------------------
# D2 (containers): a sparse tprob gives a sparse flux matrix; what net_fluxes
# does to it must be something scipy.sparse containers support

# methods of a scipy.sparse container that return a scipy.sparse container
SPARSE_KEEP = CONVERSIONS | {'multiply', 'transpose', 'maximum', 'minimum', 'astype', 'power', 'conj', 'conjugate', 'asformat'}
SPARSE_DENSIFY = {'toarray', 'todense'}
# numpy functions that coerce their argument with np.asarray (a sparse
# container becomes a 0-d object array: ValueError / garbage) or compare it as a whole
# (each entry tried against scipy 1.18 / numpy 2.4 on a csr matrix)
NP_NO_SPARSE = {'where', 'flatnonzero', 'maximum', 'minimum', 'fmax', 'fmin', 'clip', 'isclose'}
# numpy functions that dispatch to the method of the same name (np.argwhere: transpose of nonzero)
NP_DISPATCH = {'transpose', 'nonzero', 'argwhere'}
NP_KEEP = {'transpose'}                 # ... and hand a sparse container back
NP_MODS = ('np', 'numpy')


def _issparse_arg(e):
    if isinstance(e, ast.Call) and (call_name(e) or '').split('.')[-1] in ('issparse', 'isspmatrix') and len(e.args) == 1 and not e.keywords:
        return e.args[0]
    return None


class Containers:
    """Which expressions of a function can evaluate to a scipy.sparse
    container ('sparse'), which cannot ('dense'); None = not known.  Sources:
    the matrix parameter (sparse unless an issparse test on it excludes that at
    the point of use) and the definition sites given in `sources`.  Kinds are
    propagated through the operations scipy.sparse defines (conversion methods,
    .T, +/- of two sparse operands, comparison with a scalar, elementwise
    methods); an in-place store does not change the kind of its object."""

    def __init__(self, fi, matrix_param, sources=None):
        self.fi, self.param, self.sources = fi, matrix_param, sources or {}

    def guard(self, stmt):
        """'sparse' / 'dense' if a test issparse(<x>) on a value that can be sparse dominates stmt."""
        fi = self.fi
        for a in fi.cfg.nodes:
            if not (isinstance(a, Assume) and fi.cfg.dominates(a, stmt)):
                continue
            for c in conjuncts(a.test, a.polarity) or []:
                if isinstance(c, tuple) and c[0] == 'expr':
                    x = _issparse_arg(c[1])
                    if x is not None and self.kind(x, use_guard=False) == 'sparse':
                        return 'sparse' if c[2] else 'dense'
        return None

    def kind(self, e, depth=10, use_guard=True):
        fi = self.fi
        if depth <= 0 or e is None:
            return None
        k = lambda x: self.kind(x, depth - 1, use_guard)
        if isinstance(e, ast.Constant):
            return 'dense'
        if isinstance(e, ast.Name):
            try:
                st = fi.stmt(e)
                defs = fi.defs_of_use(e)
            except Exception:
                return None
            if use_guard and st is not None and self.guard(st) == 'dense':
                # (every value that can be sparse here derives from the tested one: single matrix input)
                return 'dense'
            ks = []
            for d in defs:
                if d in self.sources:
                    ks.append(self.sources[d])
                elif d == 'PARAM':
                    ks.append('sparse' if e.id == self.param else None)
                elif isinstance(d, (ast.Assign, ast.AnnAssign)):
                    ks.append(k(fi.def_value(d, e.id)))
                else:
                    ks.append(None)
            if 'sparse' in ks:
                return 'sparse'
            return 'dense' if ks and all(x == 'dense' for x in ks) else None
        if isinstance(e, ast.Attribute):
            if e.attr == 'T':
                return k(e.value)
            return 'dense' if e.attr == 'A' and k(e.value) == 'sparse' else None
        if isinstance(e, ast.UnaryOp) and isinstance(e.op, ast.USub):
            return k(e.operand)
        if isinstance(e, ast.BinOp) and isinstance(e.op, (ast.Add, ast.Sub)):
            l, r = k(e.left), k(e.right)
            if l == 'sparse' and r == 'sparse':
                return 'sparse'
            return 'dense' if l is not None and r is not None else None       # sparse +/- dense is a dense np.matrix
        if isinstance(e, ast.Compare) and len(e.ops) == 1:
            l, r = k(e.left), k(e.comparators[0])
            if 'sparse' in (l, r) and all(x == 'sparse' or isinstance(y, ast.Constant) or (isinstance(y, ast.UnaryOp) and isinstance(y.operand, ast.Constant))
                                          for x, y in ((l, e.left), (r, e.comparators[0]))):
                return 'sparse'             # a sparse boolean matrix
            return 'dense' if l == 'dense' and r == 'dense' else None
        if isinstance(e, ast.IfExp):
            a, b = k(e.body), k(e.orelse)
            return 'sparse' if 'sparse' in (a, b) else a if a == b else None
        if isinstance(e, ast.BinOp) and isinstance(e.op, (ast.Mult, ast.MatMult)):
            l, r = k(e.left), k(e.right)
            if l == 'sparse' and r == 'sparse':
                return 'sparse'             # matrix or elementwise product of two sparse containers
            if isinstance(e.op, ast.Mult) and ((l == 'sparse' and isinstance(e.right, ast.Constant)) or (r == 'sparse' and isinstance(e.left, ast.Constant))):
                return 'sparse'             # scaled by a number
            return 'dense' if l == 'dense' and r == 'dense' else None
        if isinstance(e, ast.Call):
            cn = call_name(e) or ''
            if sparse_builder(e) is not None:
                return 'sparse'
            if isinstance(e.func, ast.Attribute) and not (isinstance(e.func.value, ast.Name) and e.func.value.id in NP_MODS + ('copy', 'sparse', 'scipy')):
                base = k(e.func.value)
                if e.func.attr in SPARSE_DENSIFY:
                    return 'dense' if base is not None else None
                if e.func.attr in SPARSE_KEEP:
                    return base
                if e.func.attr == 'dot' and len(e.args) == 1 and not e.keywords:
                    r = k(e.args[0])        # the matrix product, as `@`
                    return 'sparse' if base == 'sparse' and r == 'sparse' else 'dense' if base == 'dense' and r == 'dense' else None
                return None
            if cn in ('copy.copy', 'copy.deepcopy') + tuple('%s.%s' % (m, f) for m in NP_MODS for f in NP_KEEP) and len(e.args) >= 1:
                return k(e.args[0])
        return None


def returns_container(mod, F):
    """'sparse' if F(tprob, ...) can return a scipy.sparse container (for a sparse tprob), 'dense' if it cannot, None if unknown."""
    fn = mod.func(F)
    co = Containers(finfo(mod, fn), params(fn)[0])
    ks = [co.kind(r.value) if r.value is not None else 'dense' for r in returns_of(fn)]
    if 'sparse' in ks:
        return 'sparse'
    return 'dense' if ks and all(x == 'dense' for x in ks) else None


def d2_containers(ck, mod):
    """Necessary for "dense and sparse containers": reactive_fluxes hands a
    scipy.sparse matrix back for a sparse tprob (its sparse branch), so every
    numpy function that net_fluxes applies to that matrix (or to f - f^T, or to
    a comparison of it) must accept scipy.sparse containers - np.where /
    np.maximum / np.clip / np.isclose do not (they see a 0-d object array);
    np.nonzero / np.transpose dispatch to the container's own method."""
    rule = 'C08.D2.net-flux.sparse-container'
    F = 'net_fluxes'
    fn = mod.func(F)
    fi = finfo(mod, fn)
    calls = [c for c in calls_in(fn) if (call_name(c) or '').split('.')[-1] == 'reactive_fluxes']
    cst = fi.stmt(calls[0]) if len(calls) == 1 else None
    if not (isinstance(cst, ast.Assign) and cst.value is calls[0] and len(cst.targets) == 1 and isinstance(cst.targets[0], ast.Name)):
        ck.missing(rule, 'result of the one reactive_fluxes call bound to a name in net_fluxes')
        return
    src = returns_container(mod, 'reactive_fluxes')
    if src is None:
        ck.missing(rule, 'container type of the matrix returned by reactive_fluxes for a sparse tprob not recognised')
        return
    if src == 'dense':
        ck.ok(rule, mod, cst, u(cst)[:160], 'reactive_fluxes returns a dense array for every input: nothing to show for net_fluxes')
        return
    co = Containers(fi, params(fn)[0], {cst: 'sparse'})
    n_bad = n_unknown = 0
    for c in calls_in(fn):
        cn = call_name(c) or ''
        if '.' not in cn or cn.split('.')[0] not in NP_MODS:
            continue
        f = cn.split('.', 1)[1]
        args = list(c.args) + [kw.value for kw in c.keywords]
        if not any(co.kind(a) == 'sparse' for a in args):
            continue
        st = fi.stmt(c)
        if f in NP_DISPATCH:
            continue
        if f in NP_NO_SPARSE:
            n_bad += 1
            ck.bad(rule, mod, st, F, 'np.%s applied to the (sparse-capable) net flux' % f,
                   'for a scipy.sparse tprob reactive_fluxes returns a sparse matrix, so `%s` hands a scipy.sparse container to np.%s, which '
                   'does not understand it (np.asarray of a sparse matrix is a 0-d object array: ValueError with NumPy >= 2, row 0 zeroed before): '
                   'net_fluxes fails for every sparse transition matrix. Use an operation the container defines (boolean-mask store, .maximum(0), '
                   '.nonzero()) or branch on issparse' % (u(c)[:100], f))
        else:
            n_unknown += 1
            ck.missing(rule, 'np.%s is applied to a value that is a scipy.sparse matrix for sparse input: `%s` (not in the table of functions)' % (f, u(c)[:100]))
    if not n_bad and not n_unknown:
        ck.ok(rule, mod, cst, u(cst)[:160], 'the flux matrix is sparse for sparse input; no numpy-only function is applied to it or to values derived from it')


# ---------------------------------------------------------------------------
# D3

def index_set_forms(p):
    out = [p]
    for src in ('np.array(%s)' % p, 'np.asarray(%s)' % p, 'np.array(%s, dtype=int)' % p, 'np.asarray(%s, dtype=int)' % p, 'np.atleast_1d(%s)' % p):
        out.append(src)
        for sfx in ('.reshape((-1,))', '.reshape(-1)', '.reshape([-1])', '.flatten()', '.ravel()'):
            out.append(src + sfx)
    return out


def d3_helper(ck, mod, roles, why):
    rule = 'C08.D3.committors'
    fn = mod.func(HELPER)
    ck.analysed(mod, fn)
    fi = finfo(mod, fn)
    if roles is None:
        ck.missing(rule, why)
        return
    tprob, sources, sinks, pops = params(fn)[:4]
    elts = roles['elts']
    qfe, qbe, pie, ne = (elts[roles[k]] for k in ('qf', 'qb', 'pi', 'n'))
    # --- q+ = committors(tprob, sources, sinks)
    call = comm_def(fi, qfe)
    cst = fi.stmt(call)
    try:
        cpar = params(ck.repo.mod(CO).func('committors'))[:3]
    except Exception:
        cpar = ['tprob', 'sources', 'sinks']
    b = bind_args(call, cpar)
    if b is None or len(b) != 3:
        ck.missing(rule, 'arguments of %s cannot be bound to committors(%s)' % (u(call)[:100], ', '.join(cpar)))
    else:
        a = b[cpar[0]]
        if is_param_use(fi, a, tprob):
            ck.ok(rule, mod, cst, '%s: %s' % (u(cst)[:120], cpar[0]), 'q+ from the same transition matrix')
        else:
            v = classify(canon(xval(fi, a)), [tprob], scope={tprob})
            ck.decide(v if v[0] != 'match' else 'far', rule, mod, cst, HELPER, u(cst)[:200], '', 'forward committors must be committors(tprob, sources, sinks) of the unmodified tprob')
        for slot, mine, other in ((cpar[1], sources, sinks), (cpar[2], sinks, sources)):
            a = b[slot]
            origin = {p for p in fi.derives_from(a)[0] if not p.startswith('<free>')}
            if origin == {other}:
                ck.bad(rule, mod, cst, HELPER, u(cst)[:200], 'forward committors must be committors(tprob, sources, sinks) in that argument order: '
                       '`%s` is handed the %s (q+ then is the committor of the reverse reaction)' % (slot, other))
                continue
            if origin != {mine}:
                ck.missing(rule, 'argument %s=%s of the committors call does not derive from `%s` alone' % (slot, u(a)[:80], mine))
                continue
            tree, leaf = expand_info(fi, a)
            v = classify(tree, index_set_forms(mine), scope={mine})
            if v[0] == 'match' and leaf.get(mine) != {frozenset(['PARAM'])}:
                v = ('far', 0, None)
            ck.decide(v, rule, mod, cst, HELPER, '%s: %s=%s' % (u(cst)[:120], slot, u(tree)[:60]), 'q+ = committors(tprob, sources, sinks)',
                      'the %s handed to committors must be the caller\'s %s (flattened), not another function of them' % (mine, mine))
    # --- q- = 1 - q+
    Q = qfe.id
    bcall = comm_call(fi, qbe)
    if bcall is not None and bcall is not call:
        d3_backward_call(ck, mod, fi, bcall, qbe, cpar, tprob, sources, sinks)
    else:
        tree, leaf = expand_info(fi, qbe)
        v = classify(tree, ['1 - %s' % Q, '1.0 - %s' % Q, '-%s + 1' % Q, '-%s + 1.0' % Q, 'np.subtract(1, %s)' % Q, 'np.ones_like(%s) - %s' % (Q, Q)], scope={Q})
        if v[0] == 'match' and any(d != fi.defs_of_use(qfe) for d in leaf.get(Q, ())):
            v = ('far', 0, None)
        ck.decide(v, rule, mod, def_stmt(fi, qbe), HELPER, 'q- = %s' % u(tree)[:160], 'q- = 1 - q+ (equilibrium)',
                  'backward committor must be 1 - forward committor (of the same committors call)')
    # --- n = len(pi)
    tree, leaf = expand_info(fi, ne)
    P = pie.id
    v = classify(tree, ['len(%s)' % P, '%s.shape[0]' % P, '%s.size' % P, '%s.shape[0]' % tprob, '%s.shape[1]' % tprob, 'int(len(%s))' % P], scope={P, tprob})
    if v[0] == 'match' and any(d != fi.defs_of_use(pie) for d in leaf.get(P, ())):
        v = ('far', 0, None)
    ck.decide(v, 'C08.D3.n-states', mod, def_stmt(fi, ne), HELPER, 'n = %s' % u(tree)[:120], 'number of states = length of the populations', 'n_states must be the number of states (len(populations))')
    d3_populations(ck, mod, fn, fi, pie, tprob, pops)


def same_matrix_forms(T):
    """Spellings of "the matrix T itself" (same entries; container or storage
    format may differ)."""
    return [T, '%s.copy()' % T, 'copy.copy(%s)' % T, 'copy.deepcopy(%s)' % T, '%s.T.T' % T, '%s.transpose().transpose()' % T] + \
        ['%s.%s()' % (T, m) for m in sorted(CONVERSIONS - {'copy'})]


# coercions whose result depends on the container kind of the operand (a
# scipy.sparse matrix becomes a 0-d object array): not "another function of T"
COERCIONS = ['np.asarray(_X)', 'np.asanyarray(_X)', 'np.asarray(_X, dtype=_T)', 'np.array(_X, dtype=_T)', 'np.asarray(_X, _T)',
             '_X.toarray()', '_X.todense()', '_X.A', '_X.astype(_T)']


def d3_backward_call(ck, mod, fi, bcall, qbe, cpar, tprob, sources, sinks):
    """q- obtained from a committor solve of its own.  For every chain in
    which sources U sinks is reached with probability one, the committor of
    the SAME transition matrix for the reaction sinks -> sources is exactly
    1 - q+ (each trajectory is absorbed in one of the two sets); that is the
    only call that is the backward committor of a reversible chain.  The
    backward committor proper belongs to the time-reversed chain
    diag(1/pi) T^T diag(pi), which is T itself under detailed balance: a call
    on another function of T alone (T^T, T@T, ...) solves a different chain."""
    rule = 'C08.D3.committors'
    st = def_stmt(fi, qbe)
    b = bind_args(bcall, cpar)
    if b is None or len(b) != 3:
        ck.missing(rule, 'arguments of the second committor solve %s cannot be bound to committors(%s)' % (u(bcall)[:100], ', '.join(cpar)))
        return
    construct = 'q- = %s' % u(bcall)[:160]
    # the chain
    tree, leaf = expand_info(fi, b[cpar[0]])
    v = classify(tree, same_matrix_forms(tprob), scope={tprob})
    if v[0] == 'match' and leaf.get(tprob) != {frozenset(['PARAM'])}:
        v = ('far', 0, None)
    if v[0] == 'near' and match_any(COERCIONS, tree) is not None:
        v = ('far', v[1], v[2])
    ck.decide(v, rule, mod, st, HELPER, construct, 'backward committor solved on the same chain as q+',
              'the backward committor of a reversible chain is 1 - q+, i.e. the committor of the SAME transition matrix for the reaction '
              'sinks -> sources; `%s` is solved on `%s`, a different chain: the time reversal of T is diag(1/pi) T^T diag(pi) (= T under detailed '
              'balance), not another function of T alone - with non-uniform populations the result is not 1 - q+ and the flux is no longer '
              'conserved' % (u(bcall)[:100], u(tree)[:60]))
    # the reaction: sinks -> sources
    for slot, mine, other in ((cpar[1], sinks, sources), (cpar[2], sources, sinks)):
        a = b[slot]
        origin = set_origin(fi, a)
        if origin == {other}:
            ck.bad(rule, mod, st, HELPER, construct, 'a committor solve that yields the backward committor must be the one of the reversed reaction, '
                   'committors(%s, %s, %s): `%s` is handed the %s, so q- repeats q+ instead of 1 - q+' % (tprob, sinks, sources, slot, other))
            continue
        if origin != {mine}:
            ck.missing(rule, 'argument %s=%s of the second committor solve does not derive from `%s` alone' % (slot, u(a)[:80], mine))
            continue
        tree, leaf = expand_info(fi, a)
        v = classify(tree, index_set_forms(mine), scope={mine})
        if v[0] == 'match' and leaf.get(mine) != {frozenset(['PARAM'])}:
            v = ('far', 0, None)
        ck.decide(v, rule, mod, st, HELPER, '%s: %s=%s' % (construct[:120], slot, u(tree)[:60]),
                  'q- = committors(T, sinks, sources) = 1 - q+ (every trajectory is absorbed in the sources or in the sinks)',
                  'the %s handed to the reversed committor solve must be the caller\'s %s (flattened), not another function of them' % (mine, mine))


def d3_populations(ck, mod, fn, fi, pie, tprob, pops):
    rule = 'C08.D3.committors.populations'
    BAD = 'populations must default to eq_probs(tprob) iff None'

    def eq_probs_of_tprob(v, node):
        tree = canon(xval(fi, v))
        if not (isinstance(tree, ast.Call) and (call_name(tree) or '').split('.')[-1] == 'eq_probs'):
            ck.missing(rule, 'default of the populations is not a call of eq_probs: %s' % u(tree)[:120])
            return
        b = bind_args(tree, ['T', 'maxiter', 'tol'])
        if b is None or 'T' not in b:
            ck.missing(rule, 'arguments of %s' % u(tree)[:120])
            return
        if set(b) - {'T'}:
            ck.missing(rule, 'eq_probs called with non-default solver settings: %s' % u(tree)[:120])
            return
        vv = classify(b['T'], [tprob, '%s.copy()' % tprob], scope={tprob})
        ck.decide(vv, rule, mod, node, HELPER, u(node)[:200], 'populations computed from tprob only when not supplied',
                  BAD + ': eq_probs takes the row-stochastic transition matrix itself (it extracts the LEFT eigenvector internally)')

    def none_test(test, polarity):
        cj = conjuncts(test, polarity)
        if cj is None or len(cj) != 1 or not isinstance(cj[0], Cmp):
            return 0
        c = cj[0]
        for a, b in ((c.lhs, c.rhs), (c.rhs, c.lhs)):
            if isinstance(a, ast.Name) and a.id == pops and isinstance(b, ast.Constant) and b.value is None and is_param_use(fi, a):
                return 1 if c.op is ast.Is else -1 if c.op is ast.IsNot else 0
        return 0

    if not isinstance(pie, ast.Name):
        ck.missing(rule, 'returned populations are not a name')
        return
    sites = fi.defs_of_use(pie)
    asg = [s for s in sites if not isinstance(s, str)]
    if 'UNBOUND' in sites or len(asg) != 1 or not isinstance(asg[0], ast.Assign) or fi.def_value(asg[0], pie.id) is None:
        ck.missing(rule, 'definitions of the returned populations not recognised (%d assignment(s)%s)' % (len(asg), ', parameter' if 'PARAM' in sites else ''))
        return
    s = asg[0]
    v = fi.def_value(s, pie.id)
    if 'PARAM' in sites:
        if pie.id != pops:
            ck.missing(rule, 'returned populations `%s` are not the parameter `%s`' % (pie.id, pops))
            return
        guards = [a for a in fi.cfg.nodes if isinstance(a, Assume) and fi.cfg.dominates(a, s)]
        if len(guards) != 1:
            ck.missing(rule, 'the defaulting assignment `%s` is not under exactly one condition' % u(s)[:100])
            return
        t = none_test(guards[0].test, guards[0].polarity)
        if t == 0:
            ck.missing(rule, 'condition of the defaulting assignment not recognised: %s' % u(guards[0].test)[:100])
            return
        if t < 0:
            ck.bad(rule, mod, s, HELPER, u(s)[:200], BAD + ': the assignment runs when populations were SUPPLIED and replaces them')
            return
        eq_probs_of_tprob(v, s)
        return
    # a single unconditional definition: must be a conditional expression
    tree = v
    if isinstance(tree, ast.IfExp):
        t = none_test(tree.test, True)
        if t == 0:
            ck.missing(rule, 'condition of the populations default not recognised: %s' % u(tree.test)[:100])
            return
        none_val, other = (tree.body, tree.orelse) if t > 0 else (tree.orelse, tree.body)
        if not is_param_use(fi, other, pops):
            ex = canon(xval(fi, other))
            if isinstance(ex, ast.Call) and (call_name(ex) or '').split('.')[-1] == 'eq_probs':
                ck.bad(rule, mod, s, HELPER, u(s)[:200], BAD + ': supplied populations are replaced by eq_probs')
            else:
                ck.missing(rule, 'value kept when populations are supplied is not the parameter itself: %s' % u(other)[:100])
            return
        eq_probs_of_tprob(none_val, s)
        return
    ex = canon(xval(fi, tree))
    if isinstance(ex, ast.Call) and (call_name(ex) or '').split('.')[-1] == 'eq_probs':
        ck.bad(rule, mod, s, HELPER, u(s)[:200], BAD + ': the caller\'s populations are overwritten unconditionally')
    else:
        ck.missing(rule, 'definition of the populations not recognised: %s' % u(s)[:120])


def d3_reactive_populations(ck, mod, roles):
    rule = 'C08.D3.reactive-populations'
    F = 'reactive_populations'
    fn = mod.func(F)
    ck.analysed(mod, fn)
    fi = finfo(mod, fn)
    if roles is None:
        ck.missing(rule, 'result roles of %s unknown: reactive populations not checked' % HELPER)
        return
    un = unpack_roles(ck, rule, mod, fn, fi, roles, F)
    if un is None:
        return
    unp, nm = un
    pi, qf, qb = nm['pi'], nm['qf'], nm['qb']
    want = sorted([pi, qf, qb])
    rets = returns_of(fn)
    if not rets:
        ck.missing(rule, 'return statement of %s' % F)
    n = 0
    for r in rets:
        if r.value is None:
            ck.missing(rule, '%s returns nothing' % F)
            continue
        tree, leaf = expand_info(fi, r.value)
        b = match_any(['_A / _B.sum()', '_A / sum(_B)', '_A / _B.sum(axis=0)', '_A / _B.sum(0)', 'np.divide(_A, _B.sum())'], tree)
        parts = None
        if b is not None:
            parts = []
            for k in ('_A', '_B'):
                base, rows, cols, problems = product_factors(b[k], 'dense', '', set())
                parts.append(None if (problems or base or rows) else sorted(cols))
        stale = [x for x in (pi, qf, qb) if x in leaf and leaf[x] != {frozenset([unp])}]
        if b is None or None in parts or stale or any(set(p) - set(want) for p in parts):
            v = classify(tree, ['_A / _A.sum()'], scope=set(want))
            if v[0] == 'match' or stale:
                v = ('far', 0, None)
            ck.decide(v, rule, mod, r, F, u(tree)[:200], '', 'reactive populations must be pi*q+*q- divided by the sum of pi*q+*q-')
            continue
        n += 1
        ck.check(parts[0] == want, rule, mod, r, F, 'densities = %s' % u(b['_A'])[:160], 'm_i = pi_i q+_i q-_i',
                 'reactive densities must be populations * forward * reverse committors (each once); found factors %s' % parts[0])
        ck.check(parts[1] == parts[0], rule, mod, r, F, 'normalisation = sum(%s)' % u(b['_B'])[:160], 'normalised by its own sum (probability vector)',
                 'reactive populations must be densities / sum(densities): numerator factors %s, summed factors %s' % (parts[0], parts[1]))
    ck.floor(rule, n, 1, 'normalised reactive densities')


# ---------------------------------------------------------------------------
# D3 (hidden state): the property quantifies over ALL inputs, in any order of
# calls - what a TPT function returns must be a function of the arguments of
# THIS call.  A value that is read from module-level state which some function
# of the module writes (a memo / "last result" cache, a `global`, an attribute
# hung on a module-level function, a mutable default argument) reaches the
# result only if the decision "reuse or recompute" compares the CONTENTS of
# every argument the stored value was computed from.
# (candidate for promotion to sa/rules/extra.py)

STATE_MUTATORS = MUTATING_METHODS | {'move_to_end', 'appendleft', 'extendleft', 'popleft', 'difference_update', 'intersection_update',
                                    'symmetric_difference_update', '__setitem__', '__delitem__'}
MEMO_DECORATORS = {'lru_cache', 'cache', 'cached', 'memoize', 'memoized', 'memoise', 'cached_property'}
MUTABLE_CTORS = {'dict', 'list', 'set', 'OrderedDict', 'defaultdict', 'deque', 'Counter', 'WeakValueDictionary', 'WeakKeyDictionary'}
# calls whose result is determined by (and determines) the contents of an array argument
CONTENT_DIGESTS = {'tobytes', 'tostring', 'tolist', 'tuple', 'bytes', 'array_equal', 'array_equiv'}
IDENTITY_CALLS = {'id'}


def _module_level_stmts(tree):
    """Statements executed at import time (not inside def/class)."""
    stack = list(reversed(tree.body))
    while stack:
        s = stack.pop()
        yield s
        if isinstance(s, (ast.FunctionDef, ast.AsyncFunctionDef, ast.ClassDef)):
            continue
        for f in ('body', 'orelse', 'finalbody', 'handlers'):
            for ch in reversed(getattr(s, f, []) or []):
                if isinstance(ch, (ast.stmt, ast.ExceptHandler)):
                    stack.append(ch)


def _scope_names(fn):
    """(names local to fn, names fn declares global)."""
    loc, glob = set(params(fn)), set()
    for n in walk_local(fn):
        if isinstance(n, (ast.Global, ast.Nonlocal)):
            glob.update(n.names)
        elif isinstance(n, ast.Name) and isinstance(n.ctx, (ast.Store, ast.Del)):
            loc.add(n.id)
        elif isinstance(n, (ast.FunctionDef, ast.AsyncFunctionDef, ast.ClassDef)):
            loc.add(n.name)
        elif isinstance(n, (ast.Import, ast.ImportFrom)):
            loc.update((a.asname or a.name).split('.')[0] for a in n.names)
        elif isinstance(n, ast.ExceptHandler) and n.name:
            loc.add(n.name)
    return loc - glob, glob


def _root(e):
    while isinstance(e, (ast.Attribute, ast.Subscript, ast.Starred)):
        e = e.value
    return e.id if isinstance(e, ast.Name) else None


def _mutable_default(fn, p):
    from ..core import param_default
    d = param_default(fn, p)
    if isinstance(d, (ast.Dict, ast.List, ast.Set, ast.ListComp, ast.DictComp, ast.SetComp)):
        return True
    return isinstance(d, ast.Call) and (call_name(d) or '').split('.')[-1] in MUTABLE_CTORS


def state_writes(fn, module_names):
    """[(node, name, stored value or None)]: the places where fn writes state
    that outlives the call - a store through / a mutating method of a name that
    is bound at module level (and not shadowed by a local), an assignment to a
    name it declares `global`, a store into a parameter with a mutable default."""
    loc, glob = _scope_names(fn)
    sticky = {p for p in params(fn) if _mutable_default(fn, p)}

    def outlives(name):
        if name is None:
            return False
        if name in glob or name in sticky:
            return True
        return name in module_names and name not in loc

    out = []
    for s in walk_local(fn):
        if isinstance(s, (ast.Assign, ast.AugAssign, ast.AnnAssign)):
            tgs = s.targets if isinstance(s, ast.Assign) else [s.target]
            flat = []
            for t in tgs:
                flat += list(t.elts) if isinstance(t, (ast.Tuple, ast.List)) else [t]
            for t in flat:
                if isinstance(t, (ast.Subscript, ast.Attribute)) and outlives(_root(t)):
                    out.append((s, _root(t), s.value))
                elif isinstance(t, ast.Name) and t.id in glob:
                    out.append((s, t.id, s.value))
        elif isinstance(s, ast.Delete):
            for t in s.targets:
                if isinstance(t, (ast.Subscript, ast.Attribute)) and outlives(_root(t)):
                    out.append((s, _root(t), None))
        elif isinstance(s, ast.Call) and isinstance(s.func, ast.Attribute) and s.func.attr in STATE_MUTATORS and outlives(_root(s.func.value)):
            vals = list(s.args) + [k.value for k in s.keywords]
            out.append((s, _root(s.func.value), ast.Tuple(elts=vals, ctx=ast.Load()) if len(vals) != 1 else vals[0]))
    return out


def state_reads(fi, expr, is_state, depth=10):
    """Name(Load) nodes in the backward slice of expr (through the reaching
    definitions of fi) that read a name which is not bound by this call."""
    from ..cfg import header_exprs
    out, seen = [], set()

    def visit(e, d):
        for n in walk_expr(e):
            if not (isinstance(n, ast.Name) and isinstance(n.ctx, ast.Load)):
                continue
            try:
                defs = fi.defs_of_use(n)
            except Exception:
                defs = set()
            if not defs or 'UNBOUND' in defs:
                if is_state(n.id, False):
                    out.append(n)
            elif 'PARAM' in defs and is_state(n.id, True):
                out.append(n)
            for site in defs:
                if isinstance(site, str):
                    continue
                key = (id(site), n.id)
                if key in seen or d <= 0:
                    continue
                seen.add(key)
                v = fi.def_value(site, n.id)
                if v is not None:
                    visit(v, d - 1)
                    continue
                tg = getattr(site, 'targets', None) or [getattr(site, 'target', None)]
                for e2 in header_exprs(site):
                    if isinstance(site, (ast.Assign, ast.AugAssign, ast.AnnAssign, ast.For, ast.AsyncFor)) and any(e2 is t for t in tg):
                        continue
                    visit(e2, d - 1)
    visit(expr, depth)
    return out


def _param_occurrences(fi, test, pnames):
    """{param: set of 'identity' / 'content' / 'other'}: how the parameters
    enter the value of `test` (names are followed through their definitions,
    pure or not - only the shape of the dependence matters here): inside
    id(...) or an `is` comparison the value only identifies the object; inside
    a content digest (tobytes, tuple, array_equal ...) it stands for the
    contents; a name that cannot be followed counts as 'other' for every
    parameter it may derive from."""
    occ = {}
    active = set()

    def walk(e, ctx, d):
        if isinstance(e, ast.Name):
            if not isinstance(e.ctx, ast.Load):
                return
            try:
                defs = fi.defs_of_use(e)
            except Exception:
                defs = set()
            if defs == {'PARAM'}:
                if e.id in pnames:
                    occ.setdefault(e.id, set()).add(ctx)
                return
            site = next(iter(defs)) if len(defs) == 1 else None
            v = fi.def_value(site, e.id) if site is not None and not isinstance(site, str) else None
            if v is not None and d > 0 and id(site) not in active:
                active.add(id(site))
                walk(v, ctx, d - 1)
                active.discard(id(site))
            elif defs:
                for p in fi.derives_from(e)[0]:
                    if p in pnames:
                        occ.setdefault(p, set()).add('other')
            return
        c = ctx
        if isinstance(e, ast.Call):
            last = (call_name(e) or '').split('.')[-1]
            if last in IDENTITY_CALLS and ctx != 'content':
                c = 'identity'
            elif last in CONTENT_DIGESTS and ctx != 'identity':
                c = 'content'
        elif isinstance(e, ast.Compare) and all(isinstance(o, (ast.Is, ast.IsNot)) for o in e.ops) and ctx == 'other':
            # `x is <other object>`; `x is None` says nothing about the contents either
            c = 'identity'
        for ch in ast.iter_child_nodes(e):
            walk(ch, c, d)
    walk(test, 'other', 10)
    return occ


def d3_hidden_state(ck, mods):
    rule = 'C08.D3.committors.hidden-state'
    n_scanned = 0
    for mod in mods:
        module_names = set()
        for s in _module_level_stmts(mod.tree):
            if isinstance(s, (ast.Assign, ast.AugAssign, ast.AnnAssign)):
                for t in (s.targets if isinstance(s, ast.Assign) else [s.target]):
                    module_names.update(n.id for n in ast.walk(t) if isinstance(n, ast.Name) and isinstance(n.ctx, ast.Store))
            elif isinstance(s, (ast.FunctionDef, ast.AsyncFunctionDef, ast.ClassDef)):
                module_names.add(s.name)
        writes = {}             # state name -> [(qualname, node, value)]
        per_fn = {}
        n_found = 0
        for q, fn in mod.functions.items():
            if '<locals>' in q:
                continue
            per_fn[q] = state_writes(fn, module_names)
            for node, name, val in per_fn[q]:
                writes.setdefault(name, []).append((q, node, val))
        for q, fn in mod.functions.items():
            if '<locals>' in q:
                continue
            n_scanned += 1
            decs = [(call_name(d) if isinstance(d, ast.Call) else u(d)) or '' for d in fn.decorator_list]
            memo = [d for d in decs if d.split('.')[-1] in MEMO_DECORATORS]
            if memo:
                n_found += 1
                ck.missing(rule, '%s is wrapped in the memoising decorator %s: whether its key covers the contents of every argument is not decided' % (q, memo[0]))
                continue
            fi = finfo(mod, fn)
            loc, glob = _scope_names(fn)
            own = {name for _, name, _ in per_fn[q]}

            def is_state(name, is_param, _loc=loc, _glob=glob, _own=own):
                if is_param:
                    return name in _own             # a parameter with a mutable default that fn stores into
                return name in writes and (name in _glob or name not in _loc)

            reads = []
            for r in returns_of(fn):
                if r.value is not None:
                    reads += [(r, n) for n in state_reads(fi, r.value, is_state)]
            if not reads:
                continue
            n_found += 1
            for name in sorted({n.id for _, n in reads}):
                rnodes = [n for _, n in reads if n.id == name]
                rstmt = fi.stmt(rnodes[0]) or rnodes[0]
                mine = [(node, val) for node, nm, val in per_fn[q] if nm == name]
                others = sorted({w[0] for w in writes.get(name, []) if w[0] != q})
                if not mine:
                    ck.missing(rule, 'the value returned by %s is computed from the module-level object `%s`, which %s write(s): the result '
                               'depends on calls made before this one (not decided how)' % (q, name, ', '.join(others)))
                    continue
                # the arguments the stored state is computed from, and the decision under which it is (re)computed
                P = set(params(fn))
                dep = set()
                for node, val in mine:
                    if val is not None:
                        dep |= {p for p in fi.derives_from(val)[0] if p in P}
                guards = []
                for node, val in mine:
                    st = fi.stmt(node) or node
                    for a in fi.cfg.nodes:
                        if isinstance(a, Assume) and fi.cfg.dominates(a, st) and a.test not in [g.test for g in guards]:
                            guards.append(a)
                if not dep:
                    ck.missing(rule, '%s returns a value read from the module-level object `%s` that it also writes; what is stored does not derive from its parameters' % (q, name))
                    continue
                if not guards:
                    ck.missing(rule, '%s stores into the module-level object `%s` unconditionally and reads it back: not decided whether the value read is the one stored by this call' % (q, name))
                    continue
                occ = {}
                for g in guards:
                    for p, kinds in _param_occurrences(fi, g.test, dep).items():
                        occ.setdefault(p, set()).update(kinds)
                absent = sorted(p for p in dep if p not in occ)
                ident = sorted(p for p in dep if occ.get(p) and occ[p] <= {'identity'})
                unknown = sorted(p for p in dep if occ.get(p) and 'other' in occ[p] and 'content' not in occ[p])
                tests = ' / '.join('`%s`' % u(g.test)[:100] for g in guards)
                if absent or ident:
                    why = []
                    if ident:
                        why.append('%s enter(s) it only through id()/`is`, which identifies the container object, not its contents (the same array or '
                                   'sparse matrix refilled in place, or a new one allocated at the address of a freed one, is taken for the previous chain)'
                                   % ', '.join('`%s`' % p for p in ident))
                    if absent:
                        why.append('%s do(es) not enter it at all' % ', '.join('`%s`' % p for p in absent))
                    where = 'mutable default argument' if name in params(fn) else 'module-level object'
                    ck.bad(rule, mod, rstmt, q, 'result of %s read from module-level `%s`' % (q, name),
                           'what %s returns must be computed from the arguments of THIS call (the flux / net flux / reactive population identities '
                           'hold for every chain, whatever was analysed before). `%s` reaches the result from the %s `%s`, which '
                           'a previous call filled from (%s); it is recomputed only when %s, and %s: a later call with different contents combines '
                           'the stale stored value with its own populations and transition probabilities'
                           % (q, u(rstmt)[:120], where, name, ', '.join(sorted(dep)), tests, '; '.join(why)))
                elif unknown:
                    ck.missing(rule, '%s reuses a value stored in module-level `%s` when %s does not hold; whether that test compares the contents of %s is not recognised'
                               % (q, name, tests, ', '.join(unknown)))
                else:
                    ck.missing(rule, '%s keeps a memo in module-level `%s` keyed on the contents of %s: consistency of key and value stores not decided'
                               % (q, name, ', '.join(sorted(dep))))
        if not n_found:
            ck.ok(rule, mod, None, '%s: %d functions, module state written: %s' % (mod.rel, len(per_fn), sorted(writes) or 'none'),
                  'no returned value is read from state that outlives the call (results depend on the arguments only)')
    ck.floor(rule, n_scanned, 4, 'functions scanned for results read from module state')


# ---------------------------------------------------------------------------
# D5 (containers): the property quantifies over dense AND sparse transition
# matrices, so along the path reactive_fluxes / reactive_populations ->
# _get_data_from_tprob -> committors -> _I_m_Q every operation that only ONE
# of the two container kinds defines must be evaluated only for that kind:
#  * a method only scipy.sparse containers have (.tolil(), .multiply(), ...)
#    on a value that is an ndarray for dense input raises AttributeError;
#  * len() / an ndarray-only method / an asarray-coercing numpy function on a
#    value that is a scipy.sparse container for sparse input raises TypeError
#    (len: "sparse array length is ambiguous") or AttributeError.
# Whether such an operation is evaluated for the wrong kind is decided from
# the conditions that hold where it stands: issparse / isinstance / hasattr
# tests on the matrix (dominating if-branches, conditional expressions,
# short-circuit operands) and `p is None` tests on a parameter, the latter
# evaluated with the arguments of the calls made on this path (a helper's
# `if n_states is None: n_states = len(tprob)` is never evaluated when every
# caller passes the number of states).  Anything else that conditions the
# operation -> not decided (incomplete), never a violation.
# (tables: scipy 1.18 / numpy 2.4, hasattr on ndarray, csr/lil/csc/coo _matrix and _array)

SPARSE_RESULT_METHODS = (CONVERSIONS - {'copy'}) | {'multiply', 'asformat', 'maximum', 'minimum', 'power', 'getrow', 'getcol', 'getH', 'asfptype'}
SPARSE_ONLY_METHODS = SPARSE_RESULT_METHODS | SPARSE_DENSIFY | {'getnnz', 'setdiag', 'count_nonzero', 'eliminate_zeros', 'sum_duplicates'}
DENSE_ONLY_METHODS = {'flatten', 'ravel', 'fill', 'cumsum', 'cumprod', 'any', 'all', 'argsort', 'sort', 'squeeze', 'tolist', 'tobytes', 'item',
                      'prod', 'std', 'var', 'take', 'put', 'repeat', 'swapaxes', 'searchsorted', 'round', 'clip', 'view'}
KIND_KEEPING_METHODS = {'copy', 'transpose', 'astype', 'conj', 'conjugate'}
SPARSE_CTOR_SUFFIXES = ('_matrix', '_array')
SPARSE_CTOR_PREFIXES = ('csr', 'csc', 'lil', 'coo', 'dok', 'bsr', 'dia')
D5_PATH = [(TP, 'reactive_fluxes', True), (TP, 'reactive_populations', True), (TP, HELPER, False), (CO, 'committors', False), (CO, '_I_m_Q', False)]


def _is_sparse_ctor(call):
    last = (call_name(call) or '').split('.')[-1]
    return last.endswith(SPARSE_CTOR_SUFFIXES) and last.split('_')[0] in SPARSE_CTOR_PREFIXES


class _PathFn:
    """One function on the committor path: its matrix parameter (first
    positional), the container kinds that parameter can have, and the call
    sites [(caller _PathFn, call, {callee parameter: argument})] on the path."""

    def __init__(self, mod, fn, entry):
        self.mod, self.fn, self.entry = mod, fn, entry
        self.name = fn.name
        self.fi = finfo(mod, fn)
        self.P = params(fn)
        self.matrix = self.P[0] if self.P else None
        self.co = Containers(self.fi, self.matrix)
        self.sites = []
        self.parent = {}
        for p in ast.walk(fn):
            for c in ast.iter_child_nodes(p):
                self.parent[c] = p

    # -- container kinds -----------------------------------------------------
    def site_sparse(self, site):
        """The matrix argument of this call can be a scipy.sparse container."""
        caller, call, b = site
        a = b.get(self.matrix)
        return a is not None and caller.param_sparse() and caller.co.kind(a) == 'sparse'

    def site_dense(self, site):
        caller, call, b = site
        a = b.get(self.matrix)
        if a is None or not caller.param_dense():
            return False
        if caller.guard_of(caller.conditions(call)[0]) == 'sparse':
            return False
        return caller.may_dense(a) is True

    def param_sparse(self):
        return self.entry or any(self.site_sparse(s) for s in self.sites)

    def param_dense(self):
        return self.entry or any(self.site_dense(s) for s in self.sites)

    def related(self, name_node):
        """name_node (possibly a copy made by xval) names the matrix or a container derived from it."""
        o = getattr(name_node, '_orig', name_node)
        if not isinstance(o, ast.Name):
            return False
        try:
            if self.co.kind(o, use_guard=False) == 'sparse':
                return True
            return o.id == self.matrix and 'PARAM' in self.fi.defs_of_use(o)
        except Exception:
            return False

    def may_dense(self, e, depth=8):
        """True: e is a numpy array for some admitted (dense) input; False: it
        never is (a scipy.sparse container whenever it is evaluated without an
        exception); None: not known."""
        fi = self.fi
        if depth <= 0 or e is None:
            return None
        if isinstance(e, ast.Name):
            try:
                defs = fi.defs_of_use(e)
            except Exception:
                return None
            res = []
            for d in defs:
                if d == 'PARAM':
                    res.append(True if (e.id == self.matrix and self.param_dense()) else None)
                elif isinstance(d, (ast.Assign, ast.AnnAssign)):
                    v = fi.def_value(d, e.id)
                    if v is not None and self.guard_of(self.conditions(v)[0]) == 'sparse':
                        res.append(False)       # bound only where the matrix is sparse
                    else:
                        res.append(self.may_dense(v, depth - 1))
                else:
                    res.append(None)
            if True in res:
                return True
            return False if res and all(r is False for r in res) else None
        if isinstance(e, ast.Attribute) and e.attr == 'T':
            return self.may_dense(e.value, depth - 1)
        if isinstance(e, ast.IfExp):
            a, b = self.may_dense(e.body, depth - 1), self.may_dense(e.orelse, depth - 1)
            return True if True in (a, b) else False if (a is False and b is False) else None
        if isinstance(e, ast.Call):
            if _is_sparse_ctor(e):
                return False
            if isinstance(e.func, ast.Attribute) and not (isinstance(e.func.value, ast.Name) and e.func.value.id in NP_MODS + ('copy', 'sparse', 'scipy')):
                if e.func.attr in SPARSE_RESULT_METHODS:
                    return False
                if e.func.attr in KIND_KEEPING_METHODS:
                    return self.may_dense(e.func.value, depth - 1)
                return None
            if (call_name(e) or '') in ('copy.copy', 'copy.deepcopy') and e.args:
                return self.may_dense(e.args[0], depth - 1)
        return None

    # -- conditions ----------------------------------------------------------
    def conditions(self, node):
        """([(test, polarity)], opaque): the tests known to hold whenever node
        is evaluated - dominating if-branches, enclosing conditional
        expressions and short-circuit operands; opaque names an enclosing
        construct whose effect on reachability is not modelled."""
        fi = self.fi
        conds, opaque = [], None
        st = fi.stmt(node)
        if st is None:
            return conds, 'statement not found'
        for a in fi.cfg.nodes:
            if isinstance(a, Assume) and fi.cfg.dominates(a, st):
                conds.append((a.test, a.polarity))
        child, p = node, self.parent.get(node)
        while p is not None and p is not self.fn:
            if isinstance(p, ast.IfExp):
                if child is p.body:
                    conds.append((p.test, True))
                elif child is p.orelse:
                    conds.append((p.test, False))
            elif isinstance(p, ast.BoolOp):
                i = next((k for k, v in enumerate(p.values) if v is child), 0)
                conds += [(v, isinstance(p.op, ast.And)) for v in p.values[:i]]
            elif isinstance(p, (ast.ListComp, ast.SetComp, ast.DictComp, ast.GeneratorExp, ast.Lambda, ast.FunctionDef, ast.AsyncFunctionDef, ast.ClassDef)):
                opaque = opaque or 'inside a %s' % type(p).__name__
            elif isinstance(p, (ast.For, ast.AsyncFor, ast.While)) and child is not getattr(p, 'iter', None):
                opaque = opaque or 'inside a loop'
            elif isinstance(p, ast.Try) and p.handlers and any(child is s for s in p.body):
                opaque = opaque or 'inside a try block with handlers'
            elif isinstance(p, ast.ExceptHandler):
                opaque = opaque or 'inside an exception handler'
            child, p = p, self.parent.get(p)
        return conds, opaque

    def atoms(self, conds):
        """Flatten conditions into atoms ('kind', 'sparse'|'dense') /
        ('none', parameter, must_be_none) / ('const', holds) / ('unknown', text)."""
        out = []
        for test, pol in conds:
            try:
                t = xval(self.fi, test)
            except Exception:
                t = test
            cj = conjuncts(t, pol)
            if cj is None:
                out.append(('unknown', u(test)[:80]))
                continue
            for c in cj:
                out.append(self._atom(c))
        return out

    def _atom(self, c):
        if isinstance(c, Cmp):
            for a, b in ((c.lhs, c.rhs), (c.rhs, c.lhs)):
                o = getattr(a, '_orig', a)
                if isinstance(a, ast.Name) and _none(b) and c.op in (ast.Is, ast.IsNot) and a.id in self.P:
                    try:
                        if self.fi.defs_of_use(o) == {'PARAM'}:
                            return ('none', a.id, c.op is ast.Is)
                    except Exception:
                        pass
            return ('unknown', repr(c)[:80])
        _, e, pol = c
        if isinstance(e, ast.Constant):
            return ('const', bool(e.value) == pol)
        if isinstance(e, ast.Call) and not e.keywords:
            last = (call_name(e) or '').split('.')[-1]
            if last in ('issparse', 'isspmatrix') and len(e.args) == 1 and self.related(e.args[0]):
                return ('kind', 'sparse' if pol else 'dense')
            if last == 'hasattr' and len(e.args) == 2 and self.related(e.args[0]) and isinstance(e.args[1], ast.Constant) \
                    and e.args[1].value in SPARSE_ONLY_METHODS:
                return ('kind', 'sparse' if pol else 'dense')
            if last == 'isinstance' and len(e.args) == 2 and self.related(e.args[0]):
                cls = u(e.args[1])
                if cls in ('np.ndarray', 'numpy.ndarray', 'ndarray'):
                    return ('kind', 'dense' if pol else 'sparse')
                if cls.split('.')[-1] in ('spmatrix', 'sparray') and not isinstance(e.args[1], ast.Tuple):
                    return ('kind', 'sparse' if pol else 'dense')
        return ('unknown', u(e)[:80])

    def guard_of(self, conds):
        """'sparse' / 'dense' if the conditions fix the container kind of the matrix, 'both' if they contradict, else None."""
        ks = {a[1] for a in self.atoms(conds) if a[0] == 'kind'}
        return None if not ks else ks.pop() if len(ks) == 1 else 'both'

    # -- None-ness of a parameter for the calls made on this path ---------------
    def noneness(self, pname, site, depth=4):
        """'none' / 'notnone' / 'free' (both occur for admitted inputs) / 'unknown'."""
        from ..core import param_default
        if site is None:
            d = param_default(self.fn, pname)
            return 'free' if (d is not None and _none(d)) else 'unknown'
        caller, call, b = site
        a = b.get(pname)
        if a is None:
            d = param_default(self.fn, pname)
            if d is None:
                return 'unknown'
            return 'none' if _none(d) else 'notnone' if isinstance(d, ast.Constant) else 'unknown'
        try:
            t = xval(caller.fi, a)
        except Exception:
            return 'unknown'
        if isinstance(t, ast.Constant):
            return 'none' if t.value is None else 'notnone'
        if match_any(SIZE_FORMS, t) is not None or never_none(caller.fi, a):
            return 'notnone'
        o = getattr(t, '_orig', None)
        if isinstance(t, ast.Name) and o is not None and depth > 0 and t.id in caller.P:
            try:
                is_param = caller.fi.defs_of_use(o) == {'PARAM'}
            except Exception:
                is_param = False
            if is_param:
                vals = {caller.noneness(t.id, s, depth - 1) for s in (caller.sites if not caller.entry else [None])}
                if not vals or 'unknown' in vals:
                    return 'unknown'
                return vals.pop() if len(vals) == 1 else 'free'
        return 'unknown'

    def reach(self, atoms, site):
        """'yes': the None-tests among the atoms can all hold for this call; 'no': one cannot; 'unknown'."""
        need = {}
        unknown = False
        for a in atoms:
            if a[0] == 'unknown':
                unknown = True
            elif a[0] == 'const' and not a[1]:
                return 'no'
            elif a[0] == 'none':
                if need.setdefault(a[1], a[2]) != a[2]:
                    return 'no'
        for p, must_none in need.items():
            v = self.noneness(p, site)
            if v == 'unknown':
                unknown = True
            elif v != 'free' and (v == 'none') != must_none:
                return 'no'
        return 'unknown' if unknown else 'yes'


def d5_path(ck):
    fns = []
    for rel, name, entry in D5_PATH:
        try:
            mod = ck.repo.mod(rel)
        except Exception:
            continue
        fn = mod.functions.get(name)
        if fn is not None:
            fns.append(_PathFn(mod, fn, entry))
    for i, callee in enumerate(fns):
        for caller in fns[:i]:          # callers precede their callees in D5_PATH: the call graph followed here is acyclic
            for c in calls_in(caller.fn):
                if (call_name(c) or '').split('.')[-1] == callee.name:
                    b = bind_args(c, callee.P)
                    if b is not None:
                        callee.sites.append((caller, c, b))
    return fns


def d5_containers(ck):
    rule = 'C08.D5.containers'
    fns = d5_path(ck)
    n_ops = 0
    for pf in fns:
        if pf.matrix is None:
            continue
        for c in walk_local(pf.fn):
            if not isinstance(c, ast.Call):
                continue
            cn = call_name(c) or ''
            want, x, what = None, None, None
            if cn == 'len' and len(c.args) == 1 and not c.keywords:
                want, x, what = 'dense', c.args[0], 'len()'
            elif '.' in cn and cn.split('.')[0] in NP_MODS and cn.split('.', 1)[1] in NP_NO_SPARSE and c.args:
                want, x, what = 'dense', c.args[0], 'np.%s()' % cn.split('.', 1)[1]
            elif isinstance(c.func, ast.Attribute) and not (isinstance(c.func.value, ast.Name) and c.func.value.id in NP_MODS + ('copy', 'sparse', 'scipy', 'warnings')):
                if c.func.attr in DENSE_ONLY_METHODS:
                    want, x, what = 'dense', c.func.value, '.%s()' % c.func.attr
                elif c.func.attr in SPARSE_ONLY_METHODS:
                    want, x, what = 'sparse', c.func.value, '.%s()' % c.func.attr
            if want is None:
                continue
            if want == 'dense':
                # defined for ndarrays only: a problem iff the operand can be a scipy.sparse container
                if not (pf.param_sparse() and pf.co.kind(x, use_guard=False) == 'sparse'):
                    continue
            else:
                # defined for scipy.sparse containers only: a problem iff the operand can be an ndarray
                if pf.may_dense(x) is not True:
                    continue
            n_ops += 1
            other = 'sparse' if want == 'dense' else 'dense'
            conds, opaque = pf.conditions(c)
            atoms = pf.atoms(conds)
            guard = pf.guard_of(conds)
            st = pf.fi.stmt(c) or c
            construct = '%s-only %s applied to the %s-capable `%s`' % ('ndarray' if want == 'dense' else 'scipy.sparse', what, other, u(x)[:60])
            if want == 'dense':
                effect = ('%s is defined for numpy arrays only; for a scipy.sparse transition matrix `%s` is a scipy.sparse container '
                          '(%s) and the call raises - every TPT quantity fails for sparse input'
                          % (what, u(x)[:60], 'len() of a sparse matrix: TypeError "sparse array length is ambiguous"' if what == 'len()' else 'no such ndarray semantics'))
            else:
                effect = ('%s exists on scipy.sparse containers only; for a dense (numpy.ndarray) transition matrix `%s` is an ndarray and the '
                          'call raises AttributeError - every TPT quantity fails for dense input' % (what, u(x)[:60]))
            if guard == want:
                ck.ok(rule, pf.mod, st, '%s: %s' % (pf.name, u(c)[:120]), '%s evaluated only where the matrix is known to be %s' % (what, want))
                continue
            if guard == 'both':
                ck.ok(rule, pf.mod, st, '%s: %s' % (pf.name, u(c)[:120]), 'contradictory container tests: never evaluated')
                continue
            # which calls on this path evaluate it with a container of the other kind?
            sites = [None] if pf.entry else [s for s in pf.sites if (pf.site_sparse(s) if want == 'dense' else pf.site_dense(s))]
            verdicts = [pf.reach(atoms, s) for s in sites]
            if not sites or all(v == 'no' for v in verdicts):
                ck.ok(rule, pf.mod, st, '%s: %s' % (pf.name, u(c)[:120]),
                      'not evaluated for the calls made on the TPT path (%s)' % ('; '.join('`%s`' % u(t)[:60] for t, _ in conds) or 'no call passes a %s matrix' % other))
            elif 'yes' in verdicts and not opaque:
                how = ('it is evaluated exactly when the matrix is NOT %s (`%s`)' % (want, '; '.join('%s%s' % ('' if p else 'not ', u(t)[:60]) for t, p in conds))
                       if guard == other else
                       'nothing restricts it to %s matrices%s' % (want, (' (it runs when %s, which holds for the call `%s`)' % (
                           ' and '.join('`%s%s`' % ('' if p else 'not ', u(t)[:60]) for t, p in conds),
                           u(next(s for s, v in zip(sites, verdicts) if v == 'yes')[1])[:80])) if (conds and not pf.entry) else ''))
                ck.bad(rule, pf.mod, st, pf.name, construct, '%s; %s' % (effect, how))
            else:
                ck.missing(rule, '%s in %s: whether it is evaluated for a %s matrix is not decided (%s)' % (
                    u(c)[:80], pf.name, other, opaque or '; '.join(a[1] for a in atoms if a[0] == 'unknown') or 'conditions not resolved for the calls on the path'))
    ck.floor(rule, len(fns), 4, 'functions on the TPT/committor path scanned for container-specific operations')
    if not n_ops:
        ck.ok(rule, fns[0].mod if fns else ck.repo.mod(TP), None, 'TPT path: %s' % ', '.join(f.name for f in fns),
              'no container-specific operation is applied to a value that can be of the other container kind')


def check(ck):
    mod = ck.repo.mod(TP)
    d3_hidden_state(ck, [mod, ck.repo.mod(CO)])
    try:
        cpar = params(ck.repo.mod(CO).func('committors'))[:3]
    except Exception:
        cpar = []
    roles, why = helper_roles(mod, cpar if len(cpar) == 3 else ('tprob', 'sources', 'sinks'))
    d1_fluxes(ck, mod, roles)
    d2_net(ck, mod)
    d2_containers(ck, mod)
    d3_helper(ck, mod, roles, why)
    d3_reactive_populations(ck, mod, roles)
    check_no_arg_mutation(ck, 'C08.D4.inputs-unmodified', [
        (TP, 'reactive_fluxes'), (TP, 'net_fluxes'), (TP, 'reactive_populations'),
        (TP, '_get_data_from_tprob'), (CO, 'committors')])
    co = ck.repo.mod(CO)
    d2_masking(ck, co)
    d3_committors(ck, co)
    d5_containers(ck)
    return EXPLANATION

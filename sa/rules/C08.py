"""C08 Reactive flux: formula/orientation in both branches, diagonal reset,
net flux, backward committor, reactive populations, inputs unmodified."""
import ast

from .. import symx
from ..core import (AnalysisIncomplete, call_name, const_value, kwarg,
                    names_loaded, params, target_names, u, walk_expr,
                    walk_local)
from ..patterns import (Cmp, assigns_to, calls_in, check_no_arg_mutation,
                        conjuncts, finfo, returns_of, subscript_stores)
from .C07 import d3_committors, d2_masking

TP = 'enspara/tpt/tpt.py'
CO = 'enspara/tpt/core.py'

ROW_FORMS = ('[:, None]', '[:, np.newaxis]', '.reshape(-1, 1)', '.reshape((-1, 1))',
             '.reshape((n_states, 1))', '.reshape(n_states, 1)')

EXPLANATION = (
    'Static decision of the structural necessary conditions of the reactive '
    'flux definition: (D1) both the dense and the sparse branch compute '
    'T[i,j] * (pi*q-)[i] * q+[j] - the row factor carries the new trailing '
    'axis, the column factor none - and the diagonal is set to zero after the '
    'product and before the return; (D2) net flux is f - f^T of the same f '
    'with negatives set to zero; (D3) q- = 1 - q+ from one committor call on '
    'the same (tprob, sources, sinks), reactive populations are pi*q+*q- '
    'normalised by their own sum; (D4) no store (including augmented '
    'assignment) reaches tprob or the caller\'s populations; (D5) the '
    'committor boundary pins shared with C07. Conservation identities are not '
    'decided.')


def row_factor(e):
    """If e is <expr>[:, None] (or an accepted equivalent) return <expr>."""
    txt = u(e)
    if isinstance(e, ast.Subscript) and isinstance(e.slice, ast.Tuple) and len(e.slice.elts) == 2:
        a, b = e.slice.elts
        full = isinstance(a, ast.Slice) and a.lower is None and a.upper is None and a.step is None
        if full and (const_value(b, 'x') is None and isinstance(b, ast.Constant) or u(b) in ('np.newaxis', 'None')):
            return e.value
    if isinstance(e, ast.Call) and isinstance(e.func, ast.Attribute) and e.func.attr == 'reshape':
        a = [u(x) for x in e.args]
        if a in (['-1', '1'], ['(-1, 1)'], ['(n_states, 1)'], ['n_states', '1']):
            return e.func.value
    return None


def col_wrong(e):
    """Is e a column-factor written with a leading new axis that is harmless
    ([None, :]) - accepted - or something else?"""
    if isinstance(e, ast.Subscript) and isinstance(e.slice, ast.Tuple) and len(e.slice.elts) == 2:
        a, b = e.slice.elts
        if (isinstance(a, ast.Constant) and a.value is None or u(a) == 'np.newaxis') and isinstance(b, ast.Slice):
            return e.value
    return None


def flatten_product(e, sparse=False):
    """Return the list of factors of a product tree (dense: BinOp Mult;
    sparse: chained .multiply calls)."""
    if not sparse and isinstance(e, ast.BinOp) and isinstance(e.op, ast.Mult):
        return flatten_product(e.left) + flatten_product(e.right)
    if sparse and isinstance(e, ast.Call) and isinstance(e.func, ast.Attribute) and e.func.attr == 'multiply' and len(e.args) == 1:
        return flatten_product(e.func.value, True) + [e.args[0]]
    return [e]


def d1_fluxes(ck, mod):
    rule = 'C08.D1.flux'
    fn = mod.func('reactive_fluxes')
    ck.analysed(mod, fn)
    fi = finfo(mod, fn)
    tprob = params(fn)[0]
    ifs = [n for n in fn.body if isinstance(n, ast.If) and 'issparse' in u(n.test)]
    if len(ifs) != 1:
        ck.missing(rule, 'sparse/dense branch in reactive_fluxes')
        return
    node = ifs[0]
    # names from the helper unpack
    unp = [s for s in walk_local(fn) if isinstance(s, ast.Assign) and isinstance(s.value, ast.Call)
           and call_name(s.value) == '_get_data_from_tprob']
    ok = len(unp) == 1 and isinstance(unp[0].targets[0], ast.Tuple) and len(unp[0].targets[0].elts) == 4
    if not ok:
        ck.missing(rule, 'unpacking of _get_data_from_tprob')
        return
    pi, n_states, qf, qb = [u(e) for e in unp[0].targets[0].elts]
    helper = mod.func('_get_data_from_tprob')
    r = returns_of(helper)
    okh = len(r) == 1 and [u(e) for e in r[0].value.elts] == ['populations', 'n_states', 'forward_committors', 'reverse_committors']
    ck.check(okh and 'forward' in qf and 'reverse' in qb and 'pop' in pi, rule + '.roles', mod, unp[0], 'reactive_fluxes', u(unp[0])[:160],
             'helper returns (pi, n, q+, q-) and they are unpacked in that order',
             '_get_data_from_tprob returns (populations, n_states, forward, reverse); unpacking them in another order swaps q+ and q-')
    for label, body, sparse in (('sparse', node.body, True), ('dense', node.orelse, False)):
        fl = [s for s in body if isinstance(s, ast.Assign) and u(s.targets[0]) == 'fluxes']
        if not fl:
            ck.bad(rule, mod, node, 'reactive_fluxes', label, '%s branch does not define fluxes' % label)
            continue
        facs = flatten_product(fl[0].value, sparse)
        if sparse and len(facs) >= 1 and not (isinstance(fl[0].value, ast.Call)):
            facs = flatten_product(fl[0].value, False)
        base = [f for f in facs if u(f) == tprob]
        rowf = []
        colf = []
        other = []
        for f in facs:
            if u(f) == tprob:
                continue
            inner = row_factor(f)
            if inner is not None:
                rowf += flatten_product(inner)
            elif col_wrong(f) is not None:
                colf += flatten_product(col_wrong(f))
            else:
                colf.append(f)
        rows = sorted(u(x) for x in rowf)
        cols = sorted(u(x) for x in colf)
        ok = len(base) == 1 and rows == sorted([pi, qb]) and cols == [qf]
        ck.check(ok, rule, mod, fl[0], 'reactive_fluxes', '%s: %s' % (label, u(fl[0])[:200]),
                 'f[i, j] = T[i, j] * (pi * q-)[i] * q+[j]: row factors %s, column factors %s' % (rows, cols),
                 '%s branch: the flux must scale ROW i by pi[i]*q-[i] (factor with a trailing new axis, e.g. '
                 '[:, None]) and COLUMN j by q+[j] (plain vector); found row factors %s and column factors %s '
                 '- a transposed broadcast weights columns by the populations/backward committor' % (label, rows, cols))
    # diagonal reset after the branch, before the return
    dz = []
    for s in fn.body:
        if isinstance(s, ast.Assign) and isinstance(s.targets[0], ast.Subscript) and u(s.targets[0].value) == 'fluxes':
            dz.append(s)
        if isinstance(s, ast.Expr) and isinstance(s.value, ast.Call) and call_name(s.value) == 'np.fill_diagonal' \
                and u(s.value.args[0]) == 'fluxes' and const_value(s.value.args[1]) == 0:
            dz.append(s)
        if isinstance(s, ast.Expr) and isinstance(s.value, ast.Call) and u(s.value.func) == 'fluxes.setdiag':
            dz.append(s)
    ok = len(dz) == 1
    if ok and isinstance(dz[0], ast.Assign):
        sl = dz[0].targets[0].slice
        ok = u(sl) in ('(np.arange(%s), np.arange(%s))' % (n_states, n_states), 'np.diag_indices(%s)' % n_states,
                       'np.diag_indices_from(fluxes)') and u(dz[0].value) in ('np.zeros(%s)' % n_states, '0', '0.0')
    if ok:
        r = returns_of(fn)
        ok = fn.body.index(dz[0]) > fn.body.index(node) and all(fi.cfg.dominates(dz[0], x) for x in r)
    ck.check(ok, rule + '.diagonal', mod, dz[0] if dz else fn, 'reactive_fluxes', u(dz[0]) if dz else 'diagonal reset',
             'self-transitions carry no reactive flux: diagonal zeroed after the product on both branches',
             'the diagonal of the flux matrix must be set to zero after the product and before the return, for both branches')
    r = returns_of(fn)
    ck.check(len(r) == 1 and u(r[0].value) == 'fluxes', rule, mod, r[0] if r else fn, 'reactive_fluxes', u(r[0]) if r else 'return', 'returns the flux matrix', 'must return fluxes')


def d2_net(ck, mod):
    rule = 'C08.D2.net-flux'
    fn = mod.func('net_fluxes')
    ck.analysed(mod, fn)
    fi = finfo(mod, fn)
    fl = [s for s in walk_local(fn) if isinstance(s, ast.Assign) and isinstance(s.value, ast.Call)
          and call_name(s.value) == 'reactive_fluxes']
    ok = len(fl) == 1 and [u(a) for a in fl[0].value.args] == params(fn)[:3] and u(kwarg(fl[0].value, 'populations')) == params(fn)[3]
    ck.check(ok, rule, mod, fl[0] if fl else fn, 'net_fluxes', u(fl[0]) if fl else 'reactive_fluxes', 'built from the reactive fluxes of the same arguments',
             'net_fluxes must call reactive_fluxes(tprob, sources, sinks, populations=populations)')
    f = u(fl[0].targets[0]) if fl else 'fluxes'
    nf = [s for s in walk_local(fn) if isinstance(s, ast.Assign) and isinstance(s.value, ast.BinOp) and isinstance(s.value.op, ast.Sub)]
    ok = len(nf) == 1 and u(nf[0].value.left) == f and u(nf[0].value.right) == '%s.T' % f
    ck.check(ok, rule, mod, nf[0] if nf else fn, 'net_fluxes', u(nf[0]) if nf else 'f - f.T', 'net = f - f^T of the same f',
             'net flux must be fluxes - fluxes.T (f^T - f gives the reverse direction)')
    nname = u(nf[0].targets[0]) if nf else 'net_fluxes'
    clip = [s for s in walk_local(fn) if isinstance(s, ast.Assign) and isinstance(s.targets[0], ast.Subscript)
            and u(s.targets[0].value) == nname]
    ok = len(clip) == 1 and u(clip[0].targets[0].slice) in ('np.where(%s < 0)' % nname, '%s < 0' % nname) and const_value(clip[0].value) == 0
    alt = [s for s in assigns_to(fn, nname) if isinstance(s, ast.Assign) and u(s.value) in (
        'np.maximum(%s, 0)' % nname, '%s.clip(min=0)' % nname, 'np.clip(%s, 0, None)' % nname, 'np.where(%s < 0, 0, %s)' % (nname, nname))]
    ck.check(ok or len(alt) == 1, rule + '.positive-part', mod, (clip or alt or [fn])[0], 'net_fluxes', u((clip or alt)[0]) if (clip or alt) else 'positive part',
             'negative entries set to zero (at most one direction per pair carries net flux)',
             'the net flux must keep only the positive part of f - f^T')
    r = returns_of(fn)
    ck.check(len(r) == 1 and u(r[0].value) == nname, rule, mod, r[0] if r else fn, 'net_fluxes', u(r[0]) if r else '?', 'returns the clipped matrix', 'must return the net flux matrix')


def d3_helper(ck, mod):
    rule = 'C08.D3.committors'
    fn = mod.func('_get_data_from_tprob')
    ck.analysed(mod, fn)
    tprob, sources, sinks, pops = params(fn)[:4]
    cm = [s for s in walk_local(fn) if isinstance(s, ast.Assign) and isinstance(s.value, ast.Call) and call_name(s.value) == 'committors']
    ok = len(cm) == 1 and [u(a) for a in cm[0].value.args] == [tprob, sources, sinks]
    ck.check(ok, rule, mod, cm[0] if cm else fn, '_get_data_from_tprob', u(cm[0]) if cm else 'committors', 'q+ = committors(tprob, sources, sinks)',
             'forward committors must be committors(tprob, sources, sinks) in that argument order')
    qf = u(cm[0].targets[0]) if cm else 'forward_committors'
    rv = [s for s in walk_local(fn) if isinstance(s, ast.Assign) and u(s.targets[0]).startswith('reverse')]
    ok = len(rv) == 1 and u(rv[0].value) in ('1 - %s' % qf, '1.0 - %s' % qf)
    ck.check(ok, rule, mod, rv[0] if rv else fn, '_get_data_from_tprob', u(rv[0]) if rv else 'q-', 'q- = 1 - q+ (equilibrium)', 'backward committor must be 1 - forward committor')
    pp = [s for s in assigns_to(fn, pops) if isinstance(s, ast.Assign)]
    ok = len(pp) == 1 and u(pp[0].value) == 'eq_probs(%s)' % tprob
    g = mod.parent.get(pp[0]) if pp else None
    ok = ok and isinstance(g, ast.If) and u(g.test) == '%s is None' % pops
    ck.check(ok, rule + '.populations', mod, pp[0] if pp else fn, '_get_data_from_tprob', u(pp[0]) if pp else pops,
             'populations computed from tprob only when not supplied', 'populations must default to eq_probs(tprob) iff None')
    fr = mod.func('reactive_populations')
    ck.analysed(mod, fr)
    dn = [s for s in walk_local(fr) if isinstance(s, ast.Assign) and u(s.targets[0]) == 'densities']
    ok = False
    if len(dn) == 1:
        facs = sorted(u(x) for x in flatten_product(dn[0].value))
        ok = facs == sorted(['populations', 'forward_committors', 'reverse_committors'])
    ck.check(ok, 'C08.D3.reactive-populations', mod, dn[0] if dn else fr, 'reactive_populations', u(dn[0]) if dn else 'densities',
             'm_i = pi_i q+_i q-_i', 'reactive densities must be populations * forward * reverse committors')
    r = returns_of(fr)
    res = fi_resolve(finfo(mod, fr), r[0].value) if r else None
    ok = res is not None and u(res) in ('densities / np.sum(densities)', 'densities / densities.sum()')
    ck.check(ok, 'C08.D3.reactive-populations', mod, r[0] if r else fr, 'reactive_populations', u(res) if res is not None else '?',
             'normalised by its own sum (probability vector)', 'reactive populations must be densities / sum(densities)')


def fi_resolve(fi, e):
    return fi.resolve(e) if isinstance(e, ast.Name) else e


def check(ck):
    mod = ck.repo.mod(TP)
    d1_fluxes(ck, mod)
    d2_net(ck, mod)
    d3_helper(ck, mod)
    check_no_arg_mutation(ck, 'C08.D4.inputs-unmodified', [
        (TP, 'reactive_fluxes'), (TP, 'net_fluxes'), (TP, 'reactive_populations'),
        (TP, '_get_data_from_tprob'), (CO, 'committors')])
    co = ck.repo.mod(CO)
    d2_masking(ck, co)
    d3_committors(ck, co)
    return EXPLANATION

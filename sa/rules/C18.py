"""C18 Joint counts and mutual information (structural clauses).

The constructs are located by ROLE (positional parameters, "the array that
is returned", "the store into it", "the call to the kernel", reaching
definitions, dominating guards) and compared after expansion of temporaries
(FuncInfo.expand) and canonicalisation, so that renames, named temporaries,
mirrored comparisons, De Morgan duals, branch inversion and early
return/continue do not matter.  A recognised construct with wrong content is
a VIOLATION; an implementation the rule cannot see through is
ANALYSIS-INCOMPLETE (ck.missing / classify 'far').
"""
import ast
import copy

from ..cfg import Assume
from ..core import call_name, const_value, kwarg, params, u, walk_local
from ..cykernel import (check_bounds, check_prange,
                        check_zero_before_accumulate)
from ..match import canon, classify, match
from ..normal import is_pure
from ..patterns import (Cmp, calls_in, check_masked_ufuncs,
                        check_no_arg_mutation, conjuncts, finfo, returns_of,
                        subscript_stores)

LI = 'enspara/info_theory/libinfo.pyx'
MI = 'enspara/info_theory/mutual_info.py'
EN = 'enspara/info_theory/entropy.py'

EXPLANATION = (
    'Static decision of: (D1) two-sided bounds of every data-dependent index '
    'of the boundscheck(False)/wraparound(False) counting kernel (guards '
    'a.max() < n and a.min() >= 0 for both inputs; loop ranges vs extents; '
    'accumulator shape); the incremented cell is [x, y, a[t, x], b[t, y]] and '
    'the three loops cover all frames / features; (D2) prange ownership '
    'jc[a_row, ...] and a zero-initialised accumulator; (D3) axis roles in '
    'mutual_information, decided on an abstract axis model of the joint-count '
    'array (which count axes every factor of the accumulated term keeps, which '
    'loop index indexes which axis, what each loop ranges over, which cells '
    'are skipped, what every factor is normalised by); (D4) channel-capacity '
    'grid orientation (n_x along axis 0, n_y along axis 1, whatever way the '
    'grid is built), element-wise minimum, log divisor, private copy, '
    'validation against the matching axis of mi; (D5) every masked ufunc has '
    'an initialised out=; (D6) argument order X,Y,n_x,n_y into the kernel by '
    'origin of every argument, default state counts, dtype harmonisation casts '
    'only under an itemsize ordering that makes it widening, pooled counts '
    'accumulate by addition before one MI computation; (D7) relative entropy '
    'term p log(p/q) with exactly the NaN cells zeroed, entropy -sum p log p '
    'with the log masked to p > 0; no argument mutation. Added after the '
    'fourth hunt: (D1.capacity) the number of frames is bounded by what one '
    'cell of the count table holds, on the FRAME axis; (D6.pooled.capacity) '
    'the pooled table is wider than the kernel\'s cells; (D6.defaults.width) '
    'the default state count max+1 is computed in Python integers, not in the '
    'dtype of the id array; (D6.uptype.ids-preserved) truth table over all '
    'pairs of the kernel\'s integer element types: the harmonisation hands '
    'the kernel one element type and no cast wraps an id into the admissible '
    'range; (D5.out-dtype) element-type provenance of the out= buffer of every '
    'float-valued ufunc: floating on every path, never the dtype of an '
    'argument the contract leaves open. The information-theoretic identities '
    'themselves and rounding-level deviations from them are not decided.')


# ---------------------------------------------------------------------------
# helpers (candidates for a shared module, see the hardening report)

_MODULE_ALIASES = ('np', 'numpy', 'scipy', 'math')


def _fi(mod, fn):
    """FuncInfo whose in-place-mutation table does not list module aliases:
    `out=np.zeros(...)` makes sa.normal._mutated_names report `np` as mutated,
    which blocks the expansion of every temporary defined through `np.f(...)`
    as soon as a second masked ufunc follows it."""
    fi = finfo(mod, fn)
    muts = fi._mutation_sites()
    for a in _MODULE_ALIASES:
        muts.pop(a, None)
    return fi


def _cx(node):
    """Canonical text of an (expanded) expression."""
    return u(canon(node))


def _is_const(node, value):
    return isinstance(node, ast.Constant) and node.value is value


def _index_items(sl):
    return list(sl.elts) if isinstance(sl, ast.Tuple) else [sl]


def _full_slice(it):
    return isinstance(it, ast.Slice) and it.lower is None and it.upper is None and it.step is None


_PASS_METHODS = {'astype', 'copy', 'view'}
_PASS_FUNCS = {'np.asarray', 'np.array', 'np.ascontiguousarray', 'np.asanyarray', 'np.copy',
               'np.atleast_1d', 'np.atleast_2d'}


def _passthrough(v):
    """The Name whose elements the value `v` still holds (same ids, possibly
    another dtype / extra unit axes / a validated copy), else None."""
    while v is not None:
        if isinstance(v, ast.Name):
            return v
        if isinstance(v, ast.Subscript):
            if all(_is_const(i, None) or _is_const(i, Ellipsis) or _full_slice(i) for i in _index_items(v.slice)):
                v = v.value
                continue
            return None
        if isinstance(v, ast.Call):
            cn = call_name(v) or ''
            if isinstance(v.func, ast.Attribute) and v.func.attr in _PASS_METHODS and \
                    not (isinstance(v.func.value, ast.Name) and v.func.value.id in _MODULE_ALIASES):
                v = v.func.value
                continue
            if (cn in _PASS_FUNCS or 'validate' in cn.split('.')[-1]) and v.args and \
                    not isinstance(v.args[0], ast.Starred):
                v = v.args[0]
                continue
        return None
    return None


def _origins(fi, name, at, memo, stack):
    """Set of parameters `name` may hold at `at` (None: some definition is
    not a value-preserving function of a parameter)."""
    out = set()
    for site in fi.rd.defs_at(at, name):
        if site == 'PARAM':
            out.add(name)
            continue
        if site == 'UNBOUND':
            return None
        key = (id(site), name)
        if key in stack:
            continue                      # loop-carried redefinition: adds no new origin
        if key not in memo:
            stack.add(key)
            v = fi.def_value(site, name)
            r = set() if v is not None else None
            for alt in ([v.body, v.orelse] if isinstance(v, ast.IfExp) else [v]) if v is not None else []:
                inner = _passthrough(alt)
                o = _origins(fi, inner.id, site, memo, stack) if inner is not None else None
                if o is None:
                    r = None
                    break
                r |= o
            stack.discard(key)
            memo[key] = r
        if memo[key] is None:
            return None
        out |= memo[key]
    return out


def _origin(fi, name, at):
    """The parameter whose (validated / reshaped / re-typed / copied) value
    the local `name` holds at statement `at` on EVERY path, else None."""
    out = _origins(fi, name, at, {}, set())
    return next(iter(out)) if out is not None and len(out) == 1 else None


def _origin_of(fi, expr, at):
    inner = _passthrough(expr)
    return _origin(fi, inner.id, at) if inner is not None else None


_ALLOCS = {'np.zeros', 'np.zeros_like', 'np.empty', 'np.empty_like', 'np.ones', 'np.ones_like', 'np.full', 'np.full_like'}


def _out_fill(fi, name, at):
    """`name = np.zeros(...)` ... `np.f(x, y, where=m, out=name)` ... use at
    `at`: the value of the buffer at `at` is that of the single expression
    `np.f(x, y, where=m, out=np.zeros(...))` - a masked ufunc written as
    allocation + fill instead of inline out=.  Returns that expression
    (expanded) or None."""
    cache = fi.__dict__.setdefault('_c18_fills', {})
    key = (name, id(at))
    if key in cache:
        return cache[key]
    cache[key] = None
    defs = fi.rd.defs_at(at, name)
    if len(defs) != 1:
        return None
    site = next(iter(defs))
    if not isinstance(site, ast.Assign) or len(site.targets) != 1 or not isinstance(site.targets[0], ast.Name):
        return None
    alloc = site.value
    if not (isinstance(alloc, ast.Call) and call_name(alloc) in _ALLOCS):
        return None
    muts = fi._mutated_in_place(name)
    if len(muts) != 1 or not isinstance(muts[0], ast.Expr) or not isinstance(muts[0].value, ast.Call):
        return None
    m, c = muts[0], muts[0].value
    out = kwarg(c, 'out')
    if not (isinstance(out, ast.Name) and out.id == name and (call_name(c) or '').startswith('np.')):
        return None
    others = [n for x in list(c.args) + [k.value for k in c.keywords if k.arg != 'out'] for n in ast.walk(x) if isinstance(n, ast.Name)]
    if any(n.id == name for n in others):
        return None
    if not (fi.cfg.dominates(site, m) and fi.cfg.dominates(m, at)):
        return None
    for n in others:
        if n.id in fi.rd.locals and fi.rd.defs_at(m, n.id) != fi.rd.defs_at(at, n.id):
            return None
    for n in ast.walk(alloc):
        if isinstance(n, ast.Name) and n.id in fi.rd.locals and fi.rd.defs_at(site, n.id) != fi.rd.defs_at(at, n.id):
            return None
    r = fi.expand(c)
    for k in r.keywords:
        if k.arg == 'out':
            k.value = fi.expand(alloc)
    cache[key] = r
    return r


def _shape_element(e, k, n):
    """Element k of the sequence `e` when it is unpacked into exactly n names,
    for the sequences whose elements have a spelling of their own:
    `E.shape` -> `E.shape[k]`; `E.shape[a:]`, `E.shape[a:b]` (literal a >= 0,
    unit step) -> `E.shape[a + k]` (x[a:][k] == x[a + k] for non-negative a,
    k); `E.shape[-n:]` -> `E.shape[-n + k]`; `np.shape(E)` likewise."""
    def at(base, i):
        return ast.Subscript(value=base, slice=ast.Constant(value=i), ctx=ast.Load())
    if isinstance(e, ast.Call) and call_name(e) in ('np.shape', 'numpy.shape') and len(e.args) == 1 and not e.keywords \
            and not isinstance(e.args[0], ast.Starred):
        e = ast.Attribute(value=e.args[0], attr='shape', ctx=ast.Load())
    if isinstance(e, ast.Attribute) and e.attr == 'shape':
        return at(e, k)
    if isinstance(e, ast.Subscript) and isinstance(e.value, ast.Attribute) and e.value.attr == 'shape' and \
            isinstance(e.slice, ast.Slice) and (e.slice.step is None or const_value(canon(e.slice.step)) == 1):
        lo = 0 if e.slice.lower is None else const_value(canon(e.slice.lower))
        if not isinstance(lo, int) or isinstance(lo, bool):
            return None
        if lo >= 0:
            return at(e.value, lo + k)
        if e.slice.upper is None and -lo == n:
            return at(e.value, lo + k)
    return None


def _unpack_element(fi, name, at, stop=()):
    """`a, b = jc.shape[0:2]` ... use of `a` at `at`: the expression
    `jc.shape[0]` (see _shape_element), when the unpacking assignment is the
    single definition that reaches `at`, its value is pure and none of its
    operands is rebound or mutated between the assignment and `at`.  (A
    parallel assignment `a, b = e1, e2` is already seen through by
    FuncInfo.def_value / expand.)"""
    defs = fi.rd.defs_at(at, name)
    if len(defs) != 1:
        return None
    site = next(iter(defs))
    if not isinstance(site, ast.Assign) or len(site.targets) != 1 or not isinstance(site.targets[0], (ast.Tuple, ast.List)):
        return None
    elts = site.targets[0].elts
    if any(not isinstance(t, ast.Name) for t in elts):
        return None
    names = [t.id for t in elts]
    V = site.value
    if names.count(name) != 1 or isinstance(V, (ast.Tuple, ast.List)) or not is_pure(V) or fi._mutated_in_place(name):
        return None
    for m in ast.walk(V):
        if not (isinstance(m, ast.Name) and isinstance(m.ctx, ast.Load)) or m.id in _MODULE_ALIASES:
            continue
        if m.id in fi.rd.locals and fi.rd.defs_at(site, m.id) != fi.rd.defs_at(at, m.id):
            return None
        for ms in fi._mutated_in_place(m.id):
            if ms is not site and ms is not at and fi.cfg.reachable(site, ms) and fi.cfg.reachable(ms, at, avoiding=[site]):
                return None
    return _shape_element(_xp(fi, V, site, stop=stop), names.index(name), len(names))


def _xp(fi, expr, at, stop=()):
    """fi.expand + substitution of allocate-then-fill buffers (see _out_fill)
    and of names bound by unpacking a shape (see _unpack_element) as seen
    from statement `at`."""
    e = fi.expand(expr, stop=stop)

    class T(ast.NodeTransformer):
        def visit_Name(self, n):
            if isinstance(n.ctx, ast.Load) and n.id not in stop:
                r = _out_fill(fi, n.id, at)
                if r is None:
                    r = _unpack_element(fi, n.id, at, stop=stop)
                if r is not None:
                    return copy.deepcopy(r)
            return n
    e = T().visit(e)
    ast.fix_missing_locations(e)
    return e


def _facts(fi, stmt):
    """[(test, polarity, owner)]: tests known to be true/false whenever
    control reaches `stmt` (dominating if-branches, early exits, asserts)."""
    out = []
    for n in fi.cfg.nodes:
        if isinstance(n, Assume):
            if fi.cfg.dominates(n, stmt):
                out.append((n.test, n.polarity, n.owner))
        elif isinstance(n, ast.Assert) and n is not stmt and fi.cfg.dominates(n, stmt):
            out.append((n.test, True, n))
    return out


def _atoms(fi, stmt, stop=()):
    """Atomic facts (patterns.Cmp or ('expr', e, polarity)) that hold at
    `stmt`, over expanded operands; a fact is dropped when one of its
    operands may have been rebound between the guard and `stmt`."""
    atoms = []
    for test, pol, owner in _facts(fi, stmt):
        e = _xp(fi, test, stmt, stop=stop)
        names = {n.id for n in ast.walk(e) if isinstance(n, ast.Name)}
        if any(fi.rd.defs_at(owner, nm) != fi.rd.defs_at(stmt, nm) for nm in names if nm in fi.rd.locals):
            continue
        cs = conjuncts(canon(e), pol)
        if cs:
            atoms += cs
    return atoms


def _atom_names(a):
    es = [a.lhs, a.rhs] if isinstance(a, Cmp) else [a[1]]
    return {n.id for e in es for n in ast.walk(e) if isinstance(n, ast.Name)}


def _enclosing_loops(mod, stmt):
    out = []
    n = mod.parent.get(stmt)
    while n is not None and not isinstance(n, (ast.FunctionDef, ast.AsyncFunctionDef)):
        if isinstance(n, ast.For):
            out.append(n)
        n = mod.parent.get(n)
    return out


def _loop_of(fi, name, at):
    """The for statement that binds the plain loop variable `name` seen at `at`."""
    defs = fi.rd.defs_at(at, name)
    if len(defs) != 1:
        return None
    site = next(iter(defs))
    if isinstance(site, ast.For) and isinstance(site.target, ast.Name) and site.target.id == name:
        return site
    return None


def _range_extent(it):
    """E for `range(E)` / `range(0, E)` / `range(0, E, 1)` / `prange(E, ...)`."""
    if not (isinstance(it, ast.Call) and call_name(it) in ('range', 'prange', 'cython.parallel.prange', 'parallel.prange')):
        return None
    a = it.args
    if any(isinstance(x, ast.Starred) for x in a):
        return None
    if len(a) == 1:
        return a[0]
    if len(a) in (2, 3) and const_value(a[0]) == 0 and (len(a) == 2 or const_value(a[2]) == 1):
        return a[1]
    return None


# ---------------------------------------------------------------------------
# D1 / D2 kernel

def d1_kernel(ck):
    mod = ck.repo.mod(LI)
    fused = mod.tree.cy_fused
    fn = mod.func('matrix_bincount2d')
    F = 'matrix_bincount2d'
    d = fn.cy_directives
    ck.ok('C18.kernel', mod, fn, 'matrix_bincount2d boundscheck=%s wraparound=%s' % (
        d.get('boundscheck'), d.get('wraparound')), 'unchecked kernel')
    nb, k = check_bounds(ck, 'C18.D1.bounds', mod, fn, fused)
    ck.floor('C18.D1.bounds', nb, 8, 'bounds obligations in matrix_bincount2d')
    npr = check_prange(ck, 'C18.D2.prange', mod, fn, fused)
    ck.floor('C18.D2.prange', npr, 1, 'prange loops')
    nz = check_zero_before_accumulate(ck, 'C18.D2.zero-first', mod, fn, fused)
    ck.floor('C18.D2.zero-first', nz, 1, 'accumulations')

    fi = _fi(mod, fn)
    if len(params(fn)) < 4:
        ck.missing('C18.D1.cell', 'kernel signature (a, b, n_a, n_b)')
        return
    A, B = params(fn)[:2]
    # the count table is the array that is returned; its cells are incremented
    rets = [r.value for r in returns_of(fn) if r.value is not None]
    JC = rets[0].id if len(rets) == 1 and isinstance(rets[0], ast.Name) else None
    incs = [s for s in walk_local(fn) if isinstance(s, ast.AugAssign) and isinstance(s.target, ast.Subscript)
            and isinstance(s.target.value, ast.Name) and s.target.value.id == JC]
    if JC is None or not incs:
        ck.missing('C18.D1.cell', 'increment `<returned table>[x, y, i, j] += 1` in matrix_bincount2d')
        return
    ext = lambda arr, k: ['%s.shape[%d]' % (arr, k)] + (['len(%s)' % arr] if k == 0 else [])
    for s in incs:
        loops = _enclosing_loops(mod, s)
        lvars = {l.target.id for l in loops if isinstance(l.target, ast.Name)}
        scope = {A, B} | lvars
        # ---- feature arrays of different lengths are rejected before the loops
        want = {(x, y) for x in ext(A, 0) for y in ext(B, 0)}
        want |= {(y, x) for x, y in want}
        facts = _atoms(fi, s)
        eqs = [a for a in facts if isinstance(a, Cmp) and a.op is ast.Eq]
        both = [a for a in eqs if {A, B} <= _atom_names(a)]
        unread = [a for a in facts if a not in eqs and {A, B} <= _atom_names(a)]
        if any((_cx(a.lhs), _cx(a.rhs)) in want for a in both):
            ck.ok('C18.D1.lengths', mod, s, 'assert %s.shape[0] == %s.shape[0]' % (A, B),
                  'feature arrays of different lengths are rejected')
        elif both:
            ck.bad('C18.D1.lengths', mod, s, F, '; '.join(repr(a) for a in both),
                   'the length guard compares %s: the kernel iterates t over %s.shape[0] and reads %s[t, ...], so the '
                   'guard must be %s.shape[0] == %s.shape[0]' % (both[0], A, B, A, B))
        elif unread:
            ck.missing('C18.D1.lengths', 'a dominating test relates %s and %s but is not recognised as the length guard: %s' % (
                A, B, '; '.join(repr(a) if isinstance(a, Cmp) else u(a[1]) for a in unread)[:160]))
        else:
            ck.bad('C18.D1.lengths', mod, s, F, 'assert %s.shape[0] == %s.shape[0]' % (A, B),
                   'the kernel iterates t over %s.shape[0] and reads %s[t, ...]: arrays of different lengths must be '
                   'rejected (no dominating equality of the two frame counts found)' % (A, B))
        # ---- the count cell: jc[x, y, a[t, x], b[t, y]] += 1
        dims = _index_items(s.target.slice)
        cell = ast.Tuple(elts=[fi.expand(x) for x in dims], ctx=ast.Load())
        v = classify(cell, ['(_FA, _FB, %s[_T, _FA], %s[_T, _FB])' % (A, B)], scope=scope)
        one = isinstance(s.op, ast.Add) and const_value(fi.expand(s.value)) == 1
        if v[0] == 'match' and not one:
            v = ('near', 1, None)
        ck.decide(v, 'C18.D1.cell', mod, s, F, '%s with cell %s' % (u(s), _cx(cell)),
                  'cell [x, y, state of x in a, state of y in b] incremented by one per frame',
                  'the incremented cell must be jc[a_row, b_row, a[t, a_row], b[t, b_row]] += 1')
        if v[0] != 'match':
            continue
        _capacity(ck, mod, fn, fi, s, A, B, JC)
        # ---- every frame / feature pair is visited exactly once
        b = v[1]
        for meta, arr, k, what in (('_T', A, 0, 'frame'), ('_FA', A, 1, 'first-feature'), ('_FB', B, 1, 'second-feature')):
            nm = b[meta]
            loop = _loop_of(fi, nm.id, s) if isinstance(nm, ast.Name) else None
            if loop is None:
                ck.missing('C18.D1.cell.loops', 'loop binding the %s index `%s`' % (what, u(nm)))
                continue
            lit = _xp(fi, loop.iter, s)
            e = _range_extent(lit)
            forms = ext(arr, k) + (ext(B if arr == A else A, 0) if k == 0 else [])
            if e is None:
                vv = classify(lit, ['range(%s)' % f for f in forms], scope=scope)
                if vv[0] == 'match':
                    vv = ('far', 0, None)
            else:
                vv = classify(e, forms, scope=scope)
            ck.decide(vv, 'C18.D1.cell.loops', mod, loop, F, 'for %s in %s' % (nm.id, _cx(lit)),
                      '%s index runs over all of %s.shape[%d]' % (what, arr, k),
                      'the %s index must run over range(%s.shape[%d]): every frame of every feature pair is counted '
                      'exactly once' % (what, arr, k))
    # the 1-D sibling kernel (not called by the package, but public and unchecked)
    fn2 = mod.functions.get('bincount2d')
    if fn2 is not None and fn2.cy_directives.get('boundscheck') is False:
        nb2, _ = check_bounds(ck, 'C18.D1.bounds', mod, fn2, fused)
        check_zero_before_accumulate(ck, 'C18.D2.zero-first', mod, fn2, fused)


# ---------------------------------------------------------------------------
# D3 axis model of the joint-count array

class _Unk(Exception):
    pass


class _Val:
    """Abstract value of an array expression derived from the 4-D joint
    counts jc[x, y, i, j]: which count axes are still present (`axes`, None =
    a broadcast unit axis), which were indexed away and by what (`idx`), and
    for a quotient which axes numerator and denominator had."""

    def __init__(self, kind, axes, idx, num=None, den=None, aligned=True):
        self.kind, self.axes, self.idx = kind, list(axes), dict(idx)
        self.num, self.den, self.aligned = num, den, aligned


def _int_list(node):
    if isinstance(node, (ast.Tuple, ast.List)):
        vals = [const_value(e) for e in node.elts]
    else:
        vals = [const_value(node)]
    if any(not isinstance(v, int) or isinstance(v, bool) for v in vals):
        raise _Unk('axis is not a literal: %s' % u(node))
    return vals


def _interp(e, is_jc):
    if isinstance(e, ast.Name):
        if is_jc(e):
            return _Val('count', [0, 1, 2, 3], {})
        raise _Unk('array `%s` is not derived from the joint counts' % e.id)
    if isinstance(e, ast.BinOp) and isinstance(e.op, ast.Div):
        return _quot(e.left, e.right, is_jc)
    if isinstance(e, ast.Call):
        cn = call_name(e) or ''
        f = e.func
        if cn in ('np.divide', 'np.true_divide', 'numpy.divide', 'numpy.true_divide') and len(e.args) >= 2:
            return _quot(e.args[0], e.args[1], is_jc)
        if isinstance(f, ast.Attribute) and not (isinstance(f.value, ast.Name) and f.value.id in _MODULE_ALIASES):
            if f.attr == 'sum':
                v = _interp(f.value, is_jc)
                if v.kind != 'count':
                    raise _Unk('sum of a quotient')
                ax = kwarg(e, 'axis') or (e.args[0] if e.args else None)
                n = len(v.axes)
                which = list(range(n)) if ax is None or _is_const(ax, None) else _int_list(ax)
                if any(not -n <= k < n for k in which):
                    raise _Unk('axis out of range in %s' % u(e)[:60])
                which = {k % n for k in which}
                keep = kwarg(e, 'keepdims')
                if keep is not None and const_value(keep) is not True and const_value(keep) is not False:
                    raise _Unk('keepdims is not a literal')
                keep = keep is not None and const_value(keep) is True
                axes = [(None if keep else 'drop') if i in which else a for i, a in enumerate(v.axes)]
                return _Val('count', [a for a in axes if a != 'drop'], v.idx)
            if f.attr in ('astype', 'copy'):
                return _interp(f.value, is_jc)
        if cn in ('np.asarray', 'np.array', 'np.asfarray', 'np.ascontiguousarray', 'float', 'np.float64') and e.args \
                and not isinstance(e.args[0], ast.Starred):
            return _interp(e.args[0], is_jc)
        raise _Unk('cannot see through %s' % u(e)[:60])
    if isinstance(e, ast.Subscript):
        v = _interp(e.value, is_jc)
        items = _index_items(e.slice)
        real = [it for it in items if not _is_const(it, None) and not _is_const(it, Ellipsis)]
        if len(real) > len(v.axes) or sum(1 for it in items if _is_const(it, Ellipsis)) > 1:
            raise _Unk('too many indices in %s' % u(e)[:60])
        axes, idx, pos = [], dict(v.idx), 0
        for it in items:
            if _is_const(it, Ellipsis):
                fill = len(v.axes) - len(real)
                axes += v.axes[pos:pos + fill]
                pos += fill
            elif _is_const(it, None):
                axes.append(None)
            elif isinstance(it, ast.Slice):
                if not _full_slice(it):
                    raise _Unk('partial slice in %s' % u(e)[:60])
                axes.append(v.axes[pos])
                pos += 1
            else:
                if v.axes[pos] is None:
                    raise _Unk('index into a broadcast axis in %s' % u(e)[:60])
                idx[v.axes[pos]] = it
                pos += 1
        axes += v.axes[pos:]
        return _Val(v.kind, axes, idx, v.num, v.den, v.aligned)
    raise _Unk('cannot see through %s' % u(e)[:60])


def _quot(a, b, is_jc):
    va, vb = _interp(a, is_jc), _interp(b, is_jc)
    if va.kind != 'count' or vb.kind != 'count' or va.idx or vb.idx:
        raise _Unk('quotient of something else than two count arrays')
    if len(vb.axes) > len(va.axes):
        raise _Unk('divisor has more axes than the dividend')
    aligned = all(vb.axes[-1 - k] is None or vb.axes[-1 - k] == va.axes[-1 - k] for k in range(len(vb.axes)))
    return _Val('prob', va.axes, {}, num=list(va.axes), den=list(vb.axes), aligned=aligned)


def _unwrap_float(v):
    while isinstance(v, ast.Call) and call_name(v) in ('float', 'np.float64', 'np.double') and len(v.args) == 1 and \
            not v.keywords and not isinstance(v.args[0], ast.Starred):
        v = v.args[0]
    return v


def _accumulations(fi, fn, OUT):
    """[(acc, store, init)]: every place where a term is accumulated into the
    array `OUT`, in either of the two equivalent shapes
      direct:  OUT[idx] += <term>                      -> (that statement, that statement, None)
      scalar:  s = <const>; ...; s += <term>; ...; OUT[idx] = s   (or OUT[idx] += s)
               -> (the `s += <term>`, the store into OUT, the `s = <const>`)
    The scalar shape is recognised through reaching definitions: the value
    stored is a local name whose definitions at the store are ONE plain
    assignment plus augmented assignments to that name, and nothing else
    reaches the augmented assignments.  None: a store into OUT reads an
    accumulator whose definitions the rule cannot follow."""
    out = []
    for s in walk_local(fn):
        if isinstance(s, ast.AugAssign):
            tgts = [s.target]
        elif isinstance(s, ast.Assign):
            tgts = s.targets
        else:
            continue
        if not any(isinstance(t, ast.Subscript) and isinstance(t.value, ast.Name) and t.value.id == OUT for t in tgts):
            continue
        v = _unwrap_float(s.value)
        if isinstance(v, ast.Name) and v.id in fi.rd.locals:
            defs = fi.rd.defs_at(s, v.id)
            augs = [d for d in defs if isinstance(d, ast.AugAssign) and isinstance(d.target, ast.Name) and d.target.id == v.id]
            if augs:
                inits = [d for d in defs if not any(d is g for g in augs)]
                ok = len(tgts) == 1 and len(inits) == 1 and isinstance(inits[0], ast.Assign) and len(inits[0].targets) == 1 \
                    and isinstance(inits[0].targets[0], ast.Name) and inits[0].targets[0].id == v.id
                allowed = {id(d) for d in augs} | {id(d) for d in inits}
                for g in augs:
                    if any(id(d) not in allowed for d in fi.rd.defs_at(g, v.id)):
                        ok = False
                if not ok:
                    return None
                out += [(g, s, inits[0]) for g in augs]
                continue
        if isinstance(s, ast.AugAssign):
            out.append((s, s, None))
    return out


def _accumulator_scope(ck, rule, mod, fi, F, a, S, sinit):
    """Scalar shape of _accumulations: decide that the running sum is reset
    exactly once per entry of the result.  Entry loops = the loops around the
    accumulation whose variable occurs in the index of the store; the reset
    must sit inside all of them (else the sum of one entry leaks into the
    next) and, when the store is a plain assignment, inside no other loop
    around the accumulation (else the terms of the earlier iterations are
    dropped).  Returns False when the analysis cannot go on."""
    La, LS, LI = (_enclosing_loops(mod, x) for x in (a, S, sinit))
    tgt = S.target if isinstance(S, ast.AugAssign) else S.targets[0]
    idx_names = {n.id for it in _index_items(tgt.slice) for n in ast.walk(_xp(fi, it, S)) if isinstance(n, ast.Name)}
    entry = [L for L in La if isinstance(L.target, ast.Name) and L.target.id in idx_names
             and _loop_of(fi, L.target.id, S) is L]
    if any(nm not in _MODULE_ALIASES and not any(L.target.id == nm for L in entry) for nm in idx_names):
        ck.missing(rule + '.init', 'the index of the store `%s` is not made of the variables of the loops around the '
                   'accumulation' % u(S)[:60])
        return False
    inside = lambda L, Ls: any(L is x for x in Ls)
    con = '%s ... %s ... %s' % (u(sinit), u(a.target) + ' += <term>', u(S)[:80])
    if any(not inside(L, La) for L in LS) or any(not inside(L, LS) and not inside(L, La) for L in LI):
        ck.missing(rule + '.init', 'nesting of the running sum `%s`: its reset, its accumulation and the store `%s` do not '
                   'sit in one loop nest' % (u(a.target), u(S)[:60]))
        return False
    leak = [L for L in entry if not inside(L, LI)]
    if leak:
        ck.bad(rule + '.init', mod, sinit, F, con, 'the running sum `%s` is stored into an entry indexed by `%s` but is reset '
               'outside the loop over `%s`: the terms of one entry are carried into the next' % (
                   u(a.target), leak[0].target.id, leak[0].target.id))
        return False
    extra = [L for L in LI if inside(L, La) and not inside(L, entry)]
    if isinstance(S, ast.Assign):
        if extra:
            if all(inside(L, LS) for L in extra):
                ck.bad(rule + '.init', mod, sinit, F, con, 'the running sum `%s` is reset inside the loop over `%s`, over which '
                       'the terms are summed, and then ASSIGNED to the entry: only the terms of the last iteration survive' % (
                           u(a.target), extra[0].target.id if isinstance(extra[0].target, ast.Name) else u(extra[0].target)))
            else:
                ck.bad(rule + '.init', mod, sinit, F, con, 'the running sum `%s` is reset inside the loop over `%s`, over which '
                       'the terms are summed, and stored outside it: only the terms of the last iteration survive' % (
                           u(a.target), extra[0].target.id if isinstance(extra[0].target, ast.Name) else u(extra[0].target)))
            return False
    else:
        # OUT[idx] += s: every partial sum must be added exactly once
        if len(LS) != len(LI) or any(not inside(L, LI) for L in LS):
            ck.missing(rule + '.init', 'the partial sums `%s` are added to the entry in another loop than the one that '
                       'resets them' % u(a.target))
            return False
    z = const_value(canon(sinit.value))
    if isinstance(z, (int, float)) and not isinstance(z, bool):
        ck.check(z == 0, rule + '.init', mod, sinit, F, u(sinit), 'the running sum of an entry starts at zero',
                 'the terms are ADDED to `%s`: it must start at zero, not %r' % (u(a.target), z))
    else:
        ck.missing(rule + '.init', 'zero initialisation of the running sum `%s` (found `%s`)' % (u(a.target), u(sinit)[:60]))
    return True


_AXNAME = {0: 'first-feature', 1: 'second-feature', 2: 'first-state', 3: 'second-state'}


def d3_axes(ck):
    rule = 'C18.D3.axes'
    F = 'mutual_information'
    mod = ck.repo.mod(MI)
    fn = mod.func(F)
    ck.analysed(mod, fn)
    fi = _fi(mod, fn)
    if not params(fn):
        ck.missing(rule, 'joint-count parameter of mutual_information')
        return
    JC = params(fn)[0]
    # the MI matrix is what is returned; the term is what is accumulated into it
    rets = [r.value for r in returns_of(fn) if r.value is not None]
    if len(rets) != 1 or not isinstance(rets[0], ast.Name):
        ck.missing(rule, 'mutual_information returns one named array')
        return
    OUT = rets[0].id
    found = _accumulations(fi, fn, OUT)
    if found is None or len(found) != 1:
        ck.missing(rule, 'one accumulation `%s[i, j] += <term>` or `s = 0; ...; s += <term>; ...; %s[i, j] = s` (found %s)' % (
            OUT, OUT, 'an accumulator the rule cannot follow' if found is None else len(found)))
        return
    a, S, sinit = found[0]
    lvars = {l.target.id for l in _enclosing_loops(mod, a) if isinstance(l.target, ast.Name)}
    scope = {JC} | lvars
    term = _xp(fi, a.value, a)
    v = classify(term, ['_J * np.log(_J / (_PX * _PY))', 'np.log(_J / (_PX * _PY)) * _J', '_J * np.log(_J / _PX / _PY)',
                        '_J * (np.log(_J) - np.log(_PX * _PY))', '_J * (np.log(_J) - np.log(_PX) - np.log(_PY))',
                        '_J * (np.log(_J) - (np.log(_PX) + np.log(_PY)))'], scope=scope)
    if v[0] == 'match' and not isinstance(a.op, ast.Add):
        v = ('near', 1, None)
    ck.decide(v, rule + '.term', mod, a, F, u(a), 'p(x,y) * log(p(x,y) / (p(x) p(y))) is added',
              'the accumulated term must be p_xy * log(p_xy / (p_x * p_y)), added to the entry')
    if v[0] != 'match':
        return
    J, PX, PY = v[1]['_J'], v[1]['_PX'], v[1]['_PY']
    short = lambda e: u(e) if len(u(e)) < 60 else u(e)[:28] + ' ... ' + u(e)[-28:]

    def is_jc(n):
        return _origin(fi, n.id, a) == JC
    try:
        vj, vx, vy = _interp(J, is_jc), _interp(PX, is_jc), _interp(PY, is_jc)
    except _Unk as e:
        ck.missing(rule, 'a factor of the accumulated term is not recognised as a normalised (marginal of the) joint '
                         'count array: %s' % e)
        return
    if any(w.axes or w.kind != 'prob' for w in (vj, vx, vy)):
        ck.missing(rule, 'the factors of the accumulated term are not single cells of normalised count arrays')
        return
    # ---- the joint factor is a cell of the normalised 4-D counts
    if vj.num != [0, 1, 2, 3] or set(vj.idx) != {0, 1, 2, 3}:
        ck.bad(rule, mod, a, F, short(J), 'the joint probability in the MI term must be a cell [i, j, u, v] of the '
               'normalised joint counts; found count axes %s' % vj.num)
        return
    jidx = {k: _cx(e) for k, e in vj.idx.items()}
    # ---- marginals: which state axis they keep and which loop index indexes it
    n = 0
    kept = []
    for lab, e, w in (('p_x', PX, vx), ('p_y', PY, vy)):
        st = [k for k in w.num if k in (2, 3)]
        if w.num[:2] != [0, 1] or len(w.num) != 3 or len(st) != 1 or set(w.idx) != set(w.num):
            ck.bad(rule, mod, a, F, short(e), 'marginal factor of the MI term must be a cell [i, j, state] of the joint counts '
                   'summed over ONE state axis; found count axes %s' % w.num)
            continue
        n += 1
        s = st[0]
        kept.append(s)
        got = {k: _cx(x) for k, x in w.idx.items()}
        bad = [k for k in got if got[k] != jidx[k]]
        summed = 5 - s
        ck.check(not bad, rule, mod, a, F,
                 '%s = <counts summed over axis %d>[%s] against joint[%s]' % (
                     lab, summed, ', '.join(got[k] for k in sorted(got)), ', '.join(jidx[k] for k in range(4))),
                 'marginal over axis %d is the distribution of the %s and is indexed by the %s index `%s`' % (
                     summed, _AXNAME[s].replace('-state', ' feature'), _AXNAME[s], jidx[s]),
                 'summing axis %d of the joint counts leaves the distribution of the %s; its cell must be taken at the '
                 'index the joint block uses on axis %d (`%s`) and at the same feature pair; found %s' % (
                     summed, _AXNAME[s].replace('-state', ' feature'), s, jidx[s],
                     ', '.join('axis %d indexed by `%s` (joint: `%s`)' % (k, got[k], jidx[k]) for k in bad)))
    ck.floor(rule, n, 2, 'marginal uses in the MI term')
    if len(kept) == 2:
        ck.check(sorted(kept) == [2, 3], rule, mod, a, F, 'marginals of state axes %s' % kept,
                 'one marginal per feature', 'the two marginal factors must be the distributions of the two DIFFERENT features '
                 '(state axes 2 and 3); both keep axis %d' % kept[0])
    # ---- the entry that is accumulated is the entry of the same feature pair
    starget = S.target if isinstance(S, ast.AugAssign) else S.targets[0]
    tgt = [_cx(_xp(fi, x, S)) for x in _index_items(starget.slice)]
    if S is not a:
        # the loop variables named in the store are those the term was indexed with
        for k in (0, 1):
            nm = vj.idx[k]
            if isinstance(nm, ast.Name) and _loop_of(fi, nm.id, a) is not None and _loop_of(fi, nm.id, S) is not _loop_of(fi, nm.id, a):
                ck.missing(rule, 'the store `%s` is outside the loop that binds the %s index `%s` of the accumulated term' % (
                    u(S)[:60], _AXNAME[k], nm.id))
                return
    ck.check(tgt == [jidx[0], jidx[1]], rule, mod, S, F, '%s accumulates joint[%s]' % (u(starget), ', '.join(jidx[k] for k in range(4))),
             'entry (i, j) accumulates the terms of feature pair (i, j)',
             'the entry accumulated must be [%s, %s], the feature pair whose joint block is summed' % (jidx[0], jidx[1]))
    # ---- the accumulator starts at zero
    if sinit is not None and not _accumulator_scope(ck, rule, mod, fi, F, a, S, sinit):
        return
    if isinstance(S, ast.AugAssign) and S is not a and not isinstance(S.op, ast.Add):
        ck.bad(rule + '.init', mod, S, F, u(S), 'the partial sums must be ADDED to the entry')
    ds = fi.rd.defs_at(S, OUT) if isinstance(S, ast.AugAssign) else ()
    site = next(iter(ds)) if len(ds) == 1 else None
    val = fi.def_value(site, OUT) if isinstance(site, (ast.Assign, ast.AnnAssign)) else None
    iv = fi.expand(val) if val is not None else None
    icn = call_name(iv) if isinstance(iv, ast.Call) else None
    if icn in ('np.zeros', 'np.zeros_like'):
        ck.ok(rule + '.init', mod, site, u(site), 'the MI entries start at zero')
    elif icn in ('np.ones', 'np.ones_like', 'np.empty', 'np.empty_like', 'np.full', 'np.full_like') or \
            (isinstance(iv, ast.Call) and isinstance(iv.func, ast.Attribute) and iv.func.attr == 'copy'):
        ck.bad(rule + '.init', mod, site, F, u(site), 'the terms are ADDED to the entries of `%s`: it must start as zeros, not %s' % (OUT, icn or u(iv)[:60]))
    elif isinstance(S, ast.Assign):
        pass                              # every entry is assigned the running sum decided above
    else:
        ck.missing(rule + '.init', 'zero initialisation of the accumulated array `%s`' % OUT)
    # ---- loop ranges: index of count axis k runs over the extent of axis k
    for k in range(4):
        nm = vj.idx[k]
        loop = _loop_of(fi, nm.id, a) if isinstance(nm, ast.Name) else None
        if loop is None:
            ck.missing(rule + '.ranges', 'for loop binding the %s index `%s`' % (_AXNAME[k], u(nm)))
            continue
        it = _xp(fi, loop.iter, a)
        e = _range_extent(it)
        con = 'for %s in %s' % (nm.id, short(it))
        if e is None:
            vv = classify(it, ['range(_X.shape[_K])'], scope=scope)
            ck.decide(('far', 0, None) if vv[0] == 'match' else vv, rule + '.ranges', mod, loop, F, con, '',
                      'the %s index must run over range(<extent of count axis %d>)' % (_AXNAME[k], k))
            continue
        vv = classify(e, ['_X.shape[_K]', 'len(_X)'], scope=scope)
        if vv[0] == 'match':
            try:
                w = _interp(vv[1]['_X'], is_jc)
                kk = const_value(vv[1]['_K']) if '_K' in vv[1] else 0
                if not isinstance(kk, int) or not -len(w.axes) <= kk < len(w.axes):
                    raise _Unk('axis')
                got = w.axes[kk]
            except _Unk:
                vv = ('far', 0, None)
            else:
                ck.check(got == k, rule + '.ranges', mod, loop, F, con,
                         '%s index ranges over count axis %d' % (_AXNAME[k], k),
                         'the %s index `%s` indexes count axis %d but ranges over the extent of %s' % (
                             _AXNAME[k], nm.id, k, 'count axis %s' % got if got is not None else 'a unit axis'))
                continue
        ck.decide(vv, rule + '.ranges', mod, loop, F, con, '',
                  'the %s index must run over the full extent of count axis %d' % (_AXNAME[k], k))
    # ---- cells with a zero probability are skipped (0 log 0 = 0, no division by zero)
    sidx = {jidx[2], jidx[3]}
    atoms = [x for x in _atoms(fi, a) if _atom_names(x) & sidx]
    nonzero = {}
    opaque = False
    for x in atoms:
        if isinstance(x, Cmp):
            if x.op is ast.NotEq and const_value(x.rhs) == 0:
                nonzero[u(x.lhs)] = x.lhs
            elif x.op is ast.NotEq and const_value(x.lhs) == 0:
                nonzero[u(x.rhs)] = x.rhs
            elif x.op is ast.Lt and const_value(x.lhs) == 0:
                nonzero[u(x.rhs)] = x.rhs
            elif x.op is ast.Gt and const_value(x.rhs) == 0:
                nonzero[u(x.lhs)] = x.lhs
            elif const_value(x.lhs) is None and const_value(x.rhs) is None:
                opaque = True             # a test the rule does not interpret
        elif x[2]:
            nonzero[u(x[1])] = x[1]       # truthiness of a float cell = non-zero
        else:
            opaque = True
    need = [(lab, u(e)) for lab, e in (('p_xy', J), ('p_x', PX), ('p_y', PY))]
    # a non-zero test of something that is not a factor of the term (a precomputed mask, a helper): not interpreted
    for t, node in nonzero.items():
        if t not in [w for _, w in need]:
            try:
                _interp(node, is_jc)      # a cell of another array derived from the counts: a wrong operand
            except _Unk:
                opaque = True
    lacking = [lab for lab, t in need if t not in nonzero]
    con = ' and '.join(repr(x) if isinstance(x, Cmp) else ('' if x[2] else 'not ') + u(x[1]) for x in atoms)
    con = (con[:200] or 'no guard on the accumulation')
    if not lacking:
        ck.ok(rule + '.guard', mod, a, con, 'cells with a zero probability are skipped (0 log 0 = 0)')
    elif opaque:
        ck.missing(rule + '.guard', 'guard of the accumulation not recognised: %s' % con)
    else:
        ck.bad(rule + '.guard', mod, a, F, con, 'the term must be skipped when p_xy, p_x or p_y is zero; no dominating '
               'test establishes %s != 0' % ', '.join(lacking))
    # ---- every factor is normalised by the per-pair observation count
    for lab, e, w in (('p_xy', J, vj), ('p_x', PX, vx), ('p_y', PY, vy)):
        want = [0, 1] + [None] * (len(w.num) - 2)
        ck.check(w.den == want and w.aligned, rule + '.normalise', mod, a, F,
                 '%s = counts%s / counts%s' % (lab, w.num, w.den),
                 'normalised by the per-pair observation count broadcast over the state axes',
                 'the divisor of %s must be the total count of the feature pair (all state axes summed away) with '
                 '%d trailing unit axes; found a divisor with count axes %s against a dividend with %s' % (
                     lab, len(w.num) - 2, w.den, w.num))


# ---------------------------------------------------------------------------
# D4 channel-capacity grid

_MIN_FUNCS = {'np.fmin', 'np.minimum'}
_OUTER_MIN = {'np.fmin.outer', 'np.minimum.outer'}
_OTHER_BINARY = {'np.fmax', 'np.maximum', 'np.add', 'np.multiply', 'np.fmax.outer', 'np.maximum.outer', 'np.add.outer',
                 'np.multiply.outer', 'np.subtract', 'np.hypot', 'np.power'}
_COPY_FORMS = ['_P.copy()', 'np.array(_P, copy=True)', 'np.copy(_P)', '_P.astype(_T)', '_P.astype(_T, copy=True)',
               'np.array(_P, dtype=_T)', 'np.array(_P, dtype=_T, copy=True)', '_P + 0', '_P * 1', '+_P', 'copy.copy(_P)',
               'copy.deepcopy(_P)']


def _private_copy_of(fi, name, at, P, depth=4):
    """'copy' if on every path `name` (at statement `at`) holds a fresh copy
    of parameter P; 'alias' if on some path it IS the caller's array (or a
    view of it); None if a definition cannot be seen through."""
    res = set()
    for site in fi.rd.defs_at(at, name):
        if site == 'PARAM':
            res.add('alias')
            continue
        v = fi.def_value(site, name) if site != 'UNBOUND' and depth > 0 else None
        if v is None:
            res.add(None)
            continue
        b = None
        for f in _COPY_FORMS:
            b = match(f, v)
            if b is not None:
                break
        if b is not None and isinstance(b['_P'], ast.Name):
            # a copy of the parameter, of a view of it or of a copy of it
            res.add('copy' if _origin(fi, b['_P'].id, site) == P or
                    _private_copy_of(fi, b['_P'].id, site, P, depth - 1) is not None else None)
            continue
        inner = _passthrough(v)           # np.asarray(mi), mi[...], validated(mi): may share memory
        res.add(_private_copy_of(fi, inner.id, site, P, depth - 1) if inner is not None else None)
    return 'alias' if 'alias' in res else None if None in res or not res else 'copy'


def _meshgrid_element(call, k):
    """(vector expression, axis it varies along) for element k of np.meshgrid(v0, v1, ...)."""
    if call_name(call) not in ('np.meshgrid', 'numpy.meshgrid') or len(call.args) != 2 or \
            any(isinstance(x, ast.Starred) for x in call.args) or k not in (0, 1):
        return None
    ix = kwarg(call, 'indexing')
    mode = 'xy' if ix is None else const_value(ix)
    if mode == 'ij':
        return call.args[k], k
    if mode == 'xy':
        return call.args[k], 1 - k
    return None


def _grid_operand(fi, e, at):
    """(vector expression, axis of the 2-D grid along which it varies)."""
    e = canon(e)
    if isinstance(e, ast.Name):
        defs = fi.rd.defs_at(at, e.id)
        if len(defs) == 1:
            site = next(iter(defs))
            if isinstance(site, ast.Assign) and len(site.targets) == 1 and isinstance(site.targets[0], (ast.Tuple, ast.List)) \
                    and isinstance(site.value, ast.Call):
                names = [t.id if isinstance(t, ast.Name) else None for t in site.targets[0].elts]
                if names.count(e.id) == 1 and len(names) == 2:
                    return _meshgrid_element(fi.expand(site.value), names.index(e.id))
                return None
        return e, 1                              # a plain vector broadcasts along the last axis
    if isinstance(e, ast.Subscript):
        if isinstance(e.value, ast.Call) and isinstance(const_value(e.slice), int):
            return _meshgrid_element(e.value, const_value(e.slice))
        items = _index_items(e.slice)
        if len(items) == 2 and _full_slice(items[0]) and _is_const(items[1], None):
            return e.value, 0                    # v[:, None]
        if (len(items) == 2 and _is_const(items[0], None) and (_full_slice(items[1]) or _is_const(items[1], Ellipsis))) or \
                (len(items) == 1 and _is_const(items[0], None)):
            return e.value, 1                    # v[None, :] / v[None]
    return None


def d4_grid(ck):
    rule = 'C18.D4.grid'
    F = 'channel_capacity_normalization'
    mod = ck.repo.mod(MI)
    fn = mod.func(F)
    ck.analysed(mod, fn)
    fi = _fi(mod, fn)
    if len(params(fn)) < 3:
        ck.missing(rule, 'signature (mi, n_x, n_y)')
        return
    M, NX, NY = params(fn)[:3]
    # ---- the division: np.divide(num, den[, out=]) / num /= den / num / den with num <- mi
    cands = []
    for s in walk_local(fn):
        if isinstance(s, ast.AugAssign) and isinstance(s.op, ast.Div) and isinstance(s.target, ast.Name):
            cands.append((s, s, s.target, s.value, s.target))
    for c in calls_in(fn, 'np.divide', 'np.true_divide'):
        if len(c.args) >= 2:
            cands.append((fi.stmt(c), c, c.args[0], c.args[1], kwarg(c, 'out')))
    for s in walk_local(fn):
        if isinstance(s, (ast.Assign, ast.Return)) and isinstance(s.value, ast.BinOp) and isinstance(s.value.op, ast.Div):
            cands.append((s, s.value, s.value.left, s.value.right, None))
    divs = [x for x in cands if isinstance(x[2], ast.Name) and _origin(fi, x[2].id, x[0]) == M]
    if len(divs) != 1:
        ck.missing(rule + '.divide', 'the division of (a copy of) `%s` by the log state-count grid (found %d candidates)' % (M, len(divs)))
        return
    st, dnode, num, den, out = divs[0]
    # ---- works on a private copy
    if out is None:
        ck.ok(rule + '.copy', mod, dnode, u(dnode), 'the quotient is a new array; the argument is not written')
    elif not isinstance(out, ast.Name):
        ck.missing(rule + '.copy', 'out= operand of the divide is not a name: %s' % u(out))
    else:
        r = _private_copy_of(fi, out.id, st, M)
        if r is None:
            ck.missing(rule + '.copy', 'definition of the in-place divide target `%s` not recognised' % out.id)
        else:
            ck.check(r == 'copy', rule + '.copy', mod, dnode, F, u(dnode),
                     'the in-place divide runs on a private copy of `%s`' % M,
                     '`%s` may still be the caller\'s array when the in-place divide (out=%s) runs: it must be copied first' % (out.id, out.id))
    # ---- divisor = log(grid)
    tup = {}       # names bound by unpacking a pure call (the meshgrid pair)
    for s in walk_local(fn):
        if isinstance(s, ast.Assign) and len(s.targets) == 1 and isinstance(s.targets[0], (ast.Tuple, ast.List)):
            for t in s.targets[0].elts:
                if isinstance(t, ast.Name):
                    tup[t.id] = s
    scope = {M, NX, NY} | set(tup)
    d = fi.expand(den)
    v = classify(d, ['np.log(_G)'], scope=scope)
    ck.decide(v, rule + '.divide', mod, dnode, F, u(dnode), 'mi / log(min states)',
              'entry (i, j) must be divided by the natural log of the per-pair minimum state count (the MI is in nats)')
    if v[0] != 'match':
        return
    G = v[1]['_G']
    # a conversion of the integer grid to floating point before the log keeps every value
    while isinstance(G, ast.Call) and isinstance(G.func, ast.Attribute) and G.func.attr == 'astype' and len(G.args) == 1 and \
            u(G.args[0]) in ('float', 'np.float64', 'np.double', "'float'", "'float64'", "'f8'") and all(k.arg == 'copy' for k in G.keywords):
        G = G.func.value
    if not isinstance(G, ast.Call):
        ck.missing(rule, 'per-pair state-count grid is not built by a call: %s' % u(G)[:100])
        return
    gn = call_name(G) or ''
    gtxt = u(G) if len(u(G)) < 120 else u(G)[:117] + '...'
    if gn in _MIN_FUNCS or gn in _OUTER_MIN:
        ck.ok(rule + '.min', mod, dnode, gtxt, 'per-pair SMALLER state count (%s)' % gn)
    elif gn in _OTHER_BINARY:
        ck.bad(rule + '.min', mod, dnode, F, gtxt, 'the channel capacity of a pair is the log of the SMALLER of the two state '
               'counts: the grid must be built with np.fmin / np.minimum, not %s' % gn)
        return
    else:
        ck.missing(rule + '.min', 'grid function %s not recognised (np.fmin / np.minimum expected)' % gn)
        return
    # ---- orientation of the grid
    ops = None
    if gn in _OUTER_MIN and len(G.args) == 2:
        ops = [(G.args[0], 0), (G.args[1], 1)]
    elif len(G.args) == 1 and isinstance(G.args[0], ast.Starred):
        m = G.args[0].value
        if isinstance(m, ast.Call):
            ops = [_meshgrid_element(m, 0), _meshgrid_element(m, 1)]
    elif len(G.args) == 2 and not any(isinstance(x, ast.Starred) for x in G.args):
        ops = [_grid_operand(fi, x, st) for x in G.args]
    if not ops or any(o is None for o in ops):
        ck.missing(rule, 'operands of the grid are not recognised as vectors spread along one axis: %s' % gtxt)
        return
    roles = {}
    vec_nodes = {}
    for vec, ax in ops:
        o = _origin_of(fi, vec, st)
        if o is None:
            ck.missing(rule, 'grid operand `%s` is not derived from %s / %s' % (u(vec), NX, NY))
            return
        roles.setdefault(o, set()).add(ax)
        vec_nodes[o] = _passthrough(vec)
    why = ', '.join('%s along axis %s' % (k, '/'.join(str(x) for x in sorted(roles[k]))) for k in sorted(roles))
    ck.check(roles == {NX: {0}, NY: {1}}, rule, mod, dnode, F, gtxt,
             'grid axes are (%s, %s), matching mi[i, j] (%s)' % (NX, NY, why),
             'mi has shape (n_features_a, n_features_b) = (len(%s), len(%s)): entry (i, j) must be divided by '
             'log(min(%s[i], %s[j])). The grid built here has %s: a ValueError for '
             'unequal feature counts and a transposed / wrong divisor otherwise' % (NX, NY, NX, NY, why))
    # ---- validation of n_x against mi.shape[0], n_y against mi.shape[1]
    for P, dim in ((NX, 0), (NY, 1)):
        vn = vec_nodes.get(P)
        if vn is None:
            continue
        sites = fi.rd.defs_at(st, vn.id)
        for site in sites:
            if site == 'PARAM' or not isinstance(site, ast.Assign) or not isinstance(site.value, ast.Call) or \
                    'validate' not in (call_name(site.value) or '').split('.')[-1]:
                if site == 'PARAM':
                    ck.bad(rule + '.validate', mod, fn, F, '%s reaches the grid unvalidated' % P,
                           '%s must be validated/broadcast against %s.shape[%d] before the grid is built' % (P, M, dim))
                else:
                    ck.missing(rule + '.validate', 'definition of `%s` reaching the grid is not a validation call' % vn.id)
                continue
            c = site.value
            ext = _xp(fi, c.args[1], site) if len(c.args) == 2 and not c.keywords else None
            b = match('_W.shape[_K]', ext) if ext is not None else None
            if b is None and ext is not None and match('len(_W)', ext) is not None:
                b = dict(match('len(_W)', ext), _K=ast.Constant(value=0))
            if b is None or not isinstance(b['_W'], ast.Name) or _origin_of(fi, c.args[0], site) != P:
                ck.missing(rule + '.validate', 'validation call not recognised: %s' % u(site)[:120])
                continue
            same = _origin(fi, b['_W'].id, site) == M
            if not same:
                ck.missing(rule + '.validate', 'extent in %s is not taken from `%s`' % (u(site)[:100], M))
                continue
            ck.check(const_value(b['_K']) in (dim, dim - 2), rule + '.validate', mod, site, F, u(site),
                     '%s validated against %s.shape[%d]' % (P, M, dim),
                     '%s must be validated/broadcast against %s.shape[%d] (one state count per feature of that side)' % (P, M, dim))


# ---------------------------------------------------------------------------
# D6 joint_counts / mi_matrix

def _bindings(s):
    """[(name, value)] bound by the assignment statement `s`: `x = e`,
    `x = y = e`, and element-wise the parallel form `x, y = e1, e2` (every
    right-hand side is evaluated before any name is bound: origins of the
    operands are to be taken at `s`)."""
    out = []
    if isinstance(s, ast.AnnAssign) and isinstance(s.target, ast.Name) and s.value is not None:
        out.append((s.target.id, s.value))
    if isinstance(s, ast.Assign):
        for t in s.targets:
            if isinstance(t, ast.Name):
                out.append((t.id, s.value))
            elif isinstance(t, (ast.Tuple, ast.List)) and isinstance(s.value, (ast.Tuple, ast.List)) and \
                    len(t.elts) == len(s.value.elts) and \
                    not any(isinstance(x, ast.Starred) for x in list(t.elts) + list(s.value.elts)):
                out += [(te.id, ve) for te, ve in zip(t.elts, s.value.elts) if isinstance(te, ast.Name)]
    return out


def _zip_source(fi, name, at):
    """`name` is bound by `for ... in [enumerate(]zip(A, B, ...)[)]`: the
    expression whose elements it takes."""
    defs = fi.rd.defs_at(at, name)
    if len(defs) != 1:
        return None
    site = next(iter(defs))
    if not isinstance(site, ast.For):
        return None
    tgt, it = site.target, site.iter
    if isinstance(it, ast.Call) and call_name(it) == 'enumerate' and len(it.args) == 1 and \
            isinstance(tgt, (ast.Tuple, ast.List)) and len(tgt.elts) == 2:
        tgt, it = tgt.elts[1], it.args[0]
    if isinstance(tgt, ast.Name):
        return it if tgt.id == name else None
    if isinstance(it, ast.Call) and call_name(it) == 'zip' and isinstance(tgt, (ast.Tuple, ast.List)) and \
            len(tgt.elts) == len(it.args) and not any(isinstance(x, ast.Starred) for x in it.args):
        for t, src in zip(tgt.elts, it.args):
            if isinstance(t, ast.Name) and t.id == name:
                return src
    return None


def _itemsize_owner(fi, e, at):
    for f in ('_A.dtype.itemsize', '_A.itemsize'):
        b = match(f, e)
        if b is not None and isinstance(b['_A'], ast.Name):
            return _origin(fi, b['_A'].id, at)
    return None


def d6_joint_counts(ck, table_verdict=None):
    rule = 'C18.D6.joint-counts'
    F = 'joint_counts'
    mod = ck.repo.mod(MI)
    fn = mod.func(F)
    ck.analysed(mod, fn)
    fi = _fi(mod, fn)
    if len(params(fn)) < 4:
        ck.missing(rule + '.args', 'signature (X, Y, n_x, n_y)')
        return
    X, Y, NX, NY = params(fn)[:4]
    kc = [c for c in calls_in(fn) if (call_name(c) or '').endswith('matrix_bincount2d')]
    n = 0
    defaults_seen = {NX: 0, NY: 0}
    reported = set()
    xy_calls = []
    all_ok = True
    for c in kc:
        n += 1
        st = fi.stmt(c)
        if len(c.args) != 4 or c.keywords or any(isinstance(x, ast.Starred) for x in c.args):
            ck.missing(rule + '.args', 'kernel call with four positional arguments: %s' % u(c))
            all_ok = False
            continue
        arrs = [_origin_of(fi, x, st) for x in c.args[:2]]
        cnts = [_origin_of(fi, x, st) if not isinstance(x, ast.Name) or x.id not in (NX, NY) else x.id for x in c.args[2:]]
        if None in arrs or None in cnts:
            ck.missing(rule + '.args', 'origin of the kernel arguments in %s' % u(c))
            all_ok = False
            continue
        sides = list(zip(arrs, cnts))
        is_self = sides == [(X, NX), (X, NX)]
        ck.check(sides == [(X, NX), (Y, NY)] or is_self, rule + '.args', mod, c, F,
                 '%s  [arguments hold %s]' % (u(c), ', '.join(arrs + cnts)),
                 'kernel called as (first, second, states of first, states of second)',
                 'matrix_bincount2d(a, b, n_a, n_b) must receive (X, Y, n_x, n_y) (or (X, X, n_x, n_x) '
                 'for self counts): swapped arrays or state counts put counts in the transposed cell / '
                 'check ids against the wrong range')
        if not (sides == [(X, NX), (Y, NY)] or is_self):
            all_ok = False
            continue
        if is_self:
            known = any(isinstance(a, Cmp) and a.op is ast.Is and u(a.lhs) == Y and _is_const(a.rhs, None)
                        for a in _atoms(fi, st, stop=(X, Y)))
            ck.check(known, rule + '.self', mod, c, F, u(c),
                     'self counts only when %s is None' % Y, 'self joint counts must be confined to %s is None' % Y)
        else:
            xy_calls.append((c, st))
        # defaults of the state counts that reach this call
        for k in (0, 1):
            cn = c.args[2 + k]
            if not isinstance(cn, ast.Name):
                continue
            for site in fi.rd.defs_at(st, cn.id):
                if site in ('PARAM', 'UNBOUND') or (id(site), arrs[k]) in reported:
                    continue
                reported.add((id(site), arrs[k]))
                val = fi.def_value(site, cn.id) if isinstance(site, (ast.Assign, ast.AnnAssign)) else None
                if val is None:
                    ck.missing(rule + '.defaults', 'definition of %s at %s' % (cn.id, mod.loc(site)))
                    continue
                defaults_seen[cnts[k]] += 1
                vv = classify(fi.expand(val, stop=(X, Y)), ['_A.max() + 1', '1 + _A.max()', 'int(_A.max()) + 1', '1 + int(_A.max())', 'int(_A.max() + 1)', '_A.max().item() + 1'],
                              scope={X, Y})
                if vv[0] == 'match':
                    src = _origin_of(fi, vv[1]['_A'], site)
                    if src is None:
                        vv = ('far', 0, None)
                    elif src != arrs[k]:
                        vv = ('near', 1, '%s.max() + 1' % arrs[k])
                    else:
                        guarded = any(isinstance(a, Cmp) and a.op is ast.Is and u(a.lhs) == cn.id and _is_const(a.rhs, None)
                                      for a in _atoms(fi, site, stop=(X, Y)))
                        if not guarded:
                            ck.bad(rule + '.defaults', mod, site, F, u(site),
                                   'the default state count overrides a caller-supplied %s: it must only be computed when %s is None' % (cn.id, cn.id))
                            continue
                ck.decide(vv, rule + '.defaults', mod, site, F, u(site), 'default state count = max id + 1 of its own array',
                          'default %s must be %s.max() + 1 when %s is None' % (cn.id, arrs[k], cn.id))
    ck.floor(rule + '.args', n, 2, 'kernel call sites')
    for nm in (NX, NY):
        if n >= 2 and all_ok and defaults_seen[nm] == 0:
            ck.bad(rule + '.defaults', mod, fn, F, nm,
                   'no default for %s reaches the kernel: it must be <its array>.max() + 1 when %s is None' % (nm, nm))
    # ---- dtype harmonisation: a cast to the other side's dtype must be widening
    casts = []
    for s in walk_local(fn):
        for tname, val in _bindings(s):
            if isinstance(val, ast.Call) and isinstance(val.func, ast.Attribute) and val.func.attr == 'astype' and val.args:
                src = _origin_of(fi, val.func.value, s)
                if src in (X, Y):
                    casts.append((s, src, tname, val))
    if not casts:
        ck.missing(rule + '.uptype', 'dtype harmonisation (`<array>.astype(<other>.dtype)`) in joint_counts')
    cast_sides = set()
    unrecognised = False
    for s, src, tname, cval in casts:
        other = Y if src == X else X
        dt, dat = fi.expand(cval.args[0], stop=(X, Y)), s
        while isinstance(dt, ast.Name):
            # a named dtype holds the value it had where it was defined: read its definition there
            ds = fi.rd.defs_at(dat, dt.id)
            site = next(iter(ds)) if len(ds) == 1 else None
            val = fi.def_value(site, dt.id) if isinstance(site, (ast.Assign, ast.AnnAssign)) else None
            if val is None:
                break
            dt, dat = fi.expand(val, stop=(X, Y)), site
        b = match('_O.dtype', dt) if dat is s else None
        common = None
        for f in ('np.promote_types(_A.dtype, _B.dtype)', 'np.result_type(_A, _B)', 'np.result_type(_A.dtype, _B.dtype)'):
            common = common or match(f, dt)
        if common is not None and {_origin_of(fi, common['_A'], dat), _origin_of(fi, common['_B'], dat)} == {X, Y}:
            cast_sides.add(src)
            ck.ok(rule + '.uptype', mod, s, u(s), 'cast to the common (promoted) type of both arrays')
            continue
        if b is None or _origin_of(fi, b['_O'], s) is None:
            if table_verdict == 'ok':
                # e.g. a common type that is rebound on one path (promote_types, then a fallback for uint64 + signed)
                cast_sides.add(src)
                ck.ok(rule + '.uptype', mod, s, u(s), 'target type decided by the element-type truth table (%s.ids-preserved)' % (rule + '.uptype'))
                continue
            ck.missing(rule + '.uptype', 'target dtype of the cast not recognised: %s' % u(s))
            unrecognised = True
            continue
        if _origin_of(fi, b['_O'], s) == src:
            continue                                   # a cast to its own dtype changes nothing
        cast_sides.add(src)
        verdict, opaque, seen = None, False, []
        for a in _atoms(fi, s, stop=(X, Y)):
            if isinstance(a, Cmp):
                less = a.as_less()
                if less is None:
                    continue
                small, strict, big = less
                so, bo = _itemsize_owner(fi, small, s), _itemsize_owner(fi, big, s)
                if {so, bo} != {X, Y}:
                    continue
                seen.append(repr(a))
                if so == src and bo == other:
                    verdict = verdict or 'widening'
                else:
                    verdict = 'narrowing'
            elif 'dtype' in u(a[1]) or 'can_cast' in u(a[1]):
                opaque = True
        con = '%s under %s' % (u(s), ' and '.join(seen) or 'no itemsize test')
        if verdict == 'widening':
            ck.ok(rule + '.uptype', mod, s, con, 'the array with the smaller itemsize is cast to the wider dtype')
        elif verdict is None and opaque:
            ck.missing(rule + '.uptype', 'guard of the cast not recognised: %s' % con)
            unrecognised = True
        else:
            ck.bad(rule + '.uptype', mod, s, F, con,
                   'when dtypes differ the NARROWER array must be cast up to the wider dtype; here %s is cast to the dtype of '
                   '%s %s: casting the wider one down wraps state ids that do not fit (counts land in another cell)' % (
                       src, other, 'although %s' % ' and '.join(seen) if seen else 'without a test that its itemsize is the smaller one'))
        # the cast result is what the kernel receives
        k = 0 if src == X else 1
        for c, st in xy_calls:
            a = c.args[k]
            used = isinstance(a, ast.Name) and a.id == tname and s in fi.rd.defs_at(st, a.id)
            ck.check(used, rule + '.uptype', mod, c, F, '%s after %s' % (u(c), u(s)), 'the up-typed array is passed to the kernel',
                     'the result of `%s` does not reach the kernel call: the arrays keep different dtypes' % u(s))
    if casts and cast_sides and cast_sides != {X, Y} and not unrecognised:
        ck.bad(rule + '.uptype', mod, casts[0][0], F, 'casts of %s only' % ', '.join(sorted(cast_sides)),
               'only one of the two arrays is ever cast: when the other one is the narrower, the dtypes stay different '
               '(or the wider array is cast down)')
    # ---- mi_matrix: pooled counts
    rule_p = rule + '.pooled'
    G = 'mi_matrix'
    fm = mod.func(G)
    ck.analysed(mod, fm)
    fim = _fi(mod, fm)
    if len(params(fm)) < 4:
        ck.missing(rule_p, 'signature (Xs, Ys, n_x, n_y)')
        return
    XS, YS, MX, MY = params(fm)[:4]
    jcalls = [c for c in calls_in(fm) if (call_name(c) or '').split('.')[-1] == 'joint_counts']
    if len(jcalls) != 1 or len(jcalls[0].args) != 4 or jcalls[0].keywords:
        ck.missing(rule_p, 'one call joint_counts(X, Y, <states>, <states>) in mi_matrix')
        return
    jc_call = jcalls[0]
    jst = fim.stmt(jc_call)
    srcs = [_zip_source(fim, a.id, jst) if isinstance(a, ast.Name) else None for a in jc_call.args[:2]]
    if any(x is None for x in srcs):
        ck.missing(rule_p, 'trajectory arguments of %s are not loop variables over zip(%s, %s)' % (u(jc_call), XS, YS))
    else:
        ck.check([u(x) for x in srcs] == [XS, YS], rule_p, mod, jc_call, G, '%s with (X, Y) from (%s)' % (u(jc_call), ', '.join(u(x) for x in srcs)),
                 'each trajectory pair is counted as (first, second)', 'joint_counts must receive the trajectory of %s first and of %s second' % (XS, YS))
    for a, p in zip(jc_call.args[2:], (MX, MY)):
        vv = classify(fim.expand(a, stop=(MX, MY)), ['%s.max()' % p, 'int(%s.max())' % p], scope={MX, MY})
        ck.decide(vv, rule_p, mod, jc_call, G, '%s: %s' % (u(jc_call), u(a)), 'every trajectory counted with the same (max) state count of its side',
                  'the state-count argument must be np.max(%s): all trajectories must be counted into tables of one shape, with the '
                  'state count of the matching side' % p)
    mic = [c for c in calls_in(fm) if (call_name(c) or '').split('.')[-1] == 'mutual_information']
    if len(mic) != 1 or len(mic[0].args) != 1 or not isinstance(mic[0].args[0], ast.Name):
        ck.missing(rule_p, 'one call mutual_information(<pooled counts>) in mi_matrix')
        return
    mst = fim.stmt(mic[0])
    POOL = mic[0].args[0].id
    ck.check(not fim.cfg.reachable(mst, mst) and not fim.cfg.reachable(mst, jst), rule_p, mod, mic[0], G, u(mic[0]),
             'MI computed once, after all trajectories were counted',
             'mutual_information must be computed once from the pooled counts, after the counting loop')
    def _unwidened(e):
        """(table expression, element type it is converted to or None)"""
        if isinstance(e, ast.Call) and isinstance(e.func, ast.Attribute) and e.func.attr == 'astype' and len(e.args) == 1 and \
                all(k.arg == 'copy' for k in e.keywords):
            return e.func.value, e.args[0]
        if isinstance(e, ast.Call) and call_name(e) in ('np.asarray', 'np.array') and len(e.args) == 1 and kwarg(e, 'dtype') is not None and \
                all(k.arg in ('dtype', 'copy') for k in e.keywords):
            return e.args[0], kwarg(e, 'dtype')
        return e, None
    is_count = lambda e, at: (lambda t: isinstance(t, ast.Name) and fim.resolve(t) is jc_call or t is jc_call)(_unwidened(e)[0])
    adds, plain, other = [], [], []
    for site in fim.rd.defs_at(mst, POOL):
        if site in ('PARAM', 'UNBOUND'):
            other.append(site)
        elif isinstance(site, ast.AugAssign):
            (adds if isinstance(site.op, ast.Add) and is_count(site.value, site) else other).append(site)
        elif isinstance(site, ast.Assign):
            val = fim.def_value(site, POOL)
            if val is not None and is_count(val, site):
                plain.append(site)
            elif val is not None and (_is_const(val, None) or (isinstance(val, ast.Call) and call_name(val) in ('np.zeros', 'np.zeros_like'))):
                pass                      # neutral start of the running total
            elif isinstance(val, ast.BinOp) and isinstance(val.op, ast.Add) and \
                    {True} == {isinstance(x, ast.Name) and x.id == POOL or is_count(x, site) for x in (val.left, val.right)} and \
                    any(isinstance(x, ast.Name) and x.id == POOL for x in (val.left, val.right)):
                adds.append(site)
            else:
                other.append(site)
        else:
            other.append(site)
    if adds and not other:
        ck.ok(rule_p, mod, adds[0], u(adds[0]), 'counts pooled by addition before the MI is computed')
        _pooled_capacity(ck, mod, fm, fim, G, POOL, plain, adds, _unwidened)
    elif other:
        ck.missing(rule_p, 'a definition of the pooled counts `%s` is not recognised (%s)' % (
            POOL, '; '.join(u(s)[:60] if not isinstance(s, str) else s for s in other)))
    else:
        ck.bad(rule_p, mod, plain[0] if plain else mic[0], G, '; '.join(u(s) for s in plain) or POOL,
               'the counts of the trajectories are never added: `%s` is only ever (re)bound to the counts of one trajectory, '
               'so the MI is computed from the last trajectory alone instead of the pooled counts' % POOL)
    cc = [c for c in calls_in(fm) if (call_name(c) or '').split('.')[-1] == 'channel_capacity_normalization']
    if len(cc) != 1 or len(cc[0].args) != 3 or cc[0].keywords:
        ck.missing(rule_p, 'one call channel_capacity_normalization(mi, n_x, n_y) in mi_matrix')
        return
    cst = fim.stmt(cc[0])
    a0 = cc[0].args[0]
    from_mi = isinstance(a0, ast.Name) and fim.resolve(a0) is mic[0]
    got = [u(x) for x in cc[0].args[1:]]
    if not from_mi:
        ck.missing(rule_p, 'first argument of %s is not the result of mutual_information' % u(cc[0]))
    else:
        stable = all(fim.rd.defs_at(cst, p) == {'PARAM'} for p in (MX, MY))
        ck.check(got == [MX, MY] and stable, rule_p, mod, cc[0], G, u(cc[0]), 'normalised with (mi, n_x, n_y)',
                 'channel_capacity_normalization(mi, %s, %s) expected: the state counts of the first side go with axis 0 of mi' % (MX, MY))


# ---------------------------------------------------------------------------
# D7 entropy

def _unwrap_where(idx):
    """np.where(m) / np.nonzero(m) / m.nonzero() -> m."""
    if isinstance(idx, ast.Call):
        cn = call_name(idx) or ''
        if cn in ('np.where', 'np.nonzero', 'numpy.where', 'numpy.nonzero') and len(idx.args) == 1 and not idx.keywords:
            return idx.args[0]
        if isinstance(idx.func, ast.Attribute) and idx.func.attr == 'nonzero' and not idx.args:
            return idx.func.value
    return idx


def d7_entropy(ck):
    rule = 'C18.D7.entropy'
    mod = ck.repo.mod(EN)
    F = 'kl_divergence'
    fn = mod.func(F)
    ck.analysed(mod, fn)
    fi = _fi(mod, fn)
    if len(params(fn)) < 2:
        ck.missing(rule, 'signature (P, Q) of kl_divergence')
    else:
        P, Q = params(fn)[:2]
        forms = ['%s * np.log(%s / %s)' % (P, P, Q), 'np.log(%s / %s) * %s' % (P, Q, P)]
        # the term array: the one whose cells are reset to 0 / that is defined as p log(p/q)
        zero = [(s, t) for s, t in subscript_stores(fn) if isinstance(s, ast.Assign) and isinstance(t.value, ast.Name)
                and const_value(fi.expand(s.value)) == 0 and not isinstance(const_value(fi.expand(s.value)), bool)]
        terms = [s for s in walk_local(fn) if isinstance(s, ast.Assign) and len(s.targets) == 1 and isinstance(s.targets[0], ast.Name)
                 and classify(fi.expand(s.value, stop=(P, Q)), forms)[0] == 'match']
        names = {t.value.id for s, t in zero} | {s.targets[0].id for s in terms}
        if len(names) != 1:
            ck.missing(rule, 'the array of p log(p/q) terms of kl_divergence (candidates: %s)' % (sorted(names) or 'none'))
        else:
            L = next(iter(names))
            ldefs = [s for s in walk_local(fn) if isinstance(s, ast.Assign) and any(isinstance(t, ast.Name) and t.id == L for t in s.targets)]
            if len(ldefs) != 1:
                ck.missing(rule, 'one definition of the term array `%s`' % L)
            else:
                v = classify(fi.expand(ldefs[0].value, stop=(P, Q)), forms, scope={P, Q})
                ck.decide(v, rule, mod, ldefs[0], F, u(ldefs[0]), 'p log(p/q)', 'relative entropy term must be %s * np.log(%s / %s)' % (P, P, Q))
            mine = [(s, t) for s, t in zero if t.value.id == L]
            if not mine:
                masked = [c for c in calls_in(fn) if (kwarg(c, 'where') is not None or (call_name(c) == 'np.where' and len(c.args) == 3)
                                                      or call_name(c) in ('np.nan_to_num', 'np.nansum', 'scipy.special.xlogy', 'scipy.special.rel_entr'))
                          and ({L, P, Q} & {x.id for x in ast.walk(c) if isinstance(x, ast.Name)})]
                if masked:
                    ck.missing(rule, 'treatment of the undefined 0 log 0 cells of `%s` not recognised' % L)
                else:
                    ck.bad(rule, mod, ldefs[0] if ldefs else fn, F, 'nan->0', 'undefined 0 log 0 cells must be set to zero: '
                           'no store `%s[isnan(%s)] = 0` found, the divergence is NaN whenever P has a zero' % (L, L))
            for s, t in mine:
                m = _unwrap_where(canon(fi.expand(t.slice)))
                v = classify(m, ['np.isnan(%s)' % L, '%s != %s' % (L, L)], scope={L})
                ck.decide(v, rule, mod, s, F, '%s[%s] = 0' % (L, _cx(m)), '0 log 0 = 0: exactly the NaN cells are zeroed',
                          'exactly the undefined (NaN) 0 log 0 cells must be set to zero; a wider mask also drops the +inf of '
                          'cells with P > 0 and Q == 0 (the divergence must be infinite there), a narrower one leaves NaN')
                sums = [c for c in calls_in(fn) if isinstance(c.func, ast.Attribute) and c.func.attr == 'sum'
                        and isinstance(c.func.value, ast.Name) and c.func.value.id == L]
                if not sums:
                    ck.missing(rule, 'summation of the term array `%s`' % L)
                else:
                    ck.check(all(fi.cfg.dominates(s, fi.stmt(c)) for c in sums), rule, mod, s, F, '%s before %s' % (u(s)[:80], u(sums[0])),
                             'cells are zeroed before the terms are summed', 'the undefined cells must be zeroed BEFORE the terms are summed')
    F = 'shannon_entropy'
    fs = mod.func(F)
    ck.analysed(mod, fs)
    fis = _fi(mod, fs)
    rstm = [r for r in returns_of(fs) if r.value is not None]
    rets = [r.value for r in rstm]
    if len(rets) != 1 or not params(fs):
        ck.missing(rule, 'shannon_entropy returns one value')
        return
    p = params(fs)[0]
    val = _xp(fis, rets[0], rstm[0], stop=(p,))
    pats = []
    for mask in ('0 < %s' % p, '%s != 0' % p):
        pats += ['-(%s * np.log(%s, where=%s, out=_O)).sum()' % (p, p, mask), '-(np.log(%s, where=%s, out=_O) * %s).sum()' % (p, mask, p),
                 '-1 * (%s * np.log(%s, where=%s, out=_O)).sum()' % (p, p, mask), '(-%s * np.log(%s, where=%s, out=_O)).sum()' % (p, p, mask)]
    v = classify(val, pats, scope={p})
    ck.decide(v, rule, mod, rets[0], F, _cx(val)[:160], '-sum p log p with log p taken where p > 0',
              'entropy must be -sum(p * log p) with the log evaluated only where p > 0 (0 log 0 = 0)')


# ---------------------------------------------------------------------------
# Rules added for the findings of the fourth hunt (notes/findings/info)

def _fold_int(node):
    """Value of an integer expression built from literals (2**32, 1 << 32,
    2**32 - 1, ...); None for anything else.  Constant folding only."""
    if isinstance(node, ast.Constant):
        return node.value if type(node.value) is int else None
    if isinstance(node, ast.UnaryOp) and isinstance(node.op, (ast.USub, ast.UAdd)):
        v = _fold_int(node.operand)
        return None if v is None else (-v if isinstance(node.op, ast.USub) else v)
    if isinstance(node, ast.BinOp):
        a, b = _fold_int(node.left), _fold_int(node.right)
        if a is None or b is None:
            return None
        if isinstance(node.op, ast.Add):
            return a + b
        if isinstance(node.op, ast.Sub):
            return a - b
        if isinstance(node.op, ast.Mult):
            return a * b
        if isinstance(node.op, ast.Pow) and 0 <= b <= 128:
            return a ** b
        if isinstance(node.op, ast.LShift) and 0 <= b <= 128:
            return a << b
    return None


_C_ELEM = {'np.uint8_t': (8, False), 'np.uint16_t': (16, False), 'np.uint32_t': (32, False), 'np.uint64_t': (64, False),
           'np.int8_t': (8, True), 'np.int16_t': (16, True), 'np.int32_t': (32, True), 'np.int64_t': (64, True)}
_NP_ELEM = {k.replace('_t', ''): v for k, v in _C_ELEM.items()}
_NP_ELEM.update({k.replace('np.', 'numpy.'): v for k, v in list(_NP_ELEM.items())})
_SSIZE_MAX = 2 ** 63 - 1            # an extent (Py_ssize_t) never exceeds this


def _cell_capacity(fn, fi, JC, at):
    """Largest count one cell of the returned table can hold: from the
    declared buffer element type and the dtype= of its allocation (they must
    agree).  None when neither is readable."""
    seen = set()
    t = getattr(fn, 'cy_locals', {}).get(JC)
    if t is not None and getattr(t, 'elem', None) in _C_ELEM:
        seen.add(_C_ELEM[t.elem])
    elif t is not None and getattr(t, 'elem', None) is not None:
        return None
    for site in fi.rd.defs_at(at, JC):
        val = fi.def_value(site, JC) if isinstance(site, (ast.Assign, ast.AnnAssign)) else None
        if val is None:
            continue                  # the bare cdef declaration
        val = fi.expand(val)
        if not (isinstance(val, ast.Call) and call_name(val) in _ALLOCS):
            return None
        d = kwarg(val, 'dtype')
        if d is None:
            return None               # float64 table: not a count table the rule understands
        if u(d) not in _NP_ELEM:
            return None
        seen.add(_NP_ELEM[u(d)])
    if len(seen) != 1:
        return None
    bits, signed = next(iter(seen))
    return 2 ** (bits - 1) - 1 if signed else 2 ** bits - 1


def _capacity(ck, mod, fn, fi, inc, A, B, JC):
    """Every trip of the frame loop adds one to a cell, so a cell can reach
    the number of frames (all frames in one state pair).  The table is exact
    only if that number fits the cell type: either the type holds every
    possible extent, or a dominating guard bounds the FRAME extent (axis 0 of
    the feature arrays - the axis the matched cell `a[t, x]` is indexed by
    with the frame index) by a constant within the capacity."""
    rule = 'C18.D1.capacity'
    F = mod.qualname(fn)
    cap = _cell_capacity(fn, fi, JC, inc)
    if cap is None:
        ck.missing(rule, 'element type of the count table `%s`' % JC)
        return
    if cap >= _SSIZE_MAX:
        ck.ok(rule, mod, inc, '%s cells hold %d' % (JC, cap), 'the cell type holds every possible number of frames')
        return
    guards = []
    for a in _atoms(fi, inc):
        less = a.as_less() if isinstance(a, Cmp) else None
        if less is None:
            continue
        small, strict, big = less
        k = _fold_int(big)
        if k is None:
            continue
        b = match('_X.shape[_K]', small)
        if b is None and match('len(_X)', small) is not None:
            b = dict(match('len(_X)', small), _K=ast.Constant(value=0))
        if b is None or not isinstance(b['_X'], ast.Name) or type(const_value(b['_K'])) is not int:
            continue
        src = _origin(fi, b['_X'].id, inc)
        if src not in (A, B):
            continue
        guards.append((const_value(b['_K']), src, k - 1 if strict else k, a))
    frame = [g for g in guards if g[0] in (0, -2)]
    other = [g for g in guards if g[0] not in (0, -2)]
    good = [g for g in frame if g[2] <= cap]
    if good:
        ck.ok(rule, mod, inc, repr(good[0][3]), 'the number of frames is bounded by what one cell of the count table can hold (%d)' % cap)
    elif frame:
        ck.bad(rule, mod, inc, F, 'frame-count limit of the count table',
               'the guard %r admits %d frames but one cell of `%s` holds at most %d: the count of a state pair wraps' % (
                   frame[0][3], frame[0][2], JC, cap))
    elif other:
        g = other[0]
        ck.bad(rule, mod, inc, F, 'frame-count limit of the count table is tested on another axis',
               'one cell of `%s` holds at most %d and every frame adds one to a cell, so the number of FRAMES (%s.shape[0], the '
               'axis indexed by the frame index) must be bounded; the guard %r bounds axis %d (the features) instead: a '
               'trajectory of more than %d frames is accepted and its counts wrap modulo %d' % (
                   JC, cap, A, g[3], g[0], cap, cap + 1))
    else:
        ck.bad(rule, mod, inc, F, 'no frame-count limit for the count table',
               'one cell of `%s` holds at most %d and every frame adds one to a cell, but no dominating guard bounds '
               '%s.shape[0]: the counts of a longer trajectory wrap modulo %d' % (JC, cap, A, cap + 1))


_WIDE_TYPES = {'np.uint64', 'np.int64', 'np.intp', 'np.uintp', 'np.int_', 'np.uint', 'int', 'float', 'np.float64', 'np.double',
               "'uint64'", "'int64'", "'int'", "'float'", "'float64'", "'u8'", "'i8'", "'f8'"}


def _pooled_capacity(ck, mod, fm, fim, G, POOL, plain, adds, unwidened):
    """One trajectory adds at most its number of frames to a cell, which the
    kernel bounds by the capacity of its cell type; the POOLED table adds up
    an unbounded number of trajectories, so its cells must be wider than the
    kernel's: the running total has to start from a 64-bit (or float64)
    conversion of the first table - `jc = jc_i; jc += jc_i` keeps the
    kernel's 32-bit cells and wraps silently."""
    rule = 'C18.D6.joint-counts.pooled.capacity'
    kmod = ck.repo.mod(LI)
    kfn = kmod.func('matrix_bincount2d')
    kfi = _fi(kmod, kfn)
    rets = [r for r in returns_of(kfn) if isinstance(r.value, ast.Name)]
    cap = _cell_capacity(kfn, kfi, rets[0].value.id, rets[0]) if len(rets) == 1 else None
    if cap is None:
        ck.missing(rule, 'cell type of the table matrix_bincount2d returns')
        return
    if cap >= _SSIZE_MAX:
        ck.ok(rule, mod, adds[0], u(adds[0]), 'the kernel\'s cells are 64 bits wide')
        return
    if not plain:
        ck.missing(rule, 'start of the running total `%s`' % POOL)
        return
    narrow = []
    for site in plain:
        _t, d = unwidened(fim.def_value(site, POOL))
        if d is None or u(d) not in _WIDE_TYPES:
            narrow.append(site)
    inplace = all(isinstance(a, ast.AugAssign) for a in adds)
    if not narrow and inplace:
        ck.ok(rule, mod, plain[0], u(plain[0]), 'the running total is a 64-bit copy of the first table; in-place addition keeps that type')
    elif not narrow:
        ck.missing(rule, 'the running total is widened but rebuilt by `%s`: result type of the sum not decided' % u(adds[0])[:80])
    else:
        ck.bad(rule, mod, narrow[0], G, 'running total of the pooled joint counts keeps the cell type of one trajectory\'s table',
               '`%s` starts the pooled table as the kernel\'s own array (cells hold at most %d) and `%s` adds every further '
               'trajectory into it: the kernel bounds ONE trajectory by that capacity, the sum over trajectories is unbounded, '
               'so a state pair seen in more than %d pooled frames wraps modulo %d without any error and the MI is computed '
               'from wrong counts. Start from a 64-bit copy (`.astype(np.uint64)`)' % (u(narrow[0]), cap, u(adds[0]), cap, cap + 1))


# ---- default state counts are computed in Python integers -------------------

_ID_ARRAYS = {'joint_counts': 2, 'weighted_mi': 1}      # leading parameters that hold state ids of ANY integer dtype


def d6_default_width(ck):
    """`<ids>.max() + 1` is evaluated in the dtype of the id array (a NumPy
    scalar plus a Python int keeps the scalar's type): for an array that uses
    the top value of its dtype (int8 holding 127, uint8 holding 255) the sum
    wraps and the default state count is negative / zero.  The maximum must
    be converted to a Python int (or a 64-bit type) BEFORE one is added."""
    rule = 'C18.D6.defaults.width'
    mod = ck.repo.mod(MI)
    for F, k in _ID_ARRAYS.items():
        fn = mod.func(F)
        ck.analysed(mod, fn)
        fi = _fi(mod, fn)
        ids = params(fn)[:k]
        n = 0
        for node in walk_local(fn):
            if not (isinstance(node, ast.BinOp) and isinstance(node.op, ast.Add)):
                continue
            st = fi.stmt(node)
            if st is None:
                continue
            e = canon(fi.expand(node, stop=tuple(ids)))
            if not isinstance(e, ast.BinOp):
                continue
            for x, one in ((e.left, e.right), (e.right, e.left)):
                if type(const_value(one)) is not int:
                    continue
                wide = None
                for f in ('int(_A.max())', '_A.max().item()', 'operator.index(_A.max())', 'np.int64(_A.max())',
                          '_A.astype(np.int64).max()', '_A.astype(int).max()', '_A.max().astype(np.int64)', '_A.max().astype(int)'):
                    wide = wide or match(f, x)
                narrow = match('_A.max()', x)
                b = wide or narrow
                if b is None:
                    continue
                src = _origin_of(fi, b['_A'], st)
                if src not in ids:
                    continue
                n += 1
                if wide is not None:
                    ck.ok(rule, mod, node, _cx(e), 'the largest id is converted to a wide integer before one is added')
                else:
                    ck.bad(rule, mod, node, F, '%s.max() + %d' % (src, const_value(one)),
                           'the default state count `%s` is computed in the dtype of `%s` (NumPy scalar + Python int keeps the '
                           'array\'s type): when the ids use the top value of a narrow type (int8 holding 127, uint8 holding 255) '
                           'the sum wraps to a negative number / zero and valid data are rejected; convert first: int(%s.max()) + %d' % (
                               _cx(e), src, src, const_value(one)))
                break
        if n == 0:
            ck.missing(rule, 'default state count `<ids>.max() + 1` in %s' % F)


# ---- dtype harmonisation keeps every id (or has it rejected) ------------------

_INT_DT = {'int8': (8, True), 'int16': (16, True), 'int32': (32, True), 'int64': (64, True),
           'uint8': (8, False), 'uint16': (16, False), 'uint32': (32, False), 'uint64': (64, False)}
_DT_ALIASES = {'int': 'int64', 'intp': 'int64', 'int_': 'int64', 'long': 'int64', 'uint': 'uint64', 'uintp': 'uint64',
               'float': 'float64', 'float_': 'float64', 'double': 'float64', 'float64': 'float64', 'float32': 'float32',
               'i1': 'int8', 'i2': 'int16', 'i4': 'int32', 'i8': 'int64', 'u1': 'uint8', 'u2': 'uint16', 'u4': 'uint32', 'u8': 'uint64',
               'f8': 'float64', 'f4': 'float32', 'd': 'float64'}
_C_INT_BITS = {'int': 31, 'long': 63, 'short': 15, 'Py_ssize_t': 63, 'ssize_t': 63, 'long long': 63}


def _dt_range(name):
    bits, signed = _INT_DT[name]
    return (-(2 ** (bits - 1)), 2 ** (bits - 1) - 1) if signed else (0, 2 ** bits - 1)


def _dt_promote(a, b):
    """np.promote_types on the integer dtypes (NumPy's documented table)."""
    if a == b:
        return a
    if a not in _INT_DT or b not in _INT_DT:
        return 'float64'
    (ba, sa), (bb, sb) = _INT_DT[a], _INT_DT[b]
    if sa == sb:
        return a if ba >= bb else b
    sbits, ubits = (ba, bb) if sa else (bb, ba)
    if sbits > ubits:
        return 'int%d' % sbits
    return 'int%d' % (2 * ubits) if 2 * ubits <= 64 else 'float64'


def _dt_contains(dst, src):
    if dst not in _INT_DT or src not in _INT_DT:
        return dst == src or (dst == 'float64' and src in _INT_DT and _INT_DT[src][0] <= 32)
    (lo, hi), (slo, shi) = _dt_range(dst), _dt_range(src)
    return lo <= slo and shi <= hi


class _Unsupported(Exception):
    pass


class _Ids:
    """An array that still holds the state ids of parameter `origin`."""

    def __init__(self, origin, dtype, lost=()):
        self.origin, self.dtype, self.lost = origin, dtype, tuple(lost)


class _Dt:
    def __init__(self, name):
        self.name = name


_UNKV = type('Unknown', (), {'__repr__': lambda self: '<unknown>'})()


class _DtypeRun:
    """Abstract execution of a loop-free function body for ONE assignment of
    element types to the id arrays: values are id arrays with their dtype,
    dtype objects, Python constants, or unknown.  A branch on an unknown
    condition forks.  Nothing of the analysed code is executed: the transfer
    functions below are the rule's own table of NumPy's dtype arithmetic."""

    def __init__(self, kernel, n_bits):
        self.kernel, self.n_bits = kernel, n_bits
        self.done = []
        self.paths = 0

    # -- dtype helpers
    def as_dtype(self, v):
        if isinstance(v, _Dt):
            return v.name
        if isinstance(v, _Ids):
            return v.dtype
        if isinstance(v, str):
            v = v.lstrip('<>=|')
            if v in _INT_DT:
                return v
            return _DT_ALIASES.get(v)
        return None

    def cast_ok(self, src, dst):
        if _dt_contains(dst, src):
            return True
        if src in _INT_DT and dst in _INT_DT and self.n_bits is not None:
            # a wrapped id is negative or >= 2**(bits-1): the kernel's two-sided guard rejects it, rightly so
            # when every admissible state count (a C integer of n_bits value bits) is below that
            return _INT_DT[dst][0] >= _INT_DT[src][0] and _INT_DT[dst][0] - 1 >= self.n_bits
        return False

    def cast(self, arr, dst, node):
        if dst is None or arr.dtype is None:
            raise _Unsupported('target type of `%s` not evaluated' % u(node)[:80])
        lost = () if self.cast_ok(arr.dtype, dst) else ((node, arr.dtype, dst),)
        return _Ids(arr.origin, dst, arr.lost + lost)

    # -- expressions
    def ev(self, e, env):
        if isinstance(e, ast.Constant):
            return e.value
        if isinstance(e, ast.Name):
            if e.id in env:
                return env[e.id]
            return {'int': _Dt('int64'), 'float': _Dt('float64')}.get(e.id, _UNKV)
        if isinstance(e, (ast.Tuple, ast.List)):
            return tuple(self.ev(x, env) for x in e.elts)
        if isinstance(e, ast.Attribute):
            d = u(e)
            if d.startswith(('np.', 'numpy.')) and d.split('.', 1)[1] in set(_INT_DT) | set(_DT_ALIASES):
                return _Dt(self.as_dtype(d.split('.', 1)[1]))
            v = self.ev(e.value, env)
            if isinstance(v, _Ids):
                if e.attr == 'dtype':
                    return _Dt(v.dtype) if v.dtype else _UNKV
                if e.attr == 'itemsize' and v.dtype in _INT_DT:
                    return _INT_DT[v.dtype][0] // 8
                if e.attr == 'T':
                    return v
                return _UNKV
            if isinstance(v, _Dt):
                if e.attr == 'itemsize':
                    return _INT_DT[v.name][0] // 8 if v.name in _INT_DT else {'float64': 8, 'float32': 4}.get(v.name, _UNKV)
                if e.attr == 'kind':
                    return ('i' if _INT_DT[v.name][1] else 'u') if v.name in _INT_DT else 'f'
                if e.attr in ('name', 'str'):
                    return v.name if e.attr == 'name' else _UNKV
                if e.attr in ('type', 'newbyteorder'):
                    return v if e.attr == 'type' else _UNKV
            return _UNKV
        if isinstance(e, ast.Subscript):
            v = self.ev(e.value, env)
            if isinstance(v, _Ids) and all(_is_const(i, None) or _is_const(i, Ellipsis) or _full_slice(i) for i in _index_items(e.slice)):
                return v
            return _UNKV
        if isinstance(e, ast.Call):
            return self.call(e, env)
        if isinstance(e, ast.Compare):
            left = self.ev(e.left, env)
            res = True
            for op, right in zip(e.ops, e.comparators):
                r = self.ev(right, env)
                c = self.compare(left, op, r)
                if c is _UNKV:
                    return _UNKV
                if not c:
                    res = False
                    break
                left = r
            return res
        if isinstance(e, ast.BoolOp):
            is_and = isinstance(e.op, ast.And)
            unknown = False
            v = None
            for x in e.values:
                v = self.ev(x, env)
                t = self.truth(v)
                if t is None:
                    unknown = True
                elif t != is_and:
                    return v if not unknown else (False if is_and else True) if is_and != t else _UNKV
            return _UNKV if unknown else v
        if isinstance(e, ast.UnaryOp) and isinstance(e.op, ast.Not):
            t = self.truth(self.ev(e.operand, env))
            return _UNKV if t is None else (not t)
        if isinstance(e, ast.IfExp):
            t = self.truth(self.ev(e.test, env))
            if t is None:
                a, b = self.ev(e.body, env), self.ev(e.orelse, env)
                return a if a is b else _UNKV
            return self.ev(e.body if t else e.orelse, env)
        if isinstance(e, ast.BinOp):
            a, b = self.ev(e.left, env), self.ev(e.right, env)
            if type(a) is int and type(b) is int:
                k = _fold_int(ast.BinOp(left=ast.Constant(value=a), op=e.op, right=ast.Constant(value=b)))
                return _UNKV if k is None else k
            return _UNKV
        for ch in ast.iter_child_nodes(e):          # a kernel call hidden in an expression the table does not know
            if isinstance(ch, ast.expr):
                self.ev(ch, env)
        return _UNKV

    def compare(self, a, op, b):
        if isinstance(op, (ast.Is, ast.IsNot)):
            if a is _UNKV or b is _UNKV:
                return _UNKV
            same = (a is None and b is None) if (a is None or b is None) else _UNKV
            if same is _UNKV:
                return _UNKV
            return same if isinstance(op, ast.Is) else not same
        if a is _UNKV or b is _UNKV:
            return _UNKV
        if isinstance(op, (ast.Eq, ast.NotEq)):
            if isinstance(a, (_Dt, str)) and isinstance(b, (_Dt, str)) and (isinstance(a, _Dt) or isinstance(b, _Dt)):
                da, db = self.as_dtype(a), self.as_dtype(b)
                if da is None or db is None:
                    return _UNKV
                eq = da == db
            elif isinstance(a, (int, float, str)) and isinstance(b, (int, float, str)) and isinstance(a, str) == isinstance(b, str):
                eq = a == b
            elif a is None or b is None:
                eq = a is b
            else:
                return _UNKV
            return eq if isinstance(op, ast.Eq) else not eq
        if isinstance(op, (ast.Lt, ast.LtE, ast.Gt, ast.GtE)):
            if type(a) in (int, float) and type(b) in (int, float):
                return {ast.Lt: a < b, ast.LtE: a <= b, ast.Gt: a > b, ast.GtE: a >= b}[type(op)]
            return _UNKV
        if isinstance(op, (ast.In, ast.NotIn)):
            if isinstance(a, str) and (isinstance(b, str) or (isinstance(b, tuple) and all(isinstance(x, str) for x in b))):
                r = a in b
                return r if isinstance(op, ast.In) else not r
            return _UNKV
        return _UNKV

    def truth(self, v):
        if v is _UNKV or isinstance(v, (_Ids, tuple)):
            return None
        if isinstance(v, _Dt):
            return True
        return bool(v)

    def call(self, e, env):
        cn = call_name(e) or ''
        args = [self.ev(a.value if isinstance(a, ast.Starred) else a, env) for a in e.args]
        kws = {k.arg: self.ev(k.value, env) for k in e.keywords}
        if cn.split('.')[-1] == self.kernel:
            env['$events'].append((e, args))
            return _UNKV
        if isinstance(e.func, ast.Attribute):
            recv = self.ev(e.func.value, env)
            if isinstance(recv, _Ids):
                if e.func.attr == 'astype' and (args or 'dtype' in kws):
                    return self.cast(recv, self.as_dtype(args[0] if args else kws['dtype']), e)
                if e.func.attr == 'copy':
                    return recv
                if e.func.attr == 'view' and (args or kws):
                    raise _Unsupported('reinterpreting view `%s`' % u(e)[:80])
                return _UNKV
            if isinstance(recv, _Dt):
                return _UNKV
        if cn in ('np.promote_types', 'np.result_type', 'numpy.promote_types', 'numpy.result_type') and len(args) == 2 and not kws:
            d = [self.as_dtype(a) for a in args]
            if None in d:
                raise _Unsupported('operands of `%s` not evaluated' % u(e)[:80])
            return _Dt(_dt_promote(*d))
        if cn in ('np.dtype', 'numpy.dtype') and len(args) == 1 and not kws:
            d = self.as_dtype(args[0])
            return _Dt(d) if d else _UNKV
        if cn in ('np.can_cast', 'numpy.can_cast') and len(args) == 2 and kws.get('casting', 'safe') == 'safe':
            d = [self.as_dtype(a) for a in args]
            return _UNKV if None in d else _dt_contains(d[1], d[0])
        if cn in ('np.issubdtype', 'numpy.issubdtype') and len(args) == 2 and not kws:
            d = self.as_dtype(args[0])
            cls = u(e.args[1]).split('.')[-1]
            if d is not None and cls in ('integer', 'signedinteger', 'unsignedinteger', 'floating', 'number', 'inexact'):
                isint = d in _INT_DT
                return {'integer': isint, 'signedinteger': isint and _INT_DT[d][1], 'unsignedinteger': isint and not _INT_DT[d][1],
                        'floating': not isint, 'inexact': not isint, 'number': True}[cls]
            return _UNKV
        if cn in _PASS_FUNCS and args and isinstance(args[0], _Ids):
            if 'dtype' in kws or len(args) > 1:
                return self.cast(args[0], self.as_dtype(kws.get('dtype', args[1] if len(args) > 1 else None)), e)
            return args[0]
        if cn in ('min', 'max') and args and all(type(a) is int for a in args):
            return min(args) if cn == 'min' else max(args)
        return _UNKV

    # -- statements
    def fork(self, env):
        new = dict(env)
        new['$events'] = list(env['$events'])
        return new

    def bind(self, t, v, env):
        if isinstance(t, ast.Name):
            env[t.id] = v
        elif isinstance(t, (ast.Tuple, ast.List)):
            vs = v if isinstance(v, tuple) and len(v) == len(t.elts) else [_UNKV] * len(t.elts)
            for te, ve in zip(t.elts, vs):
                self.bind(te, ve, env)

    def run(self, stmts, env):
        envs = [env]
        for s in stmts:
            nxt = []
            for en in envs:
                nxt += self.step(s, en)
            envs = nxt
            self.paths = max(self.paths, len(envs))
            if len(envs) > 1024:
                raise _Unsupported('more than 1024 paths')
            if not envs:
                break
        return envs

    def step(self, s, env):
        if isinstance(s, ast.Expr):
            self.ev(s.value, env)
            return [env]
        if isinstance(s, ast.Assign):
            v = self.ev(s.value, env)
            for t in s.targets:
                self.bind(t, v, env)
            return [env]
        if isinstance(s, ast.AnnAssign):
            if s.value is not None:
                self.bind(s.target, self.ev(s.value, env), env)
            return [env]
        if isinstance(s, ast.AugAssign):
            self.ev(s.value, env)
            self.bind(s.target, _UNKV, env)
            return [env]
        if isinstance(s, ast.If):
            t = self.truth(self.ev(s.test, env))
            if t is None:
                return self.run(s.body, self.fork(env)) + self.run(s.orelse, self.fork(env))
            return self.run(s.body if t else s.orelse, env)
        if isinstance(s, ast.Return):
            if s.value is not None:
                self.ev(s.value, env)
            self.done.append(env)
            return []
        if isinstance(s, ast.Raise):
            return []
        if isinstance(s, (ast.Assert, ast.Pass, ast.Import, ast.ImportFrom, ast.Global, ast.Nonlocal)):
            return [env]
        raise _Unsupported('%s statement at line %s' % (type(s).__name__, getattr(s, 'lineno', '?')))


def d6_ids_preserved(ck):
    """Truth table over the element types of the two id arrays (the fused
    integer types of the kernel, every ordered pair, and Y=None): the body of
    joint_counts is executed abstractly and at every kernel call (i) both
    arrays must have ONE element type for which the kernel has a
    specialisation and (ii) every cast on the way must have kept every id, or
    turned an id the cast wraps into one the kernel's range guard rejects.  An
    itemsize ordering does not establish that when the signedness differs:
    int8 -> uint8 turns the invalid id -1 into the valid 255, uint8 -> int8
    turns the valid 200 into -56."""
    rule = 'C18.D6.joint-counts.uptype.ids-preserved'
    F = 'joint_counts'
    mod = ck.repo.mod(MI)
    fn = mod.func(F)
    ck.analysed(mod, fn)
    if len(params(fn)) < 4:
        ck.missing(rule, 'signature (X, Y, n_x, n_y)')
        return 'missing'
    X, Y = params(fn)[:2]
    kmod = ck.repo.mod(LI)
    kfn = kmod.func('matrix_bincount2d')
    fused = getattr(kmod.tree, 'cy_fused', {})
    kp = params(kfn)
    types = getattr(kfn, 'cy_argtypes', {})
    elems = []
    if len(kp) >= 4 and kp[0] in types and kp[1] in types and types[kp[0]].base == types[kp[1]].base:
        elems = [t.elem.replace('np.', '').replace('_t', '') for t in fused.get(types[kp[0]].base, []) if getattr(t, 'elem', None)]
    if not elems or any(x not in _INT_DT for x in elems):
        ck.missing(rule, 'fused integer element types of matrix_bincount2d(a, b, ...)')
        return 'missing'
    nb = [_C_INT_BITS.get(types[p].base) if p in types else None for p in kp[2:4]]
    n_bits = None if None in nb else max(nb)
    problems, runs, paths = {}, 0, 0
    try:
        for dx in elems:
            for dy in elems + [None]:
                r = _DtypeRun('matrix_bincount2d', n_bits)
                env = {p: _UNKV for p in params(fn)}
                env.update({X: _Ids(X, dx), Y: _Ids(Y, dy) if dy else None, '$events': []})
                r.done += r.run(fn.body, env)
                runs += 1
                paths += len(r.done)
                for en in r.done:
                    for call, args in en['$events']:
                        if len(args) < 2 or not all(isinstance(a, _Ids) and a.dtype for a in args[:2]):
                            raise _Unsupported('array arguments of `%s` not traced back to %s / %s' % (u(call)[:80], X, Y))
                        a, b = args[:2]
                        wit = '%s %s, %s %s' % (X, dx, Y, dy)
                        if a.dtype != b.dtype:
                            problems.setdefault(('mixed', u(call)), []).append('%s: the kernel receives %s and %s' % (wit, a.dtype, b.dtype))
                        elif a.dtype not in elems:
                            problems.setdefault(('nospec', u(call)), []).append('%s: the kernel receives %s arrays' % (wit, a.dtype))
                        for arr in (a, b):
                            for node, src, dst in arr.lost:
                                problems.setdefault(('wrap', u(node)), []).append('%s: %s -> %s' % (wit, src, dst))
    except _Unsupported as e:
        ck.missing(rule, 'joint_counts is not a loop-free harmonisation the dtype table can follow (%s)' % e)
        return 'missing'
    if not problems:
        ck.ok(rule, mod, fn, '%d element-type pairs, %d paths' % (runs, paths),
              'for every pair of integer element types the kernel receives two arrays of one type and no cast wraps an id '
              'into the admissible range')
        return 'ok'
    parts = []
    for (kind, text), wits in sorted(problems.items()):
        uniq = sorted(set(wits))
        what = {'wrap': 'the cast `%s` does not keep the ids', 'mixed': 'the call `%s` gets two element types',
                'nospec': 'the call `%s` gets a type without kernel specialisation'}[kind] % text[:80]
        parts.append('%s (%d type pairs, e.g. %s)' % (what, len(uniq), '; '.join(uniq[:2])))
    ck.bad(rule, mod, fn, F, 'dtype harmonisation of %s and %s before the kernel call' % (X, Y),
           'enumerating the kernel\'s integer element types for %s and %s: %s. A signed id cast to an unsigned type of less '
           'than 32 bits (or an unsigned id to a signed type that does not contain it) lands in another valid state: the '
           'negative id -1 is counted as 255, the valid id 200 is rejected as -56. An itemsize comparison does not decide '
           'value preservation when the signedness differs' % (X, Y, ' | '.join(parts)))
    return 'bad'


# ---- out= buffers of float-valued ufuncs have a floating dtype ---------------

_FLOAT_UFUNCS = {'np.divide', 'np.true_divide', 'np.log', 'np.log2', 'np.log10', 'np.log1p', 'np.exp', 'np.expm1', 'np.sqrt'}
# what the contract (docstrings + the quantifier of C18) says about the element type of each parameter:
# 'real' = any real dtype (bool, integer or float: "all weight vectors"), 'int' = any integer dtype, 'float' = floating
_PARAM_DTYPES = {
    'weighted_mi': {0: 'int', 1: 'real', 2: 'int'},
    'mutual_information': {0: 'int'},
    'channel_capacity_normalization': {0: 'float', 1: 'int', 2: 'int'},
    'shannon_entropy': {0: 'real'},
    'kl_divergence': {0: 'real', 1: 'real'},
}
_LIKE = {'np.zeros_like', 'np.ones_like', 'np.empty_like', 'np.full_like'}
_FRESH = {'np.zeros', 'np.ones', 'np.empty'}
_KEEP_FUNCS = {'np.array', 'np.asarray', 'np.asanyarray', 'np.ascontiguousarray', 'np.copy', 'np.atleast_1d', 'np.atleast_2d',
               'np.vstack', 'np.hstack', 'np.dstack', 'np.stack', 'np.concatenate', 'np.column_stack', 'np.squeeze', 'np.transpose',
               'np.ravel', 'np.reshape', 'np.abs', 'np.absolute', 'np.negative', 'np.cumsum', 'np.diag', 'np.triu', 'np.tril',
               'np.clip', 'np.sort', 'np.flip', 'np.roll', 'np.tile', 'np.repeat', 'np.broadcast_to', 'np.expand_dims'}
_PROMOTE_FUNCS = {'np.matmul', 'np.dot', 'np.multiply', 'np.add', 'np.subtract', 'np.outer', 'np.kron', 'np.fmin', 'np.fmax',
                  'np.minimum', 'np.maximum', 'np.meshgrid', 'np.inner', 'np.tensordot', 'np.einsum'}
_KEEP_METHODS = {'copy', 'reshape', 'ravel', 'flatten', 'transpose', 'squeeze', 'max', 'min', 'cumsum', 'clip', 'repeat', 'take', 'diagonal'}
_F, _B, _I, _U = 'float', 'bool', 'int', 'unknown'


def _dt_join2(a, b):
    if _F in (a, b):
        return _F
    if _U in (a, b):
        return _U
    pa, pb = isinstance(a, tuple), isinstance(b, tuple)
    if pa and pb:
        return ('arg', a[1] | b[1])
    if pa or pb:
        return a if pa else b
    return _I if _I in (a, b) else _B


def _dt_join(*sets):
    out = sets[0]
    for s in sets[1:]:
        out = frozenset(_dt_join2(a, b) for a in out for b in s)
    return out


def _dt_literal(fi, d, at, seen):
    t = u(d).strip('\'"')
    t = t.split('.', 1)[1] if t.startswith(('np.', 'numpy.')) else t
    if t in ('float', 'float64', 'float32', 'float16', 'double', 'float_', 'longdouble', 'f8', 'f4', 'd', 'single', 'half'):
        return frozenset([_F])
    if t in _INT_DT or t in ('int', 'uint', 'intp', 'uintp', 'int_', 'long', 'i1', 'i2', 'i4', 'i8', 'u1', 'u2', 'u4', 'u8'):
        return frozenset([_I])
    if t in ('bool', 'bool_'):
        return frozenset([_B])
    if isinstance(d, ast.Attribute) and d.attr == 'dtype':
        return _dtype_of(fi, d.value, at, seen)
    return frozenset([_U])


def _dtype_of(fi, e, at, seen=frozenset()):
    """Provenance of the ELEMENT TYPE of an array expression evaluated at
    statement `at`: a set (one member per path / alternative) of 'float',
    'bool', 'int', ('arg', {parameters whose element type it inherits}),
    'unknown'.  Transfer functions are NumPy's documented result types."""
    one = lambda x: frozenset([x])
    F = fi.mod.qualname(fi.fn)
    if isinstance(e, ast.Constant):
        v = e.value
        return one(_B if isinstance(v, bool) else _I if isinstance(v, int) else _F if isinstance(v, float) else _U)
    if isinstance(e, ast.Name):
        out = set()
        for site in fi.rd.defs_at(at, e.id):
            if site == 'UNBOUND':
                continue
            if site == 'PARAM':
                ps = params(fi.fn)
                kind = _PARAM_DTYPES.get(F, {}).get(ps.index(e.id)) if e.id in ps else None
                out.add(_F if kind == 'float' else ('arg', frozenset([e.id])) if kind in ('real', 'int') else _U)
                continue
            key = (id(site), e.id)
            if key in seen:
                continue                  # loop-carried redefinition: contributes nothing new
            if isinstance(site, ast.AugAssign) and isinstance(site.target, ast.Name):
                prev = _dtype_of(fi, ast.Name(id=e.id, ctx=ast.Load()), site, seen | {key})
                out |= one(_F) if isinstance(site.op, ast.Div) else _dt_join(prev or one(_U), _dtype_of(fi, site.value, site, seen | {key}))
                continue
            val = fi.def_value(site, e.id) if isinstance(site, (ast.Assign, ast.AnnAssign)) else None
            out |= _dtype_of(fi, val, site, seen | {key}) if val is not None else one(_U)
        return frozenset(out) if out else one(_U)
    if isinstance(e, ast.Compare) or (isinstance(e, ast.UnaryOp) and isinstance(e.op, ast.Not)):
        return one(_B)
    if isinstance(e, ast.UnaryOp):
        return _dtype_of(fi, e.operand, at, seen)
    if isinstance(e, ast.BinOp):
        if isinstance(e.op, ast.Div):
            return one(_F)
        return _dt_join(_dtype_of(fi, e.left, at, seen), _dtype_of(fi, e.right, at, seen))
    if isinstance(e, ast.BoolOp):
        return _dt_join(*[_dtype_of(fi, x, at, seen) for x in e.values])
    if isinstance(e, ast.IfExp):
        return _dtype_of(fi, e.body, at, seen) | _dtype_of(fi, e.orelse, at, seen)
    if isinstance(e, (ast.List, ast.Tuple)):
        return _dt_join(*[_dtype_of(fi, x, at, seen) for x in e.elts]) if e.elts else one(_F)
    if isinstance(e, (ast.ListComp, ast.GeneratorExp)):
        return _dtype_of(fi, e.elt, at, seen)
    if isinstance(e, ast.Starred):
        return _dtype_of(fi, e.value, at, seen)
    if isinstance(e, ast.Subscript):
        return _dtype_of(fi, e.value, at, seen)
    if isinstance(e, ast.Attribute):
        if e.attr in ('T', 'real', 'flat'):
            return _dtype_of(fi, e.value, at, seen)
        if e.attr in ('shape', 'size', 'ndim', 'itemsize', 'nbytes'):
            return one(_I)
        return one(_U)
    if isinstance(e, ast.Call):
        cn = call_name(e) or ''
        cn = 'np.' + cn[len('numpy.'):] if cn.startswith('numpy.') else cn
        dkw = kwarg(e, 'dtype')
        out = kwarg(e, 'out')
        if out is not None and cn.startswith('np.'):
            return _dtype_of(fi, out, at, seen)          # the value of a ufunc call with out= IS the buffer
        if cn in _LIKE:
            return _dt_literal(fi, dkw, at, seen) if dkw is not None else (_dtype_of(fi, e.args[0], at, seen) if e.args else one(_U))
        if cn in _FRESH:
            d = dkw if dkw is not None else (e.args[1] if len(e.args) > 1 else None)
            return _dt_literal(fi, d, at, seen) if d is not None else one(_F)
        if cn == 'np.full':
            d = dkw if dkw is not None else (e.args[2] if len(e.args) > 2 else None)
            return _dt_literal(fi, d, at, seen) if d is not None else (_dtype_of(fi, e.args[1], at, seen) if len(e.args) > 1 else one(_U))
        if cn in _KEEP_FUNCS and e.args:
            return _dt_literal(fi, dkw, at, seen) if dkw is not None else _dtype_of(fi, e.args[0], at, seen)
        if cn in _PROMOTE_FUNCS and e.args:
            return _dt_join(*[_dtype_of(fi, a, at, seen) for a in e.args if not (isinstance(a, ast.Constant) and isinstance(a.value, str))])
        if cn in _FLOAT_UFUNCS or cn in ('np.linalg.norm', 'np.mean', 'np.std', 'np.var', 'float', 'np.float64', 'np.rad2deg', 'np.deg2rad'):
            return one(_F)
        if cn == 'np.bincount':
            return one(_F) if (kwarg(e, 'weights') is not None or len(e.args) > 1) else one(_I)
        if cn == 'np.where' and len(e.args) == 3:
            return _dt_join(_dtype_of(fi, e.args[1], at, seen), _dtype_of(fi, e.args[2], at, seen))
        if cn in ('int', 'len', 'np.count_nonzero', 'np.argmax', 'np.argmin', 'np.arange', 'range', 'np.argsort', 'np.flatnonzero'):
            return one(_I)
        if cn in ('bool', 'np.isnan', 'np.isinf', 'np.isfinite', 'np.logical_and', 'np.logical_or', 'np.logical_not', 'np.any', 'np.all'):
            return one(_B)
        if isinstance(e.func, ast.Attribute) and not (isinstance(e.func.value, ast.Name) and e.func.value.id in _MODULE_ALIASES):
            m = e.func.attr
            if m == 'astype' and (e.args or dkw is not None):
                return _dt_literal(fi, e.args[0] if e.args else dkw, at, seen)
            if m in _KEEP_METHODS:
                return _dtype_of(fi, e.func.value, at, seen)
            if m in ('sum', 'prod', 'dot'):
                base = _dtype_of(fi, e.func.value, at, seen)
                if m == 'dot' and e.args:
                    return _dt_join(base, _dtype_of(fi, e.args[0], at, seen))
                return _dt_literal(fi, dkw, at, seen) if dkw is not None else frozenset(_I if x == _B else x for x in base)
            if m in ('mean', 'std', 'var'):
                return one(_F)
            if m in ('any', 'all'):
                return one(_B)
        return one(_U)
    return one(_U)


def d5_out_dtype(ck):
    """A ufunc whose result is floating (true division, log, exp, sqrt)
    cannot write into an integer or boolean out= buffer (casting rule
    'same_kind': UFuncTypeError).  The element type of every such buffer is
    traced back through its allocation: it must be floating on every path -
    not the element type of an argument whose dtype the contract leaves open
    (weights may be integers or booleans: a one-hot distribution)."""
    rule = 'C18.D5.out-dtype'
    n = 0
    for rel in (MI, EN):
        mod = ck.repo.mod(rel)
        for q, fn in list(mod.functions.items()):
            calls = [c for c in calls_in(fn) if (call_name(c) or '').replace('numpy.', 'np.') in _FLOAT_UFUNCS and kwarg(c, 'out') is not None]
            if not calls:
                continue
            fi = _fi(mod, fn)
            ck.analysed(mod, fn)
            reported = set()
            for c in sorted(calls, key=lambda c: (getattr(c, 'lineno', 0), getattr(c, 'col_offset', 0))):
                n += 1
                st = fi.stmt(c)
                prov = _dtype_of(fi, kwarg(c, 'out'), st)
                wrong = sorted((x for x in prov if x not in (_F, _U)), key=str)
                cn = call_name(c)
                if not wrong and _U not in prov:
                    ck.ok(rule, mod, c, '%s(..., out=%s)' % (cn, u(kwarg(c, 'out'))[:60]), 'the out= buffer is floating on every path')
                    continue
                if not wrong:
                    ck.missing(rule, 'element type of the out= buffer of `%s` in %s' % (u(c)[:100], q))
                    continue
                w = wrong[0]
                if isinstance(w, tuple):
                    what = 'argument %s' % ', '.join('`%s`' % p for p in sorted(w[1]))
                    key = (q, w[1])
                    con = 'out= buffer of a float-valued ufunc inherits the element type of %s' % what
                    why = ('the buffer passed as out= to %s gets its element type from %s (allocated with the dtype of an array '
                           'computed from it, no float conversion on some path): for integer or boolean %s - admissible, e.g. a one-hot '
                           'weight vector - NumPy refuses to write the floating result (UFuncTypeError, casting rule same_kind). '
                           'Allocate the buffer with dtype=float' % (cn, what, what))
                else:
                    key = (q, w)
                    con = 'out= buffer of a float-valued ufunc has a %s element type' % w
                    why = 'the buffer passed as out= to %s is %s: the floating result cannot be written into it (UFuncTypeError)' % (cn, w)
                if key in reported:
                    continue
                reported.add(key)
                ck.bad(rule, mod, c, q, con, why)
    ck.floor(rule, n, 6, 'float-valued ufunc calls with out= in info_theory')


# ---------------------------------------------------------------------------
# D9 weighted estimator: ONE weight vector behind marginals and joints

_VIEW_ATTRS = {'T'}
_VIEW_METHODS = {'reshape', 'ravel', 'flatten', 'squeeze', 'transpose'}


def _same_elements(v):
    """The Name whose elements `v` holds unchanged: a (validated / re-typed)
    copy, a view with extra unit axes, a reshape or a transpose of it."""
    while v is not None:
        n = _passthrough(v)
        if n is not None:
            return n
        if isinstance(v, ast.Attribute) and v.attr in _VIEW_ATTRS:
            v = v.value
        elif isinstance(v, ast.Call) and isinstance(v.func, ast.Attribute) and v.func.attr in _VIEW_METHODS and \
                not (isinstance(v.func.value, ast.Name) and v.func.value.id in _MODULE_ALIASES):
            v = v.func.value
        elif isinstance(v, ast.Call) and (call_name(v) or '') in ('np.reshape', 'np.ravel', 'np.squeeze', 'np.transpose', 'np.expand_dims') \
                and v.args and not isinstance(v.args[0], ast.Starred):
            v = v.args[0]
        elif isinstance(v, ast.Subscript) and all(_is_const(i, None) or _is_const(i, Ellipsis) or _full_slice(i) for i in _index_items(v.slice)):
            v = v.value
        elif isinstance(v, ast.Call) and (call_name(v) or '') in _PASS_FUNCS | {'np.array'} and v.args and not isinstance(v.args[0], ast.Starred):
            v = v.args[0]
        else:
            return None
    return None


class _Versions:
    """Which VALUES of one vector-valued parameter W a local may hold.

    A local is a W-vector when every definition that reaches the point of
    interest is (a) the parameter itself, (b) a copy / view / re-typed form of
    a W-vector (same elements: the value class of its source), (c) an
    element-wise rescaling `v / e`, `v * e`, `v op= e` of a W-vector `v`, or
    any rebinding of W itself computed from a W-vector (a NEW value: the
    class is the defining statement).  vclass(name, at) is the set of value
    classes ('PARAM' or a value-changing definition) the name may hold at
    statement `at`, None when the name is not a W-vector there."""

    def __init__(self, fi, W):
        self.fi, self.W = fi, W
        self.memo = {}
        self.src = {}           # id(value-changing definition) -> value classes of the vector it was computed from

    def vclass(self, name, at, stack=None):
        stack = set() if stack is None else stack
        fi = self.fi
        sites = fi.rd.defs_at(at, name)
        if not sites:
            return None
        out = set()
        for site in sites:
            if site == 'PARAM':
                if name != self.W:
                    return None
                out.add('PARAM')
                continue
            if site == 'UNBOUND':
                return None
            key = (id(site), name)
            if key in stack:
                continue                    # loop-carried: adds no class of its own
            if key not in self.memo:
                stack.add(key)
                self.memo[key] = self._one(site, name, stack)
                stack.discard(key)
            r = self.memo[key]
            if r is None:
                return None
            out |= r
        return frozenset(out)

    def _one(self, site, name, stack):
        fi = self.fi
        if isinstance(site, ast.AugAssign):
            prev = self.vclass(name, site, stack) if isinstance(site.target, ast.Name) else None
            if prev is not None:
                self.src[id(site)] = prev
                return {site}
            return None
        v = fi.def_value(site, name)
        if v is None:
            return None
        inner = _same_elements(v)
        if inner is not None:
            return self.vclass(inner.id, site, stack)
        if isinstance(v, ast.BinOp) and isinstance(v.op, (ast.Div, ast.Mult)):
            inner = _same_elements(v.left)
            prev = self.vclass(inner.id, site, stack) if inner is not None else None
            if prev is not None:
                self.src[id(site)] = prev
                return {site}
        if name == self.W:
            prev = set()
            for n in ast.walk(v):
                if isinstance(n, ast.Name) and isinstance(n.ctx, ast.Load) and n.id not in _MODULE_ALIASES:
                    prev |= self.vclass(n.id, site, stack) or set()
            if prev:
                self.src[id(site)] = frozenset(prev)
                return {site}
        return None


def _consumers(fi, V, roots):
    """Backward DATA slice from the statements `roots` (reaching definitions
    of every name read + in-place updates of the object that can execute
    before the reader), cut at the W-vectors: returns [(name node, statement,
    value classes)] for every read of a W-vector by a statement that is not
    itself the definition of one - the places where the weights enter the
    estimate."""
    from ..cfg import header_uses
    seen, work, out = set(), list(roots), []
    while work:
        s = work.pop()
        if id(s) in seen or isinstance(s, Assume):
            continue
        seen.add(id(s))
        for n in header_uses(s):
            if n.id in _MODULE_ALIASES:
                continue
            vc = V.vclass(n.id, s)
            if vc is not None:
                out.append((n, s, vc))
                continue
            for site in fi.rd.defs_at(s, n.id):
                if site not in ('PARAM', 'UNBOUND'):
                    work.append(site)
            for ms in fi._mutated_in_place(n.id):
                if ms is not s and fi.cfg.reachable(ms, s):
                    work.append(ms)
    out.sort(key=lambda t: (getattr(t[0], 'lineno', 0), getattr(t[0], 'col_offset', 0)))
    return out


def _l1_forms(x):
    return ['np.linalg.norm(%s, ord=1)' % x, 'np.linalg.norm(%s, 1)' % x, '%s.sum()' % x, 'np.abs(%s).sum()' % x, 'abs(%s).sum()' % x,
            'float(%s.sum())' % x, 'np.sum(%s)' % x, 'np.add.reduce(%s)' % x, 'np.linalg.norm(%s, ord=1, axis=0)' % x]


def d9_weighted(ck):
    """weighted_mi estimates P(x), P(y) and P(x, y) from weighted frames; the
    identities of the property (bounded by the marginal entropies, equal to
    the count-based estimator for uniform weights, unchanged by a common
    factor of the weights) need ONE weight vector behind all of them: every
    place where the weights enter the returned value reads the same value of
    the weight vector - in particular no copy, view or rescaled form taken
    BEFORE the vector is rebound (normalised) may be consumed after it - and
    the rebinding that normalises is a division by the sum of the weights,
    skipped only when that sum is already 1."""
    rule = 'C18.D9.weighted'
    mod = ck.repo.mod(MI)
    F = 'weighted_mi'
    fn = mod.func(F)
    ck.analysed(mod, fn)
    P = params(fn)
    if len(P) < 2:
        ck.missing(rule, 'signature (features, weights, ...) of weighted_mi')
        return
    W = P[1]
    fi = _fi(mod, fn)
    V = _Versions(fi, W)
    roots = [r for r in returns_of(fn) if r.value is not None]
    cons = _consumers(fi, V, roots)
    ck.floor(rule + '.one-vector', len(cons), 1, 'places where the weight vector `%s` enters the value returned by weighted_mi' % W)
    if not cons:
        return
    # names that denote a W-vector somewhere, in-place updates of their objects are not versioned by reaching definitions
    vec_names = {n.id for n, s, vc in cons} | {W}
    for key, r in V.memo.items():
        if r is not None:
            vec_names.add(key[1])
    inplace = [ms for nm in sorted(vec_names) for ms in fi._mutated_in_place(nm)]
    if inplace:
        ck.missing(rule + '.one-vector', 'a weight vector of weighted_mi is updated in place (%s): which readers see the update depends on '
                   'aliasing, not decided' % u(inplace[0])[:80])
        return

    def marginal(n, s):
        for c in calls_in(s.value if isinstance(s, (ast.Assign, ast.Return, ast.Expr, ast.AugAssign)) and s.value is not None else s):
            if (call_name(c) or '') in ('np.bincount', 'numpy.bincount'):
                w = kwarg(c, 'weights') or (c.args[1] if len(c.args) > 1 else None)
                if w is not None and any(x is n for x in ast.walk(w)):
                    return True
        return False

    def show(vc):
        return ', '.join(sorted('the argument' if d == 'PARAM' else '`%s` (line %s)' % (u(d)[:60], getattr(d, 'lineno', '?')) for d in vc))

    full = set()
    for n, s, vc in cons:
        full |= set(vc)
    undecided = False
    for n, s, vc in cons:
        role = 'weighted marginal (np.bincount weights=)' if marginal(n, s) else 'weighted joint / product'
        what = '`%s` read by `%s`' % (n.id, u(s)[:70])
        # 'PARAM' is never lacking: every other class is computed from it, a reader of the newer value is not stale
        lacking = [d for d in full if d not in vc and d != 'PARAM']
        if not lacking:
            ck.ok(rule + '.one-vector', mod, n, what, '%s reads the weight vector as defined by: %s' % (role, show(vc)))
            continue
        # stale: the reader holds exactly what the rebinding d was computed FROM, although d can execute before the reader
        stale = [d for d in lacking if fi.cfg.reachable(d, s) and d is not s and set(vc) <= set(V.src.get(id(d), ()))]
        if not stale:
            undecided = True
            ck.missing(rule + '.one-vector', '%s at %s sees other definitions of the weight vector (%s) than another consumer (%s) on '
                       'different branches' % (what, mod.loc(n), show(vc), show(full)))
            continue
        if any(isinstance(d, ast.AugAssign) for d in stale):
            undecided = True
            ck.missing(rule + '.one-vector', '%s at %s: the weight vector is rescaled by an augmented assignment (%s); whether the value '
                       'taken before it is a view that follows the update is not decided' % (what, mod.loc(n), u(stale[0])[:60]))
            continue
        d = sorted(stale, key=lambda x: getattr(x, 'lineno', 0))[0]
        # where the stale value was taken: the definition of the consumed name that precedes the rebinding
        taken = [site for site in fi.rd.defs_at(s, n.id) if site not in ('PARAM', 'UNBOUND')]
        origin = u(taken[0])[:80] if taken and n.id != W else 'the value `%s` held before' % W
        ck.bad(rule + '.one-vector', mod, n, F, 'stale weight vector consumed: %s' % what,
               '%s consumes `%s`, whose elements are those of the weight vector BEFORE it is rebound by `%s` (line %s) [%s], while other '
               'parts of the estimate (%s) read the vector after that rebinding: marginals and joints are computed from two different '
               'weight vectors, so the result depends on the scale of the weights, is not bounded by the marginal entropies and differs '
               'from the count-based estimator for un-normalised uniform weights' % (
                   role, n.id, u(d)[:80], getattr(d, 'lineno', '?'), origin,
                   '; '.join('`%s`' % u(s2)[:50] for n2, s2, vc2 in cons if d in vc2)[:200]))
    if undecided:
        return
    # ---- the value-changing definitions: normalisation to unit sum
    rn = rule + '.normalised'
    norm_defs = sorted((d for d in full if d != 'PARAM'), key=lambda x: getattr(x, 'lineno', 0))
    recognised = 0
    for d in norm_defs:
        if isinstance(d, ast.AugAssign):
            tgt, val, op = d.target, d.value, d.op
            src = tgt if isinstance(tgt, ast.Name) else None
            if src is None or not isinstance(op, ast.Div):
                continue
            den = val
        else:
            tn = [t.id for t in d.targets if isinstance(t, ast.Name)] if isinstance(d, ast.Assign) else \
                ([d.target.id] if isinstance(getattr(d, 'target', None), ast.Name) else [])
            v = fi.def_value(d, tn[0]) if tn else None
            if not (isinstance(v, ast.BinOp) and isinstance(v.op, ast.Div)):
                continue
            src = _same_elements(v.left)
            den = v.right
            if src is None:
                continue
        x = src.id
        dx = fi.expand(den, stop=(x,))
        # the denominator must be computed from the vector that is divided (same value)
        alias = {m.id for m in ast.walk(dx) if isinstance(m, ast.Name) and m.id not in _MODULE_ALIASES and m.id != x
                 and V.vclass(m.id, d) is not None and V.vclass(m.id, d) == V.vclass(x, d)}
        if alias:
            class R(ast.NodeTransformer):
                def visit_Name(self, m):
                    return ast.copy_location(ast.Name(id=x, ctx=m.ctx), m) if m.id in alias else m
            dx = R().visit(copy.deepcopy(dx))
        verdict = classify(dx, _l1_forms(x), scope={x})
        if verdict[0] == 'far' and const_value(canon(dx)) is not None:
            continue                        # a constant rescaling, not the normalisation
        if ck.decide(verdict, rn, mod, d, F, 'weights normalised by `%s`' % _cx(dx)[:80],
                     'the weight vector is divided by its sum (unit L1 norm)',
                     'the weights must be normalised to unit SUM (they are probabilities of the frames: marginals and joints must add '
                     'up to 1); another norm leaves a scale factor in every probability'):
            recognised += 1
        if verdict[0] != 'match':
            continue
        # conditions under which this normalisation is skipped
        last = cons[-1][1]
        guards = [a for a in fi.cfg.nodes if isinstance(a, Assume) and fi.cfg.dominates(a, d) and not fi.cfg.dominates(a, last)]
        if not guards:
            continue
        if len(guards) > 1:
            ck.missing(rn, 'the normalisation `%s` of weighted_mi is nested in %d conditions' % (u(d)[:60], len(guards)))
            continue
        g = guards[0]
        gx = canon(fi.expand(g.test, stop=(x,)))
        names = {m.id for m in ast.walk(gx) if isinstance(m, ast.Name) and m.id not in _MODULE_ALIASES}
        atoms = conjuncts(gx, g.polarity)
        dec = None
        if names == {x} and fi.rd.defs_at(g.owner, x) == fi.rd.defs_at(d, x) and atoms and len(atoms) == 1 and isinstance(atoms[0], Cmp):
            a = atoms[0]
            for lhs, rhs, cmp in ((a.lhs, a.rhs, a), (a.rhs, a.lhs, a.flipped())):
                c = const_value(rhs)
                if classify(lhs, _l1_forms(x))[0] == 'match' and isinstance(c, (int, float)) and not isinstance(c, bool) and c == 1:
                    dec = cmp.op is ast.NotEq
        if dec is None:
            ck.missing(rn, 'condition `%s` under which weighted_mi normalises its weights not recognised' % _cx(gx)[:80])
        else:
            ck.check(dec, rn, mod, g.owner, F, 'normalisation skipped unless `%s`' % _cx(gx)[:80],
                     'the normalisation is skipped only when the weights already sum to 1',
                     'the normalisation may be skipped only when the weights already sum to 1; under this test weight vectors with '
                     'another sum reach the estimate un-normalised')
    if not recognised and not ck_has_bad(ck, rn):
        ck.missing(rn, 'normalisation of the weight vector of weighted_mi to unit sum (no definition `w / w.sum()` reaches the estimate)')


def ck_has_bad(ck, rule):
    return any(o.get('rule') == rule and o.get('status') in ('VIOLATED', 'KNOWN-FINDING') for o in ck.obligations)


def check(ck):
    d1_kernel(ck)
    d3_axes(ck)
    d4_grid(ck)
    n = 0
    for rel in (MI, EN):
        n += check_masked_ufuncs(ck, 'C18.D5.masked-ufunc', ck.repo.mod(rel))
    ck.floor('C18.D5.masked-ufunc', n, 6, 'masked ufunc calls in info_theory')
    d6_joint_counts(ck, d6_ids_preserved(ck))
    d6_default_width(ck)
    d5_out_dtype(ck)
    d7_entropy(ck)
    d9_weighted(ck)
    check_no_arg_mutation(ck, 'C18.D8.inputs-unmodified', [
        (MI, 'joint_counts'), (MI, 'mutual_information'), (MI, 'mi_matrix'),
        (MI, 'weighted_mi'), (MI, 'channel_capacity_normalization'),
        (MI, 'mi_to_nmi'), (MI, 'mi_to_apc'), (MI, 'mi_to_nmi_apc'),
        (EN, 'kl_divergence'), (EN, 'shannon_entropy'), (EN, 'js_divergence'),
        (LI, 'matrix_bincount2d')])
    return EXPLANATION

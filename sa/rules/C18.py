"""C18 Joint counts and mutual information (structural clauses)."""
import ast

from ..core import (AnalysisIncomplete, call_name, const_value, kwarg,
                    names_loaded, params, target_names, u, walk_expr,
                    walk_local)
from ..cykernel import (check_bounds, check_prange,
                        check_zero_before_accumulate)
from ..patterns import (Cmp, assigns_to, calls_in, check_masked_ufuncs,
                        check_no_arg_mutation, conjuncts, finfo, returns_of,
                        subscript_stores)

from ..match import C, CS

LI = 'enspara/info_theory/libinfo.pyx'
MI = 'enspara/info_theory/mutual_info.py'
EN = 'enspara/info_theory/entropy.py'

EXPLANATION = (
    'Static decision of: (D1) two-sided bounds of every data-dependent index '
    'of the boundscheck(False)/wraparound(False) counting kernel (guards '
    'a.max() < n and a.min() >= 0 for both inputs; loop ranges vs extents; '
    'accumulator shape); (D2) prange ownership jc[a_row, ...] and a '
    'zero-initialised accumulator; (D3) axis roles in mutual_information '
    '(marginal over the last axis indexes the first state loop, second-last '
    'the second); (D4) channel-capacity grid built with indexing=\'ij\' and '
    'fmin of the two state-count vectors; (D5) every masked ufunc has an '
    'initialised out=; (D6) argument order X,Y,n_x,n_y into the kernel, dtype '
    'harmonisation casts the narrower side up, pooled counts accumulate into a '
    'fresh array; no argument mutation. The information-theoretic identities '
    'themselves are not decided.')


def d1_kernel(ck):
    mod = ck.repo.mod(LI)
    fused = mod.tree.cy_fused
    fn = mod.func('matrix_bincount2d')
    d = fn.cy_directives
    ck.ok('C18.kernel', mod, fn, 'matrix_bincount2d boundscheck=%s wraparound=%s' % (
        d.get('boundscheck'), d.get('wraparound')), 'unchecked kernel')
    nb, k = check_bounds(ck, 'C18.D1.bounds', mod, fn, fused)
    ck.floor('C18.D1.bounds', nb, 8, 'bounds obligations in matrix_bincount2d')
    npr = check_prange(ck, 'C18.D2.prange', mod, fn, fused)
    ck.floor('C18.D2.prange', npr, 1, 'prange loops')
    nz = check_zero_before_accumulate(ck, 'C18.D2.zero-first', mod, fn, fused)
    ck.floor('C18.D2.zero-first', nz, 1, 'accumulations')
    # length agreement guard
    ok = any(isinstance(s, ast.Assert) and u(s.test) in ('a.shape[0] == b.shape[0]', 'b.shape[0] == a.shape[0]')
             for s in walk_local(fn))
    ck.check(ok, 'C18.D1.lengths', mod, fn, 'matrix_bincount2d', 'assert a.shape[0] == b.shape[0]',
             'feature arrays of different lengths are rejected',
             'the kernel iterates t over a.shape[0] and reads b[t, ...]: arrays of different '
             'lengths must be rejected')
    # the count cell: jc[a_row, b_row, i, j] += 1 with i from a, j from b
    fi = finfo(mod, fn)
    for s in walk_local(fn):
        if isinstance(s, ast.AugAssign) and isinstance(s.target, ast.Subscript) and u(s.target.value) == 'jc':
            dims = s.target.slice.elts if isinstance(s.target.slice, ast.Tuple) else []
            ok = len(dims) == 4 and isinstance(s.op, ast.Add) and const_value(s.value) == 1
            srcs = []
            for dnode in dims[2:]:
                v = fi.resolve(dnode)
                srcs.append(u(v))
            ok = ok and len(srcs) == 2 and srcs[0].startswith('a[') and srcs[1].startswith('b[') and \
                u(dims[0]) in srcs[0] and u(dims[1]) in srcs[1]
            ck.check(ok, 'C18.D1.cell', mod, s, 'matrix_bincount2d', '%s with i=%s j=%s' % (u(s), srcs[0] if srcs else '?', srcs[1] if len(srcs) > 1 else '?'),
                     'cell [x, y, state of x in a, state of y in b] incremented by one per frame',
                     'the incremented cell must be jc[a_row, b_row, a[t, a_row], b[t, b_row]] += 1')
    # the 1-D sibling kernel (not called by the package, but public and unchecked)
    fn2 = mod.functions.get('bincount2d')
    if fn2 is not None and fn2.cy_directives.get('boundscheck') is False:
        nb2, _ = check_bounds(ck, 'C18.D1.bounds', mod, fn2, fused)
        check_zero_before_accumulate(ck, 'C18.D2.zero-first', mod, fn2, fused)


def d3_axes(ck):
    rule = 'C18.D3.axes'
    mod = ck.repo.mod(MI)
    fn = mod.func('mutual_information')
    ck.analysed(mod, fn)
    fi = finfo(mod, fn)

    def resolved_chain(name_node):
        return fi.resolve(name_node)
    # P_a / P_b: np.divide(<marginal>, n_obs[..., None], ...)
    roles = {}
    for s in walk_local(fn):
        if isinstance(s, ast.Assign) and isinstance(s.value, ast.Call) and call_name(s.value) == 'np.divide' \
                and isinstance(s.targets[0], ast.Name) and s.value.args:
            num = s.value.args[0]
            v = fi.resolve(num) if isinstance(num, ast.Name) else num
            if isinstance(v, ast.Call) and isinstance(v.func, ast.Attribute) and v.func.attr == 'sum':
                ax = const_value(kwarg(v, 'axis') or (v.args[0] if v.args else None))
                roles[s.targets[0].id] = (u(v.func.value), ax, s)
            elif isinstance(v, ast.Name):
                roles[s.targets[0].id] = (v.id, None, s)
    # loop structure
    loops = [l for l in walk_local(fn) if isinstance(l, ast.For)]
    inner = [l for l in loops if isinstance(l.iter, ast.Call) and 'shape[' in u(l.iter)]
    # find P_x_y = P_a_b[i, j] ; P_x = P_a[i, j] ; P_y = P_b[i, j]
    loc = {}
    for s in walk_local(fn):
        if isinstance(s, ast.Assign) and isinstance(s.targets[0], ast.Name) and isinstance(s.value, ast.Subscript) \
                and isinstance(s.value.value, ast.Name) and s.value.value.id in roles:
            loc[s.targets[0].id] = (s.value.value.id, s)
    # the accumulate term uses P_x_y[u, v], P_x[u], P_y[v]
    acc = [s for s in walk_local(fn) if isinstance(s, ast.AugAssign) and isinstance(s.target, ast.Subscript)
           and u(s.target.value) == 'mi']
    if len(acc) != 1:
        ck.missing(rule, 'accumulation into mi[i, j]')
        return
    a = acc[0]
    subs = [x for x in ast.walk(a.value) if isinstance(x, ast.Subscript) and isinstance(x.value, ast.Name)]
    joint = [x for x in subs if isinstance(x.slice, ast.Tuple) and len(x.slice.elts) == 2]
    if not joint:
        ck.missing(rule, 'joint probability P[u, v] in the accumulated term')
        return
    uu, vv = [u(e) for e in joint[0].slice.elts]
    jname = joint[0].value.id
    singles = [x for x in subs if not isinstance(x.slice, ast.Tuple)]
    n = 0
    for x in singles:
        nm = x.value.id
        idx = u(x.slice)
        src = loc.get(nm)
        if src is None or src[0] not in roles:
            ck.bad(rule, mod, x, 'mutual_information', u(x), 'marginal `%s` does not come from a normalised marginal array' % nm)
            continue
        base, ax, stmt = roles[src[0]]
        n += 1
        # axis -1 summed away -> remaining state axis is the FIRST state axis (u)
        want_idx = uu if ax in (-1, 3) else vv if ax in (-2, 2) else None
        ck.check(want_idx == idx and base == params(fn)[0] or (want_idx == idx and base == 'jc'),
                 rule, mod, x, 'mutual_information',
                 '%s where %s <- %s <- %s.sum(axis=%s)' % (u(x), nm, src[0], base, ax),
                 'marginal over axis %s is indexed by the %s state index' % (ax, 'first' if want_idx == uu else 'second'),
                 'the marginal obtained by summing axis %s of the joint counts is the distribution of the '
                 '%s feature and must be indexed with `%s`, the index that runs over axis %s of the '
                 'joint block; found `%s`' % (ax, 'first' if ax in (-1, 3) else 'second', want_idx,
                                              '-2' if ax in (-1, 3) else '-1', idx))
    ck.floor(rule, n, 2, 'marginal uses in the MI term')
    # loop ranges: u over shape[0], v over shape[1] of the joint block
    for l in inner:
        t = u(l.target)
        if t == uu:
            ck.check(u(l.iter) == 'range(%s.shape[0])' % jname, rule + '.ranges', mod, l, 'mutual_information',
                     'for %s in %s' % (t, u(l.iter)), 'first state index ranges over axis 0 of the joint block',
                     'first state index must range over %s.shape[0]' % jname)
        if t == vv:
            ck.check(u(l.iter) == 'range(%s.shape[1])' % jname, rule + '.ranges', mod, l, 'mutual_information',
                     'for %s in %s' % (t, u(l.iter)), 'second state index ranges over axis 1 of the joint block',
                     'second state index must range over %s.shape[1]' % jname)
    # term is P_xy * log(P_xy / (P_x * P_y)); guard skips zero cells
    term = a.value
    ok = isinstance(term, ast.BinOp) and isinstance(term.op, ast.Mult) and u(term.left) == u(joint[0]) and \
        isinstance(term.right, ast.Call) and call_name(term.right) == 'np.log'
    if ok:
        arg = term.right.args[0]
        ok = isinstance(arg, ast.BinOp) and isinstance(arg.op, ast.Div) and u(arg.left) == u(joint[0]) and \
            isinstance(arg.right, ast.BinOp) and isinstance(arg.right.op, ast.Mult)
    ck.check(ok, rule + '.term', mod, a, 'mutual_information', u(a),
             'p(x,y) * log(p(x,y) / (p(x) p(y)))', 'the accumulated term must be p_xy * log(p_xy / (p_x * p_y))')
    g = mod.parent.get(a)
    ok = isinstance(g, ast.If)
    if ok:
        t = fi.resolve(g.test.operand) if isinstance(g.test, ast.UnaryOp) and isinstance(g.test.operand, ast.Name) else g.test
        txt = u(t)
        ok = all(('%s == 0' % u(x)) in txt for x in [joint[0]] + singles[:2])
    ck.check(ok, rule + '.guard', mod, g if isinstance(g, ast.If) else a, 'mutual_information',
             u(g.test) if isinstance(g, ast.If) else '?', 'cells with a zero probability are skipped (0 log 0 = 0)',
             'the term must be skipped when p_xy, p_x or p_y is zero')
    # n_obs = sum over both state axes; divisors broadcast over trailing axes
    for nm, (base, ax, s) in roles.items():
        den = s.value.args[1] if len(s.value.args) > 1 else None
        want = 'n_obs[..., None]' if ax is not None else 'n_obs[..., None, None]'
        ck.check(den is not None and u(den) == want, rule + '.normalise', mod, s, 'mutual_information', u(s)[:140],
                 'normalised by the per-pair observation count broadcast over the state axes',
                 'the divisor of `%s` must be %s' % (nm, want))


def d4_grid(ck):
    rule = 'C18.D4.grid'
    mod = ck.repo.mod(MI)
    fn = mod.func('channel_capacity_normalization')
    ck.analysed(mod, fn)
    fi = finfo(mod, fn)
    # the per-pair state-count grid: any of
    #   np.fmin(*np.meshgrid(n_x, n_y, indexing='ij'))      np.fmin(*np.meshgrid(n_y, n_x))  [xy]
    #   np.fmin(n_x[:, None], n_y[None, :]) / np.fmin(n_x[:, None], n_y)      np.minimum.outer(n_x, n_y)
    grids = [s for s in walk_local(fn) if isinstance(s, ast.Assign) and isinstance(s.value, ast.Call)
             and (call_name(s.value) or '') in ('np.fmin', 'np.minimum', 'np.minimum.outer', 'np.fmin.outer')]
    if len(grids) != 1:
        ck.missing(rule, 'definition of the per-pair minimum state-count grid (np.fmin/np.minimum)')
        return
    gs = grids[0]
    gv = gs.value
    gname = u(gs.targets[0])
    ok = False
    why = ''
    if len(gv.args) == 1 and isinstance(gv.args[0], ast.Starred) and isinstance(gv.args[0].value, ast.Call) \
            and call_name(gv.args[0].value) == 'np.meshgrid':
        c = gv.args[0].value
        ix = kwarg(c, 'indexing')
        args = [u(a) for a in c.args]
        ok = (args == ['n_x', 'n_y'] and ix is not None and const_value(ix) == 'ij') or \
            (args == ['n_y', 'n_x'] and (ix is None or const_value(ix) == 'xy'))
        why = 'np.meshgrid(%s, indexing=%s)' % (', '.join(args), u(ix) if ix is not None else "default 'xy'")
    elif (call_name(gv) or '').endswith('.outer'):
        ok = [u(a) for a in gv.args] == ['n_x', 'n_y']
        why = u(gv)
    elif len(gv.args) == 2:
        def axis_of(e):
            # returns (vector name, axis it varies along in the 2-D grid)
            from .C08 import row_factor, col_wrong
            r = row_factor(e)
            if r is not None:
                return u(r), 0
            cwrong = col_wrong(e)
            if cwrong is not None:
                return u(cwrong), 1
            return u(e), 1
        roles = dict(axis_of(a) for a in gv.args)
        ok = roles == {'n_x': 0, 'n_y': 1}
        why = 'broadcast grid with %s' % roles
    ck.check(ok, rule, mod, gs, 'channel_capacity_normalization', u(gs),
             'grid axes are (n_x, n_y), matching mi[i, j] (%s)' % why,
             'mi has shape (n_features_a, n_features_b) = (len(n_x), len(n_y)): entry (i, j) must be divided by '
             'log(min(n_x[i], n_y[j])). The grid built here (%s) has n_x along the other axis: a ValueError for '
             'unequal feature counts and a transposed divisor otherwise' % why)
    ck.ok(rule + '.min', mod, gs, u(gs), 'per-pair SMALLER state count (%s)' % call_name(gv))
    dv = [x for x in calls_in(fn, 'np.divide')]
    ok = len(dv) == 1 and u(dv[0].args[0]) == 'mi' and call_name(dv[0].args[1]) == 'np.log' and \
        u(dv[0].args[1].args[0]) == gname and u(kwarg(dv[0], 'out')) == 'mi'
    ck.check(ok, rule + '.divide', mod, dv[0] if dv else fn, 'channel_capacity_normalization', u(dv[0]) if dv else 'np.divide',
             'mi / log(min states) in the private copy', 'entry (i, j) must be divided by log(min_num_states[i, j])')
    # works on a copy
    cp = [s for s in assigns_to(fn, 'mi') if isinstance(s, ast.Assign)]
    ok = bool(cp) and u(cp[0].value) in ('mi.copy()', 'np.copy(mi)', 'np.array(mi)', 'np.array(mi, copy=True)') and \
        fn.body.index(cp[0]) < fn.body.index(fi.stmt(dv[0])) if dv and cp and cp[0] in fn.body else False
    ck.check(ok, rule + '.copy', mod, cp[0] if cp else fn, 'channel_capacity_normalization', u(cp[0]) if cp else 'mi.copy()',
             'the in-place divide runs on a private copy', 'mi must be copied before the in-place divide (out=mi)')
    # validation of n_x against mi.shape[0], n_y against mi.shape[1]
    for nm, dim in (('n_x', 0), ('n_y', 1)):
        ss = [s for s in assigns_to(fn, nm) if isinstance(s, ast.Assign) and isinstance(s.value, ast.Call)]
        ok = bool(ss) and (call_name(ss[0].value) or '').endswith('_validate_feature_states_array') and \
            [u(a) for a in ss[0].value.args] == [nm, 'mi.shape[%d]' % dim]
        ck.check(ok, rule + '.validate', mod, ss[0] if ss else fn, 'channel_capacity_normalization',
                 u(ss[0]) if ss else nm, '%s validated against mi.shape[%d]' % (nm, dim),
                 '%s must be validated/broadcast against mi.shape[%d]' % (nm, dim))


def d6_joint_counts(ck):
    rule = 'C18.D6.joint-counts'
    mod = ck.repo.mod(MI)
    fn = mod.func('joint_counts')
    ck.analysed(mod, fn)
    fi = finfo(mod, fn)
    kc = [c for c in calls_in(fn) if (call_name(c) or '').endswith('matrix_bincount2d')]
    n = 0
    for c in kc:
        args = [u(a) for a in c.args]
        n += 1
        ok = args in (['X', 'Y', 'n_x', 'n_y'], ['X', 'X', 'n_x', 'n_x'])
        ck.check(ok, rule + '.args', mod, c, 'joint_counts', u(c),
                 'kernel called as (first, second, states of first, states of second)',
                 'matrix_bincount2d(a, b, n_a, n_b) must receive (X, Y, n_x, n_y) (or (X, X, n_x, n_x) '
                 'for self counts): swapped arrays or state counts put counts in the transposed cell / '
                 'check ids against the wrong range')
        if args[:2] == ['X', 'X']:
            g = mod.parent.get(fi.stmt(c))
            while g is not None and not isinstance(g, ast.If):
                g = mod.parent.get(g)
            ck.check(g is not None and u(g.test) == 'Y is None', rule + '.self', mod, c, 'joint_counts', u(c),
                     'self counts only when Y is None', 'self joint counts must be confined to Y is None')
    ck.floor(rule + '.args', n, 2, 'kernel call sites')
    # defaults: n_x = X.max()+1, n_y = Y.max()+1
    for nm, src in (('n_x', 'X'), ('n_y', 'Y')):
        ss = [s for s in assigns_to(fn, nm) if isinstance(s, ast.Assign)]
        ok = len(ss) == 1 and u(ss[0].value) in ('%s.max() + 1' % src, 'np.max(%s) + 1' % src)
        g = mod.parent.get(ss[0]) if ss else None
        ok = ok and isinstance(g, ast.If) and u(g.test) == '%s is None' % nm
        ck.check(ok, rule + '.defaults', mod, ss[0] if ss else fn, 'joint_counts', u(ss[0]) if ss else nm,
                 'default state count = max id + 1 of its own array', 'default %s must be %s.max() + 1 when %s is None' % (nm, src, nm))
    # dtype harmonisation: the narrower side is cast up
    found = False
    for g in walk_local(fn):
        if not isinstance(g, ast.If):
            continue
        cs = conjuncts(g.test, True)
        if not (cs and len(cs) == 1 and isinstance(cs[0], Cmp)):
            continue
        less = cs[0].as_less()
        if less is None or 'itemsize' not in u(g.test):
            continue
        found = True
        small, strict, big = less        # small.itemsize < big.itemsize in the body
        narrow = u(small).split('.')[0]
        wide = u(big).split('.')[0]

        def casts(body):
            out = []
            for s in body:
                if isinstance(s, ast.Assign) and isinstance(s.value, ast.Call) and \
                        isinstance(s.value.func, ast.Attribute) and s.value.func.attr == 'astype':
                    out.append((u(s.targets[0]), u(s.value.func.value), u(s.value.args[0])))
            return out
        b, e = casts(g.body), casts(g.orelse)
        ok = b == [(narrow, narrow, '%s.dtype' % wide)] and e == [(wide, wide, '%s.dtype' % narrow)]
        ck.check(ok, rule + '.uptype', mod, g, 'joint_counts', '%s: %s else %s' % (u(g.test), b, e),
                 'the array with the smaller itemsize is cast to the wider dtype',
                 'when dtypes differ the NARROWER array must be cast up to the wider dtype; casting the '
                 'wider one down wraps state ids that do not fit (counts land in another cell)')
    if not found:
        ck.missing(rule + '.uptype', 'itemsize comparison in joint_counts')
    # mi_matrix pooled counts
    fm = mod.func('mi_matrix')
    ck.analysed(mod, fm)
    jcalls = [c for c in calls_in(fm) if call_name(c) == 'joint_counts']
    ok = len(jcalls) == 1 and [u(a) for a in jcalls[0].args] == ['X', 'Y', C('np.max(n_x)'), C('np.max(n_y)')]
    ck.check(ok, rule + '.pooled', mod, jcalls[0] if jcalls else fm, 'mi_matrix', u(jcalls[0]) if jcalls else 'joint_counts',
             'every trajectory counted with the same (max) state counts', 'joint_counts(X, Y, np.max(n_x), np.max(n_y)) expected')
    acc = [s for s in walk_local(fm) if isinstance(s, ast.AugAssign) and u(s.target) == 'jc']
    ck.check(len(acc) == 1 and isinstance(acc[0].op, ast.Add) and u(acc[0].value) == 'jc_i', rule + '.pooled', mod,
             acc[0] if acc else fm, 'mi_matrix', u(acc[0]) if acc else 'jc += jc_i',
             'counts pooled by addition before the MI is computed', 'pooled counts must be accumulated with jc += jc_i')
    mic = [c for c in calls_in(fm) if call_name(c) == 'mutual_information']
    ck.check(len(mic) == 1 and u(mic[0].args[0]) == 'jc', rule + '.pooled', mod, mic[0] if mic else fm, 'mi_matrix',
             u(mic[0]) if mic else 'mutual_information(jc)', 'MI computed once from the pooled counts',
             'mutual_information must be computed from the pooled counts')
    cc = [c for c in calls_in(fm) if call_name(c) == 'channel_capacity_normalization']
    ck.check(len(cc) == 1 and [u(a) for a in cc[0].args] == ['mi', 'n_x', 'n_y'], rule + '.pooled', mod,
             cc[0] if cc else fm, 'mi_matrix', u(cc[0]) if cc else 'ccn', 'normalised with (mi, n_x, n_y)',
             'channel_capacity_normalization(mi, n_x, n_y) expected')


def d7_entropy(ck):
    rule = 'C18.D7.entropy'
    mod = ck.repo.mod(EN)
    fn = mod.func('kl_divergence')
    ck.analysed(mod, fn)
    ss = [s for s in assigns_to(fn, 'log_likelihoods') if isinstance(s, ast.Assign)]
    ok = len(ss) == 1 and u(ss[0].value) == 'P * np.log(P / Q)'
    ck.check(ok, rule, mod, ss[0] if ss else fn, 'kl_divergence', u(ss[0]) if ss else 'P*log(P/Q)',
             'p log(p/q)', 'relative entropy term must be P * np.log(P / Q)')
    st = [s for s, t in subscript_stores(fn, 'log_likelihoods')]
    ok = len(st) == 1 and 'np.isnan(log_likelihoods)' in u(st[0]) and u(st[0].value) == '0'
    ck.check(ok, rule, mod, st[0] if st else fn, 'kl_divergence', u(st[0]) if st else 'nan->0',
             '0 log 0 = 0', 'undefined 0 log 0 cells must be set to zero')
    fs = mod.func('shannon_entropy')
    ck.analysed(mod, fs)
    hs = [s for s in assigns_to(fs, 'H') if isinstance(s, ast.Assign)]
    ok = len(hs) == 1 and (u(hs[0].value).startswith('-np.sum(p * np.log(p') or u(hs[0].value).startswith('-(p * np.log(p'))
    ck.check(ok, rule, mod, hs[0] if hs else fs, 'shannon_entropy', u(hs[0])[:100] if hs else 'H',
             '-sum p log p', 'entropy must be -sum(p * log p)')


def check(ck):
    d1_kernel(ck)
    d3_axes(ck)
    d4_grid(ck)
    n = 0
    for rel in (MI, EN):
        n += check_masked_ufuncs(ck, 'C18.D5.masked-ufunc', ck.repo.mod(rel))
    ck.floor('C18.D5.masked-ufunc', n, 6, 'masked ufunc calls in info_theory')
    d6_joint_counts(ck)
    d7_entropy(ck)
    check_no_arg_mutation(ck, 'C18.D8.inputs-unmodified', [
        (MI, 'joint_counts'), (MI, 'mutual_information'), (MI, 'mi_matrix'),
        (MI, 'weighted_mi'), (MI, 'channel_capacity_normalization'),
        (MI, 'mi_to_nmi'), (MI, 'mi_to_apc'), (MI, 'mi_to_nmi_apc'),
        (EN, 'kl_divergence'), (EN, 'shannon_entropy'), (EN, 'js_divergence'),
        (LI, 'matrix_bincount2d')])
    return EXPLANATION

"""C18 Joint counts and mutual information (structural clauses).

The constructs are located by ROLE (positional parameters, "the array that
is returned", "the store into it", "the call to the kernel", reaching
definitions, dominating guards) and compared after expansion of temporaries
(FuncInfo.expand) and canonicalisation, so that renames, named temporaries,
mirrored comparisons, De Morgan duals, branch inversion and early
return/continue do not matter.  A recognised construct with wrong content is
a VIOLATION; an implementation the rule cannot see through is
ANALYSIS-INCOMPLETE (ck.missing / classify 'far').
"""
import ast
import copy

from ..cfg import Assume
from ..core import call_name, const_value, kwarg, params, u, walk_local
from ..cykernel import (check_bounds, check_prange,
                        check_zero_before_accumulate)
from ..match import canon, classify, match
from ..normal import is_pure
from ..patterns import (Cmp, calls_in, check_masked_ufuncs,
                        check_no_arg_mutation, conjuncts, finfo, returns_of,
                        subscript_stores)

LI = 'enspara/info_theory/libinfo.pyx'
MI = 'enspara/info_theory/mutual_info.py'
EN = 'enspara/info_theory/entropy.py'

EXPLANATION = (
    'Static decision of: (D1) two-sided bounds of every data-dependent index '
    'of the boundscheck(False)/wraparound(False) counting kernel (guards '
    'a.max() < n and a.min() >= 0 for both inputs; loop ranges vs extents; '
    'accumulator shape); the incremented cell is [x, y, a[t, x], b[t, y]] and '
    'the three loops cover all frames / features; (D2) prange ownership '
    'jc[a_row, ...] and a zero-initialised accumulator; (D3) axis roles in '
    'mutual_information, decided on an abstract axis model of the joint-count '
    'array (which count axes every factor of the accumulated term keeps, which '
    'loop index indexes which axis, what each loop ranges over, which cells '
    'are skipped, what every factor is normalised by); (D4) channel-capacity '
    'grid orientation (n_x along axis 0, n_y along axis 1, whatever way the '
    'grid is built), element-wise minimum, log divisor, private copy, '
    'validation against the matching axis of mi; (D5) every masked ufunc has '
    'an initialised out=; (D6) argument order X,Y,n_x,n_y into the kernel by '
    'origin of every argument, default state counts, dtype harmonisation casts '
    'only under an itemsize ordering that makes it widening, pooled counts '
    'accumulate by addition before one MI computation; (D7) relative entropy '
    'term p log(p/q) with exactly the NaN cells zeroed, entropy -sum p log p '
    'with the log masked to p > 0; no argument mutation. Added after the '
    'fourth hunt: (D1.capacity) the number of frames is bounded by what one '
    'cell of the count table holds, on the FRAME axis; (D6.pooled.capacity) '
    'the pooled table is wider than the kernel\'s cells; (D6.defaults.width) '
    'the default state count max+1 is computed in Python integers, not in the '
    'dtype of the id array; (D6.uptype.ids-preserved) truth table over all '
    'pairs of the kernel\'s integer element types: the harmonisation hands '
    'the kernel one element type and no cast wraps an id into the admissible '
    'range; (D5.out-dtype) element-type provenance of the out= buffer of every '
    'float-valued ufunc: floating on every path, never the dtype of an '
    'argument the contract leaves open. Added in the fifth hardening wave: '
    '(D5.mask) the mask of every guarded division / logarithm is the non-zero '
    'set of exactly its divisor / argument (same array expression, same unit '
    'axes); (D10.rejections) every raise / assert whose condition is a function '
    'of the inputs contradicts a fact that holds for all admissible inputs '
    '(equal shapes, non-negative probabilities and weights, at least two '
    'states, one table shape per trajectory) - decided by enumerating the sign '
    '/ interval regions of the compared quantities; (D7.axis) the relative '
    'entropy sums over the last axis for 1-D and 2-D input; (D7.normalise) a '
    'rebinding of the distribution before the entropy sum is a copy or p / '
    'sum(p); (D6.pooled) the running total is (re)started only while none '
    'exists, and the normalisation runs exactly under the normalize flag; '
    '(D6.unit-axis) a 1-D trajectory gets a TRAILING unit axis and only when it '
    'is 1-D; (D9.defaults/.ccn/.term/.axes) weighted_mi: default state counts '
    'only when none are given, normalisation flag and argument roles, the '
    'summand p log(p/q) with one array as multiplier and numerator, and a '
    'symbolic-shape interpretation over the independent extents observations / '
    'features / states / state pairs (element-wise operands, matrix-product '
    'contraction, index variables, bincount weights, reduced axis, result '
    'shape). Added in the sixth wave: (D11.result-range) every range limiter '
    '(clip / maximum / minimum / masked store) on the way from the summed '
    'terms to the return of an MI estimator is the identity on [0, +inf); a '
    'finite upper bound only >= 1, under the normalize flag and after the '
    'channel-capacity normalisation. The information-theoretic identities '
    'themselves and rounding-level deviations from them are not decided.')


# ---------------------------------------------------------------------------
# helpers (candidates for a shared module, see the hardening report)

_MODULE_ALIASES = ('np', 'numpy', 'scipy', 'math')


def _fi(mod, fn):
    """FuncInfo whose in-place-mutation table does not list module aliases:
    `out=np.zeros(...)` makes sa.normal._mutated_names report `np` as mutated,
    which blocks the expansion of every temporary defined through `np.f(...)`
    as soon as a second masked ufunc follows it."""
    fi = finfo(mod, fn)
    muts = fi._mutation_sites()
    for a in _MODULE_ALIASES:
        muts.pop(a, None)
    return fi


def _cx(node):
    """Canonical text of an (expanded) expression."""
    return u(canon(node))


def _is_const(node, value):
    return isinstance(node, ast.Constant) and node.value is value


def _index_items(sl):
    return list(sl.elts) if isinstance(sl, ast.Tuple) else [sl]


def _full_slice(it):
    return isinstance(it, ast.Slice) and it.lower is None and it.upper is None and it.step is None


_PASS_METHODS = {'astype', 'copy', 'view'}
_PASS_FUNCS = {'np.asarray', 'np.array', 'np.ascontiguousarray', 'np.asanyarray', 'np.copy',
               'np.atleast_1d', 'np.atleast_2d'}


def _passthrough(v):
    """The Name whose elements the value `v` still holds (same ids, possibly
    another dtype / extra unit axes / a validated copy), else None."""
    while v is not None:
        if isinstance(v, ast.Name):
            return v
        if isinstance(v, ast.Subscript):
            if all(_is_const(i, None) or _is_const(i, Ellipsis) or _full_slice(i) for i in _index_items(v.slice)):
                v = v.value
                continue
            return None
        if isinstance(v, ast.Call):
            cn = call_name(v) or ''
            if isinstance(v.func, ast.Attribute) and v.func.attr in _PASS_METHODS and \
                    not (isinstance(v.func.value, ast.Name) and v.func.value.id in _MODULE_ALIASES):
                v = v.func.value
                continue
            if (cn in _PASS_FUNCS or 'validate' in cn.split('.')[-1]) and v.args and \
                    not isinstance(v.args[0], ast.Starred):
                v = v.args[0]
                continue
        return None
    return None


def _origins(fi, name, at, memo, stack, pt=None):
    """Set of parameters `name` may hold at `at` (None: some definition is
    not a value-preserving function of a parameter).  `pt`: what counts as
    value preserving (default _passthrough)."""
    pt = pt or _passthrough
    out = set()
    for site in fi.rd.defs_at(at, name):
        if site == 'PARAM':
            out.add(name)
            continue
        if site == 'UNBOUND':
            return None
        key = (id(site), name)
        if key in stack:
            continue                      # loop-carried redefinition: adds no new origin
        if key not in memo:
            stack.add(key)
            v = fi.def_value(site, name)
            r = set() if v is not None else None
            for alt in ([v.body, v.orelse] if isinstance(v, ast.IfExp) else [v]) if v is not None else []:
                inner = pt(alt)
                o = _origins(fi, inner.id, site, memo, stack, pt) if inner is not None else None
                if o is None:
                    r = None
                    break
                r |= o
            stack.discard(key)
            memo[key] = r
        if memo[key] is None:
            return None
        out |= memo[key]
    return out


def _origin(fi, name, at, pt=None):
    """The parameter whose (validated / reshaped / re-typed / copied) value
    the local `name` holds at statement `at` on EVERY path, else None."""
    out = _origins(fi, name, at, {}, set(), pt)
    return next(iter(out)) if out is not None and len(out) == 1 else None


def _origin_of(fi, expr, at):
    inner = _passthrough(expr)
    return _origin(fi, inner.id, at) if inner is not None else None


_ALLOCS = {'np.zeros', 'np.zeros_like', 'np.empty', 'np.empty_like', 'np.ones', 'np.ones_like', 'np.full', 'np.full_like'}


def _out_fill(fi, name, at):
    """`name = np.zeros(...)` ... `np.f(x, y, where=m, out=name)` ... use at
    `at`: the value of the buffer at `at` is that of the single expression
    `np.f(x, y, where=m, out=np.zeros(...))` - a masked ufunc written as
    allocation + fill instead of inline out=.  Returns that expression
    (expanded) or None."""
    cache = fi.__dict__.setdefault('_c18_fills', {})
    key = (name, id(at))
    if key in cache:
        return cache[key]
    cache[key] = None
    defs = fi.rd.defs_at(at, name)
    if len(defs) != 1:
        return None
    site = next(iter(defs))
    if not isinstance(site, ast.Assign) or len(site.targets) != 1 or not isinstance(site.targets[0], ast.Name):
        return None
    alloc = site.value
    if not (isinstance(alloc, ast.Call) and call_name(alloc) in _ALLOCS):
        return None
    muts = fi._mutated_in_place(name)
    if len(muts) != 1 or not isinstance(muts[0], ast.Expr) or not isinstance(muts[0].value, ast.Call):
        return None
    m, c = muts[0], muts[0].value
    out = kwarg(c, 'out')
    if not (isinstance(out, ast.Name) and out.id == name and (call_name(c) or '').startswith('np.')):
        return None
    others = [n for x in list(c.args) + [k.value for k in c.keywords if k.arg != 'out'] for n in ast.walk(x) if isinstance(n, ast.Name)]
    if any(n.id == name for n in others):
        return None
    if not (fi.cfg.dominates(site, m) and fi.cfg.dominates(m, at)):
        return None
    for n in others:
        if n.id in fi.rd.locals and fi.rd.defs_at(m, n.id) != fi.rd.defs_at(at, n.id):
            return None
    for n in ast.walk(alloc):
        if isinstance(n, ast.Name) and n.id in fi.rd.locals and fi.rd.defs_at(site, n.id) != fi.rd.defs_at(at, n.id):
            return None
    r = fi.expand(c)
    for k in r.keywords:
        if k.arg == 'out':
            k.value = fi.expand(alloc)
    cache[key] = r
    return r


def _shape_element(e, k, n):
    """Element k of the sequence `e` when it is unpacked into exactly n names,
    for the sequences whose elements have a spelling of their own:
    `E.shape` -> `E.shape[k]`; `E.shape[a:]`, `E.shape[a:b]` (literal a >= 0,
    unit step) -> `E.shape[a + k]` (x[a:][k] == x[a + k] for non-negative a,
    k); `E.shape[-n:]` -> `E.shape[-n + k]`; `np.shape(E)` likewise."""
    def at(base, i):
        return ast.Subscript(value=base, slice=ast.Constant(value=i), ctx=ast.Load())
    if isinstance(e, ast.Call) and call_name(e) in ('np.shape', 'numpy.shape') and len(e.args) == 1 and not e.keywords \
            and not isinstance(e.args[0], ast.Starred):
        e = ast.Attribute(value=e.args[0], attr='shape', ctx=ast.Load())
    if isinstance(e, ast.Attribute) and e.attr == 'shape':
        return at(e, k)
    if isinstance(e, ast.Subscript) and isinstance(e.value, ast.Attribute) and e.value.attr == 'shape' and \
            isinstance(e.slice, ast.Slice) and (e.slice.step is None or const_value(canon(e.slice.step)) == 1):
        lo = 0 if e.slice.lower is None else const_value(canon(e.slice.lower))
        if not isinstance(lo, int) or isinstance(lo, bool):
            return None
        if lo >= 0:
            return at(e.value, lo + k)
        if e.slice.upper is None and -lo == n:
            return at(e.value, lo + k)
    return None


def _unpack_element(fi, name, at, stop=()):
    """`a, b = jc.shape[0:2]` ... use of `a` at `at`: the expression
    `jc.shape[0]` (see _shape_element), when the unpacking assignment is the
    single definition that reaches `at`, its value is pure and none of its
    operands is rebound or mutated between the assignment and `at`.  (A
    parallel assignment `a, b = e1, e2` is already seen through by
    FuncInfo.def_value / expand.)"""
    defs = fi.rd.defs_at(at, name)
    if len(defs) != 1:
        return None
    site = next(iter(defs))
    if not isinstance(site, ast.Assign) or len(site.targets) != 1 or not isinstance(site.targets[0], (ast.Tuple, ast.List)):
        return None
    elts = site.targets[0].elts
    if any(not isinstance(t, ast.Name) for t in elts):
        return None
    names = [t.id for t in elts]
    V = site.value
    if names.count(name) != 1 or isinstance(V, (ast.Tuple, ast.List)) or not is_pure(V) or fi._mutated_in_place(name):
        return None
    for m in ast.walk(V):
        if not (isinstance(m, ast.Name) and isinstance(m.ctx, ast.Load)) or m.id in _MODULE_ALIASES:
            continue
        if m.id in fi.rd.locals and fi.rd.defs_at(site, m.id) != fi.rd.defs_at(at, m.id):
            return None
        for ms in fi._mutated_in_place(m.id):
            if ms is not site and ms is not at and fi.cfg.reachable(site, ms) and fi.cfg.reachable(ms, at, avoiding=[site]):
                return None
    return _shape_element(_xp(fi, V, site, stop=stop), names.index(name), len(names))


def _xp(fi, expr, at, stop=()):
    """fi.expand + substitution of allocate-then-fill buffers (see _out_fill)
    and of names bound by unpacking a shape (see _unpack_element) as seen
    from statement `at`."""
    e = fi.expand(expr, stop=stop)

    class T(ast.NodeTransformer):
        def visit_Name(self, n):
            if isinstance(n.ctx, ast.Load) and n.id not in stop:
                r = _out_fill(fi, n.id, at)
                if r is None:
                    r = _unpack_element(fi, n.id, at, stop=stop)
                if r is not None:
                    return copy.deepcopy(r)
            return n
    e = T().visit(e)
    ast.fix_missing_locations(e)
    return e


def _facts(fi, stmt):
    """[(test, polarity, owner)]: tests known to be true/false whenever
    control reaches `stmt` (dominating if-branches, early exits, asserts)."""
    out = []
    for n in fi.cfg.nodes:
        if isinstance(n, Assume):
            if fi.cfg.dominates(n, stmt):
                out.append((n.test, n.polarity, n.owner))
        elif isinstance(n, ast.Assert) and n is not stmt and fi.cfg.dominates(n, stmt):
            out.append((n.test, True, n))
    return out


def _atoms(fi, stmt, stop=()):
    """Atomic facts (patterns.Cmp or ('expr', e, polarity)) that hold at
    `stmt`, over expanded operands; a fact is dropped when one of its
    operands may have been rebound between the guard and `stmt`."""
    atoms = []
    for test, pol, owner in _facts(fi, stmt):
        e = _xp(fi, test, stmt, stop=stop)
        names = {n.id for n in ast.walk(e) if isinstance(n, ast.Name)}
        if any(fi.rd.defs_at(owner, nm) != fi.rd.defs_at(stmt, nm) for nm in names if nm in fi.rd.locals):
            continue
        cs = conjuncts(canon(e), pol)
        if cs:
            atoms += cs
    return atoms


def _atom_names(a):
    es = [a.lhs, a.rhs] if isinstance(a, Cmp) else [a[1]]
    return {n.id for e in es for n in ast.walk(e) if isinstance(n, ast.Name)}


def _enclosing_loops(mod, stmt):
    out = []
    n = mod.parent.get(stmt)
    while n is not None and not isinstance(n, (ast.FunctionDef, ast.AsyncFunctionDef)):
        if isinstance(n, ast.For):
            out.append(n)
        n = mod.parent.get(n)
    return out


def _loop_of(fi, name, at):
    """The for statement that binds the plain loop variable `name` seen at `at`."""
    defs = fi.rd.defs_at(at, name)
    if len(defs) != 1:
        return None
    site = next(iter(defs))
    if isinstance(site, ast.For) and isinstance(site.target, ast.Name) and site.target.id == name:
        return site
    return None


def _range_extent(it):
    """E for `range(E)` / `range(0, E)` / `range(0, E, 1)` / `prange(E, ...)`."""
    if not (isinstance(it, ast.Call) and call_name(it) in ('range', 'prange', 'cython.parallel.prange', 'parallel.prange')):
        return None
    a = it.args
    if any(isinstance(x, ast.Starred) for x in a):
        return None
    if len(a) == 1:
        return a[0]
    if len(a) in (2, 3) and const_value(a[0]) == 0 and (len(a) == 2 or const_value(a[2]) == 1):
        return a[1]
    return None


# ---------------------------------------------------------------------------
# D1 / D2 kernel

def d1_kernel(ck):
    mod = ck.repo.mod(LI)
    fused = mod.tree.cy_fused
    fn = mod.func('matrix_bincount2d')
    F = 'matrix_bincount2d'
    d = fn.cy_directives
    ck.ok('C18.kernel', mod, fn, 'matrix_bincount2d boundscheck=%s wraparound=%s' % (
        d.get('boundscheck'), d.get('wraparound')), 'unchecked kernel')
    nb, k = check_bounds(ck, 'C18.D1.bounds', mod, fn, fused)
    ck.floor('C18.D1.bounds', nb, 8, 'bounds obligations in matrix_bincount2d')
    npr = check_prange(ck, 'C18.D2.prange', mod, fn, fused)
    ck.floor('C18.D2.prange', npr, 1, 'prange loops')
    nz = check_zero_before_accumulate(ck, 'C18.D2.zero-first', mod, fn, fused)
    ck.floor('C18.D2.zero-first', nz, 1, 'accumulations')

    fi = _fi(mod, fn)
    if len(params(fn)) < 4:
        ck.missing('C18.D1.cell', 'kernel signature (a, b, n_a, n_b)')
        return
    A, B = params(fn)[:2]
    # the count table is the array that is returned; its cells are incremented
    rets = [r.value for r in returns_of(fn) if r.value is not None]
    JC = rets[0].id if len(rets) == 1 and isinstance(rets[0], ast.Name) else None
    incs = [s for s in walk_local(fn) if isinstance(s, ast.AugAssign) and isinstance(s.target, ast.Subscript)
            and isinstance(s.target.value, ast.Name) and s.target.value.id == JC]
    if JC is None or not incs:
        ck.missing('C18.D1.cell', 'increment `<returned table>[x, y, i, j] += 1` in matrix_bincount2d')
        return
    ext = lambda arr, k: ['%s.shape[%d]' % (arr, k)] + (['len(%s)' % arr] if k == 0 else [])
    for s in incs:
        loops = _enclosing_loops(mod, s)
        lvars = {l.target.id for l in loops if isinstance(l.target, ast.Name)}
        scope = {A, B} | lvars
        # ---- feature arrays of different lengths are rejected before the loops
        want = {(x, y) for x in ext(A, 0) for y in ext(B, 0)}
        want |= {(y, x) for x, y in want}
        facts = _atoms(fi, s)
        eqs = [a for a in facts if isinstance(a, Cmp) and a.op is ast.Eq]
        both = [a for a in eqs if {A, B} <= _atom_names(a)]
        unread = [a for a in facts if a not in eqs and {A, B} <= _atom_names(a)]
        if any((_cx(a.lhs), _cx(a.rhs)) in want for a in both):
            ck.ok('C18.D1.lengths', mod, s, 'assert %s.shape[0] == %s.shape[0]' % (A, B),
                  'feature arrays of different lengths are rejected')
        elif both:
            ck.bad('C18.D1.lengths', mod, s, F, '; '.join(repr(a) for a in both),
                   'the length guard compares %s: the kernel iterates t over %s.shape[0] and reads %s[t, ...], so the '
                   'guard must be %s.shape[0] == %s.shape[0]' % (both[0], A, B, A, B))
        elif unread:
            ck.missing('C18.D1.lengths', 'a dominating test relates %s and %s but is not recognised as the length guard: %s' % (
                A, B, '; '.join(repr(a) if isinstance(a, Cmp) else u(a[1]) for a in unread)[:160]))
        else:
            ck.bad('C18.D1.lengths', mod, s, F, 'assert %s.shape[0] == %s.shape[0]' % (A, B),
                   'the kernel iterates t over %s.shape[0] and reads %s[t, ...]: arrays of different lengths must be '
                   'rejected (no dominating equality of the two frame counts found)' % (A, B))
        # ---- the count cell: jc[x, y, a[t, x], b[t, y]] += 1
        dims = _index_items(s.target.slice)
        cell = ast.Tuple(elts=[fi.expand(x) for x in dims], ctx=ast.Load())
        v = classify(cell, ['(_FA, _FB, %s[_T, _FA], %s[_T, _FB])' % (A, B)], scope=scope)
        one = isinstance(s.op, ast.Add) and const_value(fi.expand(s.value)) == 1
        if v[0] == 'match' and not one:
            v = ('near', 1, None)
        ck.decide(v, 'C18.D1.cell', mod, s, F, '%s with cell %s' % (u(s), _cx(cell)),
                  'cell [x, y, state of x in a, state of y in b] incremented by one per frame',
                  'the incremented cell must be jc[a_row, b_row, a[t, a_row], b[t, b_row]] += 1')
        if v[0] != 'match':
            continue
        _capacity(ck, mod, fn, fi, s, A, B, JC)
        # ---- every frame / feature pair is visited exactly once
        b = v[1]
        for meta, arr, k, what in (('_T', A, 0, 'frame'), ('_FA', A, 1, 'first-feature'), ('_FB', B, 1, 'second-feature')):
            nm = b[meta]
            loop = _loop_of(fi, nm.id, s) if isinstance(nm, ast.Name) else None
            if loop is None:
                ck.missing('C18.D1.cell.loops', 'loop binding the %s index `%s`' % (what, u(nm)))
                continue
            lit = _xp(fi, loop.iter, s)
            e = _range_extent(lit)
            forms = ext(arr, k) + (ext(B if arr == A else A, 0) if k == 0 else [])
            if e is None:
                vv = classify(lit, ['range(%s)' % f for f in forms], scope=scope)
                if vv[0] == 'match':
                    vv = ('far', 0, None)
            else:
                vv = classify(e, forms, scope=scope)
            ck.decide(vv, 'C18.D1.cell.loops', mod, loop, F, 'for %s in %s' % (nm.id, _cx(lit)),
                      '%s index runs over all of %s.shape[%d]' % (what, arr, k),
                      'the %s index must run over range(%s.shape[%d]): every frame of every feature pair is counted '
                      'exactly once' % (what, arr, k))
    # the 1-D sibling kernel (not called by the package, but public and unchecked)
    fn2 = mod.functions.get('bincount2d')
    if fn2 is not None and fn2.cy_directives.get('boundscheck') is False:
        nb2, _ = check_bounds(ck, 'C18.D1.bounds', mod, fn2, fused)
        check_zero_before_accumulate(ck, 'C18.D2.zero-first', mod, fn2, fused)


# ---------------------------------------------------------------------------
# D3 axis model of the joint-count array

class _Unk(Exception):
    pass


class _Val:
    """Abstract value of an array expression derived from the 4-D joint
    counts jc[x, y, i, j]: which count axes are still present (`axes`, None =
    a broadcast unit axis), which were indexed away and by what (`idx`), and
    for a quotient which axes numerator and denominator had."""

    def __init__(self, kind, axes, idx, num=None, den=None, aligned=True):
        self.kind, self.axes, self.idx = kind, list(axes), dict(idx)
        self.num, self.den, self.aligned = num, den, aligned


def _int_list(node):
    if isinstance(node, (ast.Tuple, ast.List)):
        vals = [const_value(e) for e in node.elts]
    else:
        vals = [const_value(node)]
    if any(not isinstance(v, int) or isinstance(v, bool) for v in vals):
        raise _Unk('axis is not a literal: %s' % u(node))
    return vals


def _interp(e, is_jc):
    if isinstance(e, ast.Name):
        if is_jc(e):
            return _Val('count', [0, 1, 2, 3], {})
        raise _Unk('array `%s` is not derived from the joint counts' % e.id)
    if isinstance(e, ast.BinOp) and isinstance(e.op, ast.Div):
        return _quot(e.left, e.right, is_jc)
    if isinstance(e, ast.Call):
        cn = call_name(e) or ''
        f = e.func
        if cn in ('np.divide', 'np.true_divide', 'numpy.divide', 'numpy.true_divide') and len(e.args) >= 2:
            return _quot(e.args[0], e.args[1], is_jc)
        if isinstance(f, ast.Attribute) and not (isinstance(f.value, ast.Name) and f.value.id in _MODULE_ALIASES):
            if f.attr == 'sum':
                v = _interp(f.value, is_jc)
                if v.kind != 'count':
                    raise _Unk('sum of a quotient')
                ax = kwarg(e, 'axis') or (e.args[0] if e.args else None)
                n = len(v.axes)
                which = list(range(n)) if ax is None or _is_const(ax, None) else _int_list(ax)
                if any(not -n <= k < n for k in which):
                    raise _Unk('axis out of range in %s' % u(e)[:60])
                which = {k % n for k in which}
                keep = kwarg(e, 'keepdims')
                if keep is not None and const_value(keep) is not True and const_value(keep) is not False:
                    raise _Unk('keepdims is not a literal')
                keep = keep is not None and const_value(keep) is True
                axes = [(None if keep else 'drop') if i in which else a for i, a in enumerate(v.axes)]
                return _Val('count', [a for a in axes if a != 'drop'], v.idx)
            if f.attr in ('astype', 'copy'):
                return _interp(f.value, is_jc)
        if cn in ('np.asarray', 'np.array', 'np.asfarray', 'np.ascontiguousarray', 'float', 'np.float64') and e.args \
                and not isinstance(e.args[0], ast.Starred):
            return _interp(e.args[0], is_jc)
        raise _Unk('cannot see through %s' % u(e)[:60])
    if isinstance(e, ast.Subscript):
        v = _interp(e.value, is_jc)
        items = _index_items(e.slice)
        real = [it for it in items if not _is_const(it, None) and not _is_const(it, Ellipsis)]
        if len(real) > len(v.axes) or sum(1 for it in items if _is_const(it, Ellipsis)) > 1:
            raise _Unk('too many indices in %s' % u(e)[:60])
        axes, idx, pos = [], dict(v.idx), 0
        for it in items:
            if _is_const(it, Ellipsis):
                fill = len(v.axes) - len(real)
                axes += v.axes[pos:pos + fill]
                pos += fill
            elif _is_const(it, None):
                axes.append(None)
            elif isinstance(it, ast.Slice):
                if not _full_slice(it):
                    raise _Unk('partial slice in %s' % u(e)[:60])
                axes.append(v.axes[pos])
                pos += 1
            else:
                if v.axes[pos] is None:
                    raise _Unk('index into a broadcast axis in %s' % u(e)[:60])
                idx[v.axes[pos]] = it
                pos += 1
        axes += v.axes[pos:]
        return _Val(v.kind, axes, idx, v.num, v.den, v.aligned)
    raise _Unk('cannot see through %s' % u(e)[:60])


def _quot(a, b, is_jc):
    va, vb = _interp(a, is_jc), _interp(b, is_jc)
    if va.kind != 'count' or vb.kind != 'count' or va.idx or vb.idx:
        raise _Unk('quotient of something else than two count arrays')
    if len(vb.axes) > len(va.axes):
        raise _Unk('divisor has more axes than the dividend')
    aligned = all(vb.axes[-1 - k] is None or vb.axes[-1 - k] == va.axes[-1 - k] for k in range(len(vb.axes)))
    return _Val('prob', va.axes, {}, num=list(va.axes), den=list(vb.axes), aligned=aligned)


def _unwrap_float(v):
    while isinstance(v, ast.Call) and call_name(v) in ('float', 'np.float64', 'np.double') and len(v.args) == 1 and \
            not v.keywords and not isinstance(v.args[0], ast.Starred):
        v = v.args[0]
    return v


def _accumulations(fi, fn, OUT):
    """[(acc, store, init)]: every place where a term is accumulated into the
    array `OUT`, in either of the two equivalent shapes
      direct:  OUT[idx] += <term>                      -> (that statement, that statement, None)
      scalar:  s = <const>; ...; s += <term>; ...; OUT[idx] = s   (or OUT[idx] += s)
               -> (the `s += <term>`, the store into OUT, the `s = <const>`)
    The scalar shape is recognised through reaching definitions: the value
    stored is a local name whose definitions at the store are ONE plain
    assignment plus augmented assignments to that name, and nothing else
    reaches the augmented assignments.  None: a store into OUT reads an
    accumulator whose definitions the rule cannot follow."""
    out = []
    for s in walk_local(fn):
        if isinstance(s, ast.AugAssign):
            tgts = [s.target]
        elif isinstance(s, ast.Assign):
            tgts = s.targets
        else:
            continue
        if not any(isinstance(t, ast.Subscript) and isinstance(t.value, ast.Name) and t.value.id == OUT for t in tgts):
            continue
        v = _unwrap_float(s.value)
        if isinstance(v, ast.Name) and v.id in fi.rd.locals:
            defs = fi.rd.defs_at(s, v.id)
            augs = [d for d in defs if isinstance(d, ast.AugAssign) and isinstance(d.target, ast.Name) and d.target.id == v.id]
            if augs:
                inits = [d for d in defs if not any(d is g for g in augs)]
                ok = len(tgts) == 1 and len(inits) == 1 and isinstance(inits[0], ast.Assign) and len(inits[0].targets) == 1 \
                    and isinstance(inits[0].targets[0], ast.Name) and inits[0].targets[0].id == v.id
                allowed = {id(d) for d in augs} | {id(d) for d in inits}
                for g in augs:
                    if any(id(d) not in allowed for d in fi.rd.defs_at(g, v.id)):
                        ok = False
                if not ok:
                    return None
                out += [(g, s, inits[0]) for g in augs]
                continue
        if isinstance(s, ast.AugAssign):
            out.append((s, s, None))
    return out


def _accumulator_scope(ck, rule, mod, fi, F, a, S, sinit):
    """Scalar shape of _accumulations: decide that the running sum is reset
    exactly once per entry of the result.  Entry loops = the loops around the
    accumulation whose variable occurs in the index of the store; the reset
    must sit inside all of them (else the sum of one entry leaks into the
    next) and, when the store is a plain assignment, inside no other loop
    around the accumulation (else the terms of the earlier iterations are
    dropped).  Returns False when the analysis cannot go on."""
    La, LS, LI = (_enclosing_loops(mod, x) for x in (a, S, sinit))
    tgt = S.target if isinstance(S, ast.AugAssign) else S.targets[0]
    idx_names = {n.id for it in _index_items(tgt.slice) for n in ast.walk(_xp(fi, it, S)) if isinstance(n, ast.Name)}
    entry = [L for L in La if isinstance(L.target, ast.Name) and L.target.id in idx_names
             and _loop_of(fi, L.target.id, S) is L]
    if any(nm not in _MODULE_ALIASES and not any(L.target.id == nm for L in entry) for nm in idx_names):
        ck.missing(rule + '.init', 'the index of the store `%s` is not made of the variables of the loops around the '
                   'accumulation' % u(S)[:60])
        return False
    inside = lambda L, Ls: any(L is x for x in Ls)
    con = '%s ... %s ... %s' % (u(sinit), u(a.target) + ' += <term>', u(S)[:80])
    if any(not inside(L, La) for L in LS) or any(not inside(L, LS) and not inside(L, La) for L in LI):
        ck.missing(rule + '.init', 'nesting of the running sum `%s`: its reset, its accumulation and the store `%s` do not '
                   'sit in one loop nest' % (u(a.target), u(S)[:60]))
        return False
    leak = [L for L in entry if not inside(L, LI)]
    if leak:
        ck.bad(rule + '.init', mod, sinit, F, con, 'the running sum `%s` is stored into an entry indexed by `%s` but is reset '
               'outside the loop over `%s`: the terms of one entry are carried into the next' % (
                   u(a.target), leak[0].target.id, leak[0].target.id))
        return False
    extra = [L for L in LI if inside(L, La) and not inside(L, entry)]
    if isinstance(S, ast.Assign):
        if extra:
            if all(inside(L, LS) for L in extra):
                ck.bad(rule + '.init', mod, sinit, F, con, 'the running sum `%s` is reset inside the loop over `%s`, over which '
                       'the terms are summed, and then ASSIGNED to the entry: only the terms of the last iteration survive' % (
                           u(a.target), extra[0].target.id if isinstance(extra[0].target, ast.Name) else u(extra[0].target)))
            else:
                ck.bad(rule + '.init', mod, sinit, F, con, 'the running sum `%s` is reset inside the loop over `%s`, over which '
                       'the terms are summed, and stored outside it: only the terms of the last iteration survive' % (
                           u(a.target), extra[0].target.id if isinstance(extra[0].target, ast.Name) else u(extra[0].target)))
            return False
    else:
        # OUT[idx] += s: every partial sum must be added exactly once
        if len(LS) != len(LI) or any(not inside(L, LI) for L in LS):
            ck.missing(rule + '.init', 'the partial sums `%s` are added to the entry in another loop than the one that '
                       'resets them' % u(a.target))
            return False
    z = const_value(canon(sinit.value))
    if isinstance(z, (int, float)) and not isinstance(z, bool):
        ck.check(z == 0, rule + '.init', mod, sinit, F, u(sinit), 'the running sum of an entry starts at zero',
                 'the terms are ADDED to `%s`: it must start at zero, not %r' % (u(a.target), z))
    else:
        ck.missing(rule + '.init', 'zero initialisation of the running sum `%s` (found `%s`)' % (u(a.target), u(sinit)[:60]))
    return True


_AXNAME = {0: 'first-feature', 1: 'second-feature', 2: 'first-state', 3: 'second-state'}


def d3_axes(ck):
    rule = 'C18.D3.axes'
    F = 'mutual_information'
    mod = ck.repo.mod(MI)
    fn = mod.func(F)
    ck.analysed(mod, fn)
    fi = _fi(mod, fn)
    if not params(fn):
        ck.missing(rule, 'joint-count parameter of mutual_information')
        return
    JC = params(fn)[0]
    # the MI matrix is what is returned; the term is what is accumulated into it
    rets = [r.value for r in returns_of(fn) if r.value is not None]
    if len(rets) != 1 or not isinstance(rets[0], ast.Name):
        ck.missing(rule, 'mutual_information returns one named array')
        return
    OUT = rets[0].id
    found = _accumulations(fi, fn, OUT)
    if found is None or len(found) != 1:
        ck.missing(rule, 'one accumulation `%s[i, j] += <term>` or `s = 0; ...; s += <term>; ...; %s[i, j] = s` (found %s)' % (
            OUT, OUT, 'an accumulator the rule cannot follow' if found is None else len(found)))
        return
    a, S, sinit = found[0]
    lvars = {l.target.id for l in _enclosing_loops(mod, a) if isinstance(l.target, ast.Name)}
    scope = {JC} | lvars
    term = _xp(fi, a.value, a)
    v = classify(term, ['_J * np.log(_J / (_PX * _PY))', 'np.log(_J / (_PX * _PY)) * _J', '_J * np.log(_J / _PX / _PY)',
                        '_J * (np.log(_J) - np.log(_PX * _PY))', '_J * (np.log(_J) - np.log(_PX) - np.log(_PY))',
                        '_J * (np.log(_J) - (np.log(_PX) + np.log(_PY)))'], scope=scope)
    if v[0] == 'match' and not isinstance(a.op, ast.Add):
        v = ('near', 1, None)
    ck.decide(v, rule + '.term', mod, a, F, u(a), 'p(x,y) * log(p(x,y) / (p(x) p(y))) is added',
              'the accumulated term must be p_xy * log(p_xy / (p_x * p_y)), added to the entry')
    if v[0] != 'match':
        return
    J, PX, PY = v[1]['_J'], v[1]['_PX'], v[1]['_PY']
    short = lambda e: u(e) if len(u(e)) < 60 else u(e)[:28] + ' ... ' + u(e)[-28:]

    def is_jc(n):
        return _origin(fi, n.id, a) == JC
    try:
        vj, vx, vy = _interp(J, is_jc), _interp(PX, is_jc), _interp(PY, is_jc)
    except _Unk as e:
        ck.missing(rule, 'a factor of the accumulated term is not recognised as a normalised (marginal of the) joint '
                         'count array: %s' % e)
        return
    if any(w.axes or w.kind != 'prob' for w in (vj, vx, vy)):
        ck.missing(rule, 'the factors of the accumulated term are not single cells of normalised count arrays')
        return
    # ---- the joint factor is a cell of the normalised 4-D counts
    if vj.num != [0, 1, 2, 3] or set(vj.idx) != {0, 1, 2, 3}:
        ck.bad(rule, mod, a, F, short(J), 'the joint probability in the MI term must be a cell [i, j, u, v] of the '
               'normalised joint counts; found count axes %s' % vj.num)
        return
    jidx = {k: _cx(e) for k, e in vj.idx.items()}
    # ---- marginals: which state axis they keep and which loop index indexes it
    n = 0
    kept = []
    for lab, e, w in (('p_x', PX, vx), ('p_y', PY, vy)):
        st = [k for k in w.num if k in (2, 3)]
        if w.num[:2] != [0, 1] or len(w.num) != 3 or len(st) != 1 or set(w.idx) != set(w.num):
            ck.bad(rule, mod, a, F, short(e), 'marginal factor of the MI term must be a cell [i, j, state] of the joint counts '
                   'summed over ONE state axis; found count axes %s' % w.num)
            continue
        n += 1
        s = st[0]
        kept.append(s)
        got = {k: _cx(x) for k, x in w.idx.items()}
        bad = [k for k in got if got[k] != jidx[k]]
        summed = 5 - s
        ck.check(not bad, rule, mod, a, F,
                 '%s = <counts summed over axis %d>[%s] against joint[%s]' % (
                     lab, summed, ', '.join(got[k] for k in sorted(got)), ', '.join(jidx[k] for k in range(4))),
                 'marginal over axis %d is the distribution of the %s and is indexed by the %s index `%s`' % (
                     summed, _AXNAME[s].replace('-state', ' feature'), _AXNAME[s], jidx[s]),
                 'summing axis %d of the joint counts leaves the distribution of the %s; its cell must be taken at the '
                 'index the joint block uses on axis %d (`%s`) and at the same feature pair; found %s' % (
                     summed, _AXNAME[s].replace('-state', ' feature'), s, jidx[s],
                     ', '.join('axis %d indexed by `%s` (joint: `%s`)' % (k, got[k], jidx[k]) for k in bad)))
    ck.floor(rule, n, 2, 'marginal uses in the MI term')
    if len(kept) == 2:
        ck.check(sorted(kept) == [2, 3], rule, mod, a, F, 'marginals of state axes %s' % kept,
                 'one marginal per feature', 'the two marginal factors must be the distributions of the two DIFFERENT features '
                 '(state axes 2 and 3); both keep axis %d' % kept[0])
    # ---- the entry that is accumulated is the entry of the same feature pair
    starget = S.target if isinstance(S, ast.AugAssign) else S.targets[0]
    tgt = [_cx(_xp(fi, x, S)) for x in _index_items(starget.slice)]
    if S is not a:
        # the loop variables named in the store are those the term was indexed with
        for k in (0, 1):
            nm = vj.idx[k]
            if isinstance(nm, ast.Name) and _loop_of(fi, nm.id, a) is not None and _loop_of(fi, nm.id, S) is not _loop_of(fi, nm.id, a):
                ck.missing(rule, 'the store `%s` is outside the loop that binds the %s index `%s` of the accumulated term' % (
                    u(S)[:60], _AXNAME[k], nm.id))
                return
    ck.check(tgt == [jidx[0], jidx[1]], rule, mod, S, F, '%s accumulates joint[%s]' % (u(starget), ', '.join(jidx[k] for k in range(4))),
             'entry (i, j) accumulates the terms of feature pair (i, j)',
             'the entry accumulated must be [%s, %s], the feature pair whose joint block is summed' % (jidx[0], jidx[1]))
    # ---- the accumulator starts at zero
    if sinit is not None and not _accumulator_scope(ck, rule, mod, fi, F, a, S, sinit):
        return
    if isinstance(S, ast.AugAssign) and S is not a and not isinstance(S.op, ast.Add):
        ck.bad(rule + '.init', mod, S, F, u(S), 'the partial sums must be ADDED to the entry')
    ds = fi.rd.defs_at(S, OUT) if isinstance(S, ast.AugAssign) else ()
    site = next(iter(ds)) if len(ds) == 1 else None
    val = fi.def_value(site, OUT) if isinstance(site, (ast.Assign, ast.AnnAssign)) else None
    iv = fi.expand(val) if val is not None else None
    icn = call_name(iv) if isinstance(iv, ast.Call) else None
    if icn in ('np.zeros', 'np.zeros_like'):
        ck.ok(rule + '.init', mod, site, u(site), 'the MI entries start at zero')
    elif icn in ('np.ones', 'np.ones_like', 'np.empty', 'np.empty_like', 'np.full', 'np.full_like') or \
            (isinstance(iv, ast.Call) and isinstance(iv.func, ast.Attribute) and iv.func.attr == 'copy'):
        ck.bad(rule + '.init', mod, site, F, u(site), 'the terms are ADDED to the entries of `%s`: it must start as zeros, not %s' % (OUT, icn or u(iv)[:60]))
    elif isinstance(S, ast.Assign):
        pass                              # every entry is assigned the running sum decided above
    else:
        ck.missing(rule + '.init', 'zero initialisation of the accumulated array `%s`' % OUT)
    # ---- loop ranges: index of count axis k runs over the extent of axis k
    for k in range(4):
        nm = vj.idx[k]
        loop = _loop_of(fi, nm.id, a) if isinstance(nm, ast.Name) else None
        if loop is None:
            ck.missing(rule + '.ranges', 'for loop binding the %s index `%s`' % (_AXNAME[k], u(nm)))
            continue
        it = _xp(fi, loop.iter, a)
        e = _range_extent(it)
        con = 'for %s in %s' % (nm.id, short(it))
        if e is None:
            vv = classify(it, ['range(_X.shape[_K])'], scope=scope)
            ck.decide(('far', 0, None) if vv[0] == 'match' else vv, rule + '.ranges', mod, loop, F, con, '',
                      'the %s index must run over range(<extent of count axis %d>)' % (_AXNAME[k], k))
            continue
        vv = classify(e, ['_X.shape[_K]', 'len(_X)'], scope=scope)
        if vv[0] == 'match':
            try:
                w = _interp(vv[1]['_X'], is_jc)
                kk = const_value(vv[1]['_K']) if '_K' in vv[1] else 0
                if not isinstance(kk, int) or not -len(w.axes) <= kk < len(w.axes):
                    raise _Unk('axis')
                got = w.axes[kk]
            except _Unk:
                vv = ('far', 0, None)
            else:
                ck.check(got == k, rule + '.ranges', mod, loop, F, con,
                         '%s index ranges over count axis %d' % (_AXNAME[k], k),
                         'the %s index `%s` indexes count axis %d but ranges over the extent of %s' % (
                             _AXNAME[k], nm.id, k, 'count axis %s' % got if got is not None else 'a unit axis'))
                continue
        ck.decide(vv, rule + '.ranges', mod, loop, F, con, '',
                  'the %s index must run over the full extent of count axis %d' % (_AXNAME[k], k))
    # ---- cells with a zero probability are skipped (0 log 0 = 0, no division by zero)
    sidx = {jidx[2], jidx[3]}
    atoms = [x for x in _atoms(fi, a) if _atom_names(x) & sidx]
    nonzero = {}
    opaque = False
    for x in atoms:
        if isinstance(x, Cmp):
            if x.op is ast.NotEq and const_value(x.rhs) == 0:
                nonzero[u(x.lhs)] = x.lhs
            elif x.op is ast.NotEq and const_value(x.lhs) == 0:
                nonzero[u(x.rhs)] = x.rhs
            elif x.op is ast.Lt and const_value(x.lhs) == 0:
                nonzero[u(x.rhs)] = x.rhs
            elif x.op is ast.Gt and const_value(x.rhs) == 0:
                nonzero[u(x.lhs)] = x.lhs
            elif const_value(x.lhs) is None and const_value(x.rhs) is None:
                opaque = True             # a test the rule does not interpret
        elif x[2]:
            nonzero[u(x[1])] = x[1]       # truthiness of a float cell = non-zero
        else:
            opaque = True
    need = [(lab, u(e)) for lab, e in (('p_xy', J), ('p_x', PX), ('p_y', PY))]
    # a non-zero test of something that is not a factor of the term (a precomputed mask, a helper): not interpreted
    for t, node in nonzero.items():
        if t not in [w for _, w in need]:
            try:
                _interp(node, is_jc)      # a cell of another array derived from the counts: a wrong operand
            except _Unk:
                opaque = True
    lacking = [lab for lab, t in need if t not in nonzero]
    con = ' and '.join(repr(x) if isinstance(x, Cmp) else ('' if x[2] else 'not ') + u(x[1]) for x in atoms)
    con = (con[:200] or 'no guard on the accumulation')
    if not lacking:
        ck.ok(rule + '.guard', mod, a, con, 'cells with a zero probability are skipped (0 log 0 = 0)')
    elif opaque:
        ck.missing(rule + '.guard', 'guard of the accumulation not recognised: %s' % con)
    else:
        ck.bad(rule + '.guard', mod, a, F, con, 'the term must be skipped when p_xy, p_x or p_y is zero; no dominating '
               'test establishes %s != 0' % ', '.join(lacking))
    # ---- every factor is normalised by the per-pair observation count
    for lab, e, w in (('p_xy', J, vj), ('p_x', PX, vx), ('p_y', PY, vy)):
        want = [0, 1] + [None] * (len(w.num) - 2)
        ck.check(w.den == want and w.aligned, rule + '.normalise', mod, a, F,
                 '%s = counts%s / counts%s' % (lab, w.num, w.den),
                 'normalised by the per-pair observation count broadcast over the state axes',
                 'the divisor of %s must be the total count of the feature pair (all state axes summed away) with '
                 '%d trailing unit axes; found a divisor with count axes %s against a dividend with %s' % (
                     lab, len(w.num) - 2, w.den, w.num))


# ---------------------------------------------------------------------------
# D4 channel-capacity grid

_MIN_FUNCS = {'np.fmin', 'np.minimum'}
_OUTER_MIN = {'np.fmin.outer', 'np.minimum.outer'}
_OTHER_BINARY = {'np.fmax', 'np.maximum', 'np.add', 'np.multiply', 'np.fmax.outer', 'np.maximum.outer', 'np.add.outer',
                 'np.multiply.outer', 'np.subtract', 'np.hypot', 'np.power'}
_COPY_FORMS = ['_P.copy()', 'np.array(_P, copy=True)', 'np.copy(_P)', '_P.astype(_T)', '_P.astype(_T, copy=True)',
               'np.array(_P, dtype=_T)', 'np.array(_P, dtype=_T, copy=True)', '_P + 0', '_P * 1', '+_P', 'copy.copy(_P)',
               'copy.deepcopy(_P)']


def _private_copy_of(fi, name, at, P, depth=4):
    """'copy' if on every path `name` (at statement `at`) holds a fresh copy
    of parameter P; 'alias' if on some path it IS the caller's array (or a
    view of it); None if a definition cannot be seen through."""
    res = set()
    for site in fi.rd.defs_at(at, name):
        if site == 'PARAM':
            res.add('alias')
            continue
        v = fi.def_value(site, name) if site != 'UNBOUND' and depth > 0 else None
        if v is None:
            res.add(None)
            continue
        b = None
        for f in _COPY_FORMS:
            b = match(f, v)
            if b is not None:
                break
        if b is not None and isinstance(b['_P'], ast.Name):
            # a copy of the parameter, of a view of it or of a copy of it
            res.add('copy' if _origin(fi, b['_P'].id, site) == P or
                    _private_copy_of(fi, b['_P'].id, site, P, depth - 1) is not None else None)
            continue
        inner = _passthrough(v)           # np.asarray(mi), mi[...], validated(mi): may share memory
        res.add(_private_copy_of(fi, inner.id, site, P, depth - 1) if inner is not None else None)
    return 'alias' if 'alias' in res else None if None in res or not res else 'copy'


def _meshgrid_element(call, k):
    """(vector expression, axis it varies along) for element k of np.meshgrid(v0, v1, ...)."""
    if call_name(call) not in ('np.meshgrid', 'numpy.meshgrid') or len(call.args) != 2 or \
            any(isinstance(x, ast.Starred) for x in call.args) or k not in (0, 1):
        return None
    ix = kwarg(call, 'indexing')
    mode = 'xy' if ix is None else const_value(ix)
    if mode == 'ij':
        return call.args[k], k
    if mode == 'xy':
        return call.args[k], 1 - k
    return None


def _grid_operand(fi, e, at):
    """(vector expression, axis of the 2-D grid along which it varies)."""
    e = canon(e)
    if isinstance(e, ast.Name):
        defs = fi.rd.defs_at(at, e.id)
        if len(defs) == 1:
            site = next(iter(defs))
            if isinstance(site, ast.Assign) and len(site.targets) == 1 and isinstance(site.targets[0], (ast.Tuple, ast.List)) \
                    and isinstance(site.value, ast.Call):
                names = [t.id if isinstance(t, ast.Name) else None for t in site.targets[0].elts]
                if names.count(e.id) == 1 and len(names) == 2:
                    return _meshgrid_element(fi.expand(site.value), names.index(e.id))
                return None
        return e, 1                              # a plain vector broadcasts along the last axis
    if isinstance(e, ast.Subscript):
        if isinstance(e.value, ast.Call) and isinstance(const_value(e.slice), int):
            return _meshgrid_element(e.value, const_value(e.slice))
        items = _index_items(e.slice)
        if len(items) == 2 and _full_slice(items[0]) and _is_const(items[1], None):
            return e.value, 0                    # v[:, None]
        if (len(items) == 2 and _is_const(items[0], None) and (_full_slice(items[1]) or _is_const(items[1], Ellipsis))) or \
                (len(items) == 1 and _is_const(items[0], None)):
            return e.value, 1                    # v[None, :] / v[None]
    return None


def d4_grid(ck):
    rule = 'C18.D4.grid'
    F = 'channel_capacity_normalization'
    mod = ck.repo.mod(MI)
    fn = mod.func(F)
    ck.analysed(mod, fn)
    fi = _fi(mod, fn)
    if len(params(fn)) < 3:
        ck.missing(rule, 'signature (mi, n_x, n_y)')
        return
    M, NX, NY = params(fn)[:3]
    # ---- the division: np.divide(num, den[, out=]) / num /= den / num / den with num <- mi
    cands = []
    for s in walk_local(fn):
        if isinstance(s, ast.AugAssign) and isinstance(s.op, ast.Div) and isinstance(s.target, ast.Name):
            cands.append((s, s, s.target, s.value, s.target))
    for c in calls_in(fn, 'np.divide', 'np.true_divide'):
        if len(c.args) >= 2:
            cands.append((fi.stmt(c), c, c.args[0], c.args[1], kwarg(c, 'out')))
    for s in walk_local(fn):
        if isinstance(s, (ast.Assign, ast.Return)) and isinstance(s.value, ast.BinOp) and isinstance(s.value.op, ast.Div):
            cands.append((s, s.value, s.value.left, s.value.right, None))
    divs = [x for x in cands if isinstance(x[2], ast.Name) and _origin(fi, x[2].id, x[0]) == M]
    if len(divs) != 1:
        ck.missing(rule + '.divide', 'the division of (a copy of) `%s` by the log state-count grid (found %d candidates)' % (M, len(divs)))
        return
    st, dnode, num, den, out = divs[0]
    # ---- works on a private copy
    if out is None:
        ck.ok(rule + '.copy', mod, dnode, u(dnode), 'the quotient is a new array; the argument is not written')
    elif not isinstance(out, ast.Name):
        ck.missing(rule + '.copy', 'out= operand of the divide is not a name: %s' % u(out))
    else:
        r = _private_copy_of(fi, out.id, st, M)
        if r is None:
            ck.missing(rule + '.copy', 'definition of the in-place divide target `%s` not recognised' % out.id)
        else:
            ck.check(r == 'copy', rule + '.copy', mod, dnode, F, u(dnode),
                     'the in-place divide runs on a private copy of `%s`' % M,
                     '`%s` may still be the caller\'s array when the in-place divide (out=%s) runs: it must be copied first' % (out.id, out.id))
    # ---- divisor = log(grid)
    tup = {}       # names bound by unpacking a pure call (the meshgrid pair)
    for s in walk_local(fn):
        if isinstance(s, ast.Assign) and len(s.targets) == 1 and isinstance(s.targets[0], (ast.Tuple, ast.List)):
            for t in s.targets[0].elts:
                if isinstance(t, ast.Name):
                    tup[t.id] = s
    scope = {M, NX, NY} | set(tup)
    d = fi.expand(den)
    v = classify(d, ['np.log(_G)'], scope=scope)
    ck.decide(v, rule + '.divide', mod, dnode, F, u(dnode), 'mi / log(min states)',
              'entry (i, j) must be divided by the natural log of the per-pair minimum state count (the MI is in nats)')
    if v[0] != 'match':
        return
    G = v[1]['_G']
    # a conversion of the integer grid to floating point before the log keeps every value
    while isinstance(G, ast.Call) and isinstance(G.func, ast.Attribute) and G.func.attr == 'astype' and len(G.args) == 1 and \
            u(G.args[0]) in ('float', 'np.float64', 'np.double', "'float'", "'float64'", "'f8'") and all(k.arg == 'copy' for k in G.keywords):
        G = G.func.value
    if not isinstance(G, ast.Call):
        ck.missing(rule, 'per-pair state-count grid is not built by a call: %s' % u(G)[:100])
        return
    gn = call_name(G) or ''
    gtxt = u(G) if len(u(G)) < 120 else u(G)[:117] + '...'
    if gn in _MIN_FUNCS or gn in _OUTER_MIN:
        ck.ok(rule + '.min', mod, dnode, gtxt, 'per-pair SMALLER state count (%s)' % gn)
    elif gn in _OTHER_BINARY:
        ck.bad(rule + '.min', mod, dnode, F, gtxt, 'the channel capacity of a pair is the log of the SMALLER of the two state '
               'counts: the grid must be built with np.fmin / np.minimum, not %s' % gn)
        return
    else:
        ck.missing(rule + '.min', 'grid function %s not recognised (np.fmin / np.minimum expected)' % gn)
        return
    # ---- orientation of the grid
    ops = None
    if gn in _OUTER_MIN and len(G.args) == 2:
        ops = [(G.args[0], 0), (G.args[1], 1)]
    elif len(G.args) == 1 and isinstance(G.args[0], ast.Starred):
        m = G.args[0].value
        if isinstance(m, ast.Call):
            ops = [_meshgrid_element(m, 0), _meshgrid_element(m, 1)]
    elif len(G.args) == 2 and not any(isinstance(x, ast.Starred) for x in G.args):
        ops = [_grid_operand(fi, x, st) for x in G.args]
    if not ops or any(o is None for o in ops):
        ck.missing(rule, 'operands of the grid are not recognised as vectors spread along one axis: %s' % gtxt)
        return
    roles = {}
    vec_nodes = {}
    for vec, ax in ops:
        o = _origin_of(fi, vec, st)
        if o is None:
            ck.missing(rule, 'grid operand `%s` is not derived from %s / %s' % (u(vec), NX, NY))
            return
        roles.setdefault(o, set()).add(ax)
        vec_nodes[o] = _passthrough(vec)
    why = ', '.join('%s along axis %s' % (k, '/'.join(str(x) for x in sorted(roles[k]))) for k in sorted(roles))
    ck.check(roles == {NX: {0}, NY: {1}}, rule, mod, dnode, F, gtxt,
             'grid axes are (%s, %s), matching mi[i, j] (%s)' % (NX, NY, why),
             'mi has shape (n_features_a, n_features_b) = (len(%s), len(%s)): entry (i, j) must be divided by '
             'log(min(%s[i], %s[j])). The grid built here has %s: a ValueError for '
             'unequal feature counts and a transposed / wrong divisor otherwise' % (NX, NY, NX, NY, why))
    # ---- validation of n_x against mi.shape[0], n_y against mi.shape[1]
    for P, dim in ((NX, 0), (NY, 1)):
        vn = vec_nodes.get(P)
        if vn is None:
            continue
        sites = fi.rd.defs_at(st, vn.id)
        for site in sites:
            if site == 'PARAM' or not isinstance(site, ast.Assign) or not isinstance(site.value, ast.Call) or \
                    'validate' not in (call_name(site.value) or '').split('.')[-1]:
                if site == 'PARAM':
                    ck.bad(rule + '.validate', mod, fn, F, '%s reaches the grid unvalidated' % P,
                           '%s must be validated/broadcast against %s.shape[%d] before the grid is built' % (P, M, dim))
                else:
                    ck.missing(rule + '.validate', 'definition of `%s` reaching the grid is not a validation call' % vn.id)
                continue
            c = site.value
            ext = _xp(fi, c.args[1], site) if len(c.args) == 2 and not c.keywords else None
            b = match('_W.shape[_K]', ext) if ext is not None else None
            if b is None and ext is not None and match('len(_W)', ext) is not None:
                b = dict(match('len(_W)', ext), _K=ast.Constant(value=0))
            if b is None or not isinstance(b['_W'], ast.Name) or _origin_of(fi, c.args[0], site) != P:
                ck.missing(rule + '.validate', 'validation call not recognised: %s' % u(site)[:120])
                continue
            same = _origin(fi, b['_W'].id, site) == M
            if not same:
                ck.missing(rule + '.validate', 'extent in %s is not taken from `%s`' % (u(site)[:100], M))
                continue
            ck.check(const_value(b['_K']) in (dim, dim - 2), rule + '.validate', mod, site, F, u(site),
                     '%s validated against %s.shape[%d]' % (P, M, dim),
                     '%s must be validated/broadcast against %s.shape[%d] (one state count per feature of that side)' % (P, M, dim))


# ---------------------------------------------------------------------------
# D6 joint_counts / mi_matrix

def _bindings(s):
    """[(name, value)] bound by the assignment statement `s`: `x = e`,
    `x = y = e`, and element-wise the parallel form `x, y = e1, e2` (every
    right-hand side is evaluated before any name is bound: origins of the
    operands are to be taken at `s`)."""
    out = []
    if isinstance(s, ast.AnnAssign) and isinstance(s.target, ast.Name) and s.value is not None:
        out.append((s.target.id, s.value))
    if isinstance(s, ast.Assign):
        for t in s.targets:
            if isinstance(t, ast.Name):
                out.append((t.id, s.value))
            elif isinstance(t, (ast.Tuple, ast.List)) and isinstance(s.value, (ast.Tuple, ast.List)) and \
                    len(t.elts) == len(s.value.elts) and \
                    not any(isinstance(x, ast.Starred) for x in list(t.elts) + list(s.value.elts)):
                out += [(te.id, ve) for te, ve in zip(t.elts, s.value.elts) if isinstance(te, ast.Name)]
    return out


def _zip_source(fi, name, at):
    """`name` is bound by `for ... in [enumerate(]zip(A, B, ...)[)]`: the
    expression whose elements it takes."""
    defs = fi.rd.defs_at(at, name)
    if len(defs) != 1:
        return None
    site = next(iter(defs))
    if not isinstance(site, ast.For):
        return None
    tgt, it = site.target, site.iter
    if isinstance(it, ast.Call) and call_name(it) == 'enumerate' and len(it.args) == 1 and \
            isinstance(tgt, (ast.Tuple, ast.List)) and len(tgt.elts) == 2:
        tgt, it = tgt.elts[1], it.args[0]
    if isinstance(tgt, ast.Name):
        return it if tgt.id == name else None
    if isinstance(it, ast.Call) and call_name(it) == 'zip' and isinstance(tgt, (ast.Tuple, ast.List)) and \
            len(tgt.elts) == len(it.args) and not any(isinstance(x, ast.Starred) for x in it.args):
        for t, src in zip(tgt.elts, it.args):
            if isinstance(t, ast.Name) and t.id == name:
                return src
    return None


def _bound_args(call, pnames):
    """The argument expressions of `call` in the order of the callee's
    leading parameters `pnames` (positional arguments and keywords bind the
    same parameters), or None when the binding cannot be read off the call
    (star arguments, unknown / duplicate keywords, a parameter left out)."""
    if any(isinstance(a, ast.Starred) for a in call.args) or any(k.arg is None for k in call.keywords):
        return None
    if len(call.args) > len(pnames):
        return None
    got = dict(zip(pnames, call.args))
    for k in call.keywords:
        if k.arg not in pnames or k.arg in got:
            return None
        got[k.arg] = k.value
    if len(got) != len(pnames):
        return None
    return [got[p] for p in pnames]


def _itemsize_owner(fi, e, at):
    for f in ('_A.dtype.itemsize', '_A.itemsize'):
        b = match(f, e)
        if b is not None and isinstance(b['_A'], ast.Name):
            return _origin(fi, b['_A'].id, at)
    return None


def d6_joint_counts(ck, table_verdict=None):
    rule = 'C18.D6.joint-counts'
    F = 'joint_counts'
    mod = ck.repo.mod(MI)
    fn = mod.func(F)
    ck.analysed(mod, fn)
    fi = _fi(mod, fn)
    if len(params(fn)) < 4:
        ck.missing(rule + '.args', 'signature (X, Y, n_x, n_y)')
        return
    X, Y, NX, NY = params(fn)[:4]
    kc = [c for c in calls_in(fn) if (call_name(c) or '').endswith('matrix_bincount2d')]
    n = 0
    defaults_seen = {NX: 0, NY: 0}
    reported = set()
    xy_calls = []
    all_ok = True
    for c in kc:
        n += 1
        st = fi.stmt(c)
        if len(c.args) != 4 or c.keywords or any(isinstance(x, ast.Starred) for x in c.args):
            ck.missing(rule + '.args', 'kernel call with four positional arguments: %s' % u(c))
            all_ok = False
            continue
        arrs = [_origin_of(fi, x, st) for x in c.args[:2]]
        cnts = [_origin_of(fi, x, st) if not isinstance(x, ast.Name) or x.id not in (NX, NY) else x.id for x in c.args[2:]]
        if None in arrs or None in cnts:
            ck.missing(rule + '.args', 'origin of the kernel arguments in %s' % u(c))
            all_ok = False
            continue
        sides = list(zip(arrs, cnts))
        is_self = sides == [(X, NX), (X, NX)]
        ck.check(sides == [(X, NX), (Y, NY)] or is_self, rule + '.args', mod, c, F,
                 '%s  [arguments hold %s]' % (u(c), ', '.join(arrs + cnts)),
                 'kernel called as (first, second, states of first, states of second)',
                 'matrix_bincount2d(a, b, n_a, n_b) must receive (X, Y, n_x, n_y) (or (X, X, n_x, n_x) '
                 'for self counts): swapped arrays or state counts put counts in the transposed cell / '
                 'check ids against the wrong range')
        if not (sides == [(X, NX), (Y, NY)] or is_self):
            all_ok = False
            continue
        if is_self:
            known = any(isinstance(a, Cmp) and a.op is ast.Is and u(a.lhs) == Y and _is_const(a.rhs, None)
                        for a in _atoms(fi, st, stop=(X, Y)))
            ck.check(known, rule + '.self', mod, c, F, u(c),
                     'self counts only when %s is None' % Y, 'self joint counts must be confined to %s is None' % Y)
        else:
            xy_calls.append((c, st))
        # defaults of the state counts that reach this call
        for k in (0, 1):
            cn = c.args[2 + k]
            if not isinstance(cn, ast.Name):
                continue
            for site in fi.rd.defs_at(st, cn.id):
                if site in ('PARAM', 'UNBOUND') or (id(site), arrs[k]) in reported:
                    continue
                reported.add((id(site), arrs[k]))
                val = fi.def_value(site, cn.id) if isinstance(site, (ast.Assign, ast.AnnAssign)) else None
                if val is None:
                    ck.missing(rule + '.defaults', 'definition of %s at %s' % (cn.id, mod.loc(site)))
                    continue
                defaults_seen[cnts[k]] += 1
                vv = classify(fi.expand(val, stop=(X, Y)), ['_A.max() + 1', '1 + _A.max()', 'int(_A.max()) + 1', '1 + int(_A.max())', 'int(_A.max() + 1)', '_A.max().item() + 1'],
                              scope={X, Y})
                if vv[0] == 'match':
                    src = _origin_of(fi, vv[1]['_A'], site)
                    if src is None:
                        vv = ('far', 0, None)
                    elif src != arrs[k]:
                        vv = ('near', 1, '%s.max() + 1' % arrs[k])
                    else:
                        guarded = any(isinstance(a, Cmp) and a.op is ast.Is and u(a.lhs) == cn.id and _is_const(a.rhs, None)
                                      for a in _atoms(fi, site, stop=(X, Y)))
                        if not guarded:
                            ck.bad(rule + '.defaults', mod, site, F, u(site),
                                   'the default state count overrides a caller-supplied %s: it must only be computed when %s is None' % (cn.id, cn.id))
                            continue
                ck.decide(vv, rule + '.defaults', mod, site, F, u(site), 'default state count = max id + 1 of its own array',
                          'default %s must be %s.max() + 1 when %s is None' % (cn.id, arrs[k], cn.id))
    ck.floor(rule + '.args', n, 2, 'kernel call sites')
    for nm in (NX, NY):
        if n >= 2 and all_ok and defaults_seen[nm] == 0:
            ck.bad(rule + '.defaults', mod, fn, F, nm,
                   'no default for %s reaches the kernel: it must be <its array>.max() + 1 when %s is None' % (nm, nm))
    # ---- dtype harmonisation: a cast to the other side's dtype must be widening
    casts = []
    for s in walk_local(fn):
        for tname, val in _bindings(s):
            if isinstance(val, ast.Call) and isinstance(val.func, ast.Attribute) and val.func.attr == 'astype' and val.args:
                src = _origin_of(fi, val.func.value, s)
                if src in (X, Y):
                    casts.append((s, src, tname, val))
    if not casts:
        ck.missing(rule + '.uptype', 'dtype harmonisation (`<array>.astype(<other>.dtype)`) in joint_counts')
    cast_sides = set()
    unrecognised = False
    for s, src, tname, cval in casts:
        other = Y if src == X else X
        dt, dat = fi.expand(cval.args[0], stop=(X, Y)), s
        while isinstance(dt, ast.Name):
            # a named dtype holds the value it had where it was defined: read its definition there
            ds = fi.rd.defs_at(dat, dt.id)
            site = next(iter(ds)) if len(ds) == 1 else None
            val = fi.def_value(site, dt.id) if isinstance(site, (ast.Assign, ast.AnnAssign)) else None
            if val is None:
                break
            dt, dat = fi.expand(val, stop=(X, Y)), site
        b = match('_O.dtype', dt) if dat is s else None
        common = None
        for f in ('np.promote_types(_A.dtype, _B.dtype)', 'np.result_type(_A, _B)', 'np.result_type(_A.dtype, _B.dtype)'):
            common = common or match(f, dt)
        if common is not None and {_origin_of(fi, common['_A'], dat), _origin_of(fi, common['_B'], dat)} == {X, Y}:
            cast_sides.add(src)
            ck.ok(rule + '.uptype', mod, s, u(s), 'cast to the common (promoted) type of both arrays')
            continue
        if b is None or _origin_of(fi, b['_O'], s) is None:
            if table_verdict == 'ok':
                # e.g. a common type that is rebound on one path (promote_types, then a fallback for uint64 + signed)
                cast_sides.add(src)
                ck.ok(rule + '.uptype', mod, s, u(s), 'target type decided by the element-type truth table (%s.ids-preserved)' % (rule + '.uptype'))
                continue
            if table_verdict != 'bad':            # 'bad': the truth table evaluated this target type and reported the cast
                ck.missing(rule + '.uptype', 'target dtype of the cast not recognised: %s' % u(s))
            unrecognised = True
            continue
        if _origin_of(fi, b['_O'], s) == src:
            continue                                   # a cast to its own dtype changes nothing
        cast_sides.add(src)
        verdict, opaque, seen = None, False, []
        for a in _atoms(fi, s, stop=(X, Y)):
            if isinstance(a, Cmp):
                less = a.as_less()
                if less is None:
                    continue
                small, strict, big = less
                so, bo = _itemsize_owner(fi, small, s), _itemsize_owner(fi, big, s)
                if {so, bo} != {X, Y}:
                    continue
                seen.append(repr(a))
                if so == src and bo == other:
                    verdict = verdict or 'widening'
                else:
                    verdict = 'narrowing'
            elif 'dtype' in u(a[1]) or 'can_cast' in u(a[1]):
                opaque = True
        con = '%s under %s' % (u(s), ' and '.join(seen) or 'no itemsize test')
        if verdict == 'widening':
            ck.ok(rule + '.uptype', mod, s, con, 'the array with the smaller itemsize is cast to the wider dtype')
        elif verdict is None and opaque:
            ck.missing(rule + '.uptype', 'guard of the cast not recognised: %s' % con)
            unrecognised = True
        else:
            ck.bad(rule + '.uptype', mod, s, F, con,
                   'when dtypes differ the NARROWER array must be cast up to the wider dtype; here %s is cast to the dtype of '
                   '%s %s: casting the wider one down wraps state ids that do not fit (counts land in another cell)' % (
                       src, other, 'although %s' % ' and '.join(seen) if seen else 'without a test that its itemsize is the smaller one'))
        # the cast result is what the kernel receives
        k = 0 if src == X else 1
        for c, st in xy_calls:
            a = c.args[k]
            used = isinstance(a, ast.Name) and a.id == tname and s in fi.rd.defs_at(st, a.id)
            ck.check(used, rule + '.uptype', mod, c, F, '%s after %s' % (u(c), u(s)), 'the up-typed array is passed to the kernel',
                     'the result of `%s` does not reach the kernel call: the arrays keep different dtypes' % u(s))
    if casts and cast_sides and cast_sides != {X, Y} and not unrecognised:
        ck.bad(rule + '.uptype', mod, casts[0][0], F, 'casts of %s only' % ', '.join(sorted(cast_sides)),
               'only one of the two arrays is ever cast: when the other one is the narrower, the dtypes stay different '
               '(or the wider array is cast down)')
    # ---- mi_matrix: pooled counts
    rule_p = rule + '.pooled'
    G = 'mi_matrix'
    fm = mod.func(G)
    ck.analysed(mod, fm)
    fim = _fi(mod, fm)
    if len(params(fm)) < 4:
        ck.missing(rule_p, 'signature (Xs, Ys, n_x, n_y)')
        return
    XS, YS, MX, MY = params(fm)[:4]
    jcalls = [c for c in calls_in(fm) if (call_name(c) or '').split('.')[-1] == 'joint_counts']
    # positional arguments and keywords bind the same parameters of joint_counts
    jargs = _bound_args(jcalls[0], params(fn)[:4]) if len(jcalls) == 1 else None
    if jargs is None:
        ck.missing(rule_p, 'one call joint_counts(X, Y, <states>, <states>) in mi_matrix')
        return
    jc_call = jcalls[0]
    jst = fim.stmt(jc_call)
    srcs = [_zip_source(fim, a.id, jst) if isinstance(a, ast.Name) else None for a in jargs[:2]]
    if any(x is None for x in srcs):
        ck.missing(rule_p, 'trajectory arguments of %s are not loop variables over zip(%s, %s)' % (u(jc_call), XS, YS))
    else:
        ck.check([u(x) for x in srcs] == [XS, YS], rule_p, mod, jc_call, G, '%s with (X, Y) from (%s)' % (u(jc_call), ', '.join(u(x) for x in srcs)),
                 'each trajectory pair is counted as (first, second)', 'joint_counts must receive the trajectory of %s first and of %s second' % (XS, YS))
    for a, p in zip(jargs[2:], (MX, MY)):
        vv = classify(fim.expand(a, stop=(MX, MY)), ['%s.max()' % p, 'int(%s.max())' % p], scope={MX, MY})
        ck.decide(vv, rule_p, mod, jc_call, G, '%s: %s' % (u(jc_call), u(a)), 'every trajectory counted with the same (max) state count of its side',
                  'the state-count argument must be np.max(%s): all trajectories must be counted into tables of one shape, with the '
                  'state count of the matching side' % p)
    mic = [c for c in calls_in(fm) if (call_name(c) or '').split('.')[-1] == 'mutual_information']
    if len(mic) != 1 or len(mic[0].args) != 1 or not isinstance(mic[0].args[0], ast.Name):
        ck.missing(rule_p, 'one call mutual_information(<pooled counts>) in mi_matrix')
        return
    mst = fim.stmt(mic[0])
    POOL = mic[0].args[0].id
    ck.check(not fim.cfg.reachable(mst, mst) and not fim.cfg.reachable(mst, jst), rule_p, mod, mic[0], G, u(mic[0]),
             'MI computed once, after all trajectories were counted',
             'mutual_information must be computed once from the pooled counts, after the counting loop')
    def _unwidened(e):
        """(table expression, element type it is converted to or None)"""
        if isinstance(e, ast.Call) and isinstance(e.func, ast.Attribute) and e.func.attr == 'astype' and len(e.args) == 1 and \
                all(k.arg == 'copy' for k in e.keywords):
            return e.func.value, e.args[0]
        if isinstance(e, ast.Call) and call_name(e) in ('np.asarray', 'np.array') and len(e.args) == 1 and kwarg(e, 'dtype') is not None and \
                all(k.arg in ('dtype', 'copy') for k in e.keywords):
            return e.args[0], kwarg(e, 'dtype')
        return e, None
    is_count = lambda e, at: (lambda t: isinstance(t, ast.Name) and fim.resolve(t) is jc_call or t is jc_call)(_unwidened(e)[0])
    adds, plain, other = [], [], []
    for site in fim.rd.defs_at(mst, POOL):
        if site in ('PARAM', 'UNBOUND'):
            other.append(site)
        elif isinstance(site, ast.AugAssign):
            (adds if isinstance(site.op, ast.Add) and is_count(site.value, site) else other).append(site)
        elif isinstance(site, ast.Assign):
            val = fim.def_value(site, POOL)
            if val is not None and is_count(val, site):
                plain.append(site)
            elif val is not None and (_is_const(val, None) or (isinstance(val, ast.Call) and call_name(val) in ('np.zeros', 'np.zeros_like'))):
                pass                      # neutral start of the running total
            elif isinstance(val, ast.BinOp) and isinstance(val.op, ast.Add) and \
                    {True} == {isinstance(x, ast.Name) and x.id == POOL or is_count(x, site) for x in (val.left, val.right)} and \
                    any(isinstance(x, ast.Name) and x.id == POOL for x in (val.left, val.right)):
                adds.append(site)
            else:
                other.append(site)
        else:
            other.append(site)
    if adds and not other:
        ck.ok(rule_p, mod, adds[0], u(adds[0]), 'counts pooled by addition before the MI is computed')
        _pooled_capacity(ck, mod, fm, fim, G, POOL, plain, adds, _unwidened)
    elif other:
        ck.missing(rule_p, 'a definition of the pooled counts `%s` is not recognised (%s)' % (
            POOL, '; '.join(u(s)[:60] if not isinstance(s, str) else s for s in other)))
    else:
        ck.bad(rule_p, mod, plain[0] if plain else mic[0], G, '; '.join(u(s) for s in plain) or POOL,
               'the counts of the trajectories are never added: `%s` is only ever (re)bound to the counts of one trajectory, '
               'so the MI is computed from the last trajectory alone instead of the pooled counts' % POOL)
    # ---- the (re)binding of the running total to ONE trajectory's table is confined to the first trajectory
    loops = _enclosing_loops(mod, jst)
    idx0 = {L.target.elts[0].id for L in loops if isinstance(L.target, (ast.Tuple, ast.List)) and len(L.target.elts) == 2
            and isinstance(L.target.elts[0], ast.Name) and isinstance(L.iter, ast.Call) and call_name(L.iter) == 'enumerate'
            and len(L.iter.args) == 1 and not L.iter.keywords}

    def no_total_yet(a):
        """True: the atom says that no running total exists yet (first
        trajectory); False: that one exists; None: it says something else."""
        if isinstance(a, Cmp):
            if a.op in (ast.Is, ast.IsNot, ast.Eq, ast.NotEq) and u(a.lhs) == POOL and _is_const(a.rhs, None):
                return a.op in (ast.Is, ast.Eq)
            for x, k, op in ((a.lhs, a.rhs, a.op), (a.rhs, a.lhs, _FLIP_OP.get(a.op))):
                if isinstance(x, ast.Name) and x.id in idx0 and type(const_value(k)) is int and op in _NUM_HOLDS:
                    h = [_NUM_HOLDS[op](i, const_value(k)) for i in range(0, 4)]
                    if h[0] and not any(h[1:]):
                        return True
                    if not h[0] and all(h[1:]):
                        return False
            return None
        e = a[1]
        if isinstance(e, ast.Call) and call_name(e) == 'hasattr' and len(e.args) == 2 and u(e.args[0]) == POOL:
            return not a[2]
        return None
    for site in plain:
        if not any(fim._within(site, L) for L in loops):
            continue                      # bound before the loop: nothing to overwrite
        gs = [no_total_yet(a) for a in _atoms(fim, site, stop=(POOL,))]
        if True in gs:
            ck.ok(rule_p, mod, site, u(site), 'the total starts from one trajectory\'s table only while no total exists')
        elif False in gs:
            ck.bad(rule_p, mod, site, G, 'the running total is (re)bound to one trajectory\'s counts when a total already exists',
                   '`%s` executes under a condition that says a running total ALREADY exists: the counts pooled so far are replaced by '
                   'those of the current trajectory (and the branch that adds is entered while there is no total yet)' % u(site)[:80])
        else:
            ck.missing(rule_p, 'condition under which `%s` starts the running total inside the counting loop' % u(site)[:80])
    # ---- a table is rejected only when its shape differs from the running total's
    cnames = sorted({t.id for s in walk_local(fm) if isinstance(s, ast.Assign) and s.value is jc_call
                     for t in s.targets if isinstance(t, ast.Name)})
    if cnames:
        sfacts = [_Fact('scalar', '%s.shape' % POOL, ast.Eq, '%s.shape' % t) for t in cnames]
        _check_rejections(ck, 'C18.D10.rejections', mod, fm, fim, sfacts, keep=(POOL,) + tuple(cnames),
                          extra=lambda a: None if no_total_yet(a) is None else 'partial')
    cc = [c for c in calls_in(fm) if (call_name(c) or '').split('.')[-1] == 'channel_capacity_normalization']
    if len(cc) != 1 or len(cc[0].args) != 3 or cc[0].keywords:
        ck.missing(rule_p, 'one call channel_capacity_normalization(mi, n_x, n_y) in mi_matrix')
        return
    cst = fim.stmt(cc[0])
    _normalize_flag(ck, rule_p + '.normalize-flag', mod, fm, fim, G, cc[0], 4)
    a0 = cc[0].args[0]
    from_mi = isinstance(a0, ast.Name) and fim.resolve(a0) is mic[0]
    got = [u(x) for x in cc[0].args[1:]]
    if not from_mi:
        ck.missing(rule_p, 'first argument of %s is not the result of mutual_information' % u(cc[0]))
    else:
        stable = all(fim.rd.defs_at(cst, p) == {'PARAM'} for p in (MX, MY))
        ck.check(got == [MX, MY] and stable, rule_p, mod, cc[0], G, u(cc[0]), 'normalised with (mi, n_x, n_y)',
                 'channel_capacity_normalization(mi, %s, %s) expected: the state counts of the first side go with axis 0 of mi' % (MX, MY))


def d6_unit_axis(ck):
    """The kernel takes 2-D arrays (frames x features).  joint_counts lifts a
    1-D trajectory (one feature) by adding a unit axis: that axis must be the
    TRAILING one (the frames stay on axis 0 - a leading unit axis turns n
    frames of one feature into one frame of n features, which the kernel's
    length check rejects or counts as a single observation) and it may only
    be added to an array that has exactly one dimension (added to a 2-D
    array it makes it 3-D, left out for a 1-D array the kernel receives a
    vector: both raise for every input)."""
    rule = 'C18.D6.joint-counts.unit-axis'
    F = 'joint_counts'
    mod = ck.repo.mod(MI)
    fn = mod.func(F)
    fi = _fi(mod, fn)
    ids = params(fn)[:2]
    for s in walk_local(fn):
        for tname, val in _bindings(s):
            if not isinstance(val, ast.Subscript) or not _unit_index(val.slice):
                continue
            items = _index_items(val.slice)
            if not any(_is_const(i, None) for i in items) or not isinstance(val.value, ast.Name):
                continue
            src = _origin(fi, val.value.id, s)
            if src not in ids or sum(1 for i in items if _is_const(i, None)) != 1:
                continue
            # ---- where the unit axis goes
            if _is_const(items[-1], None) and len(items) > 1:
                ck.ok(rule, mod, s, u(s), 'the unit axis is the trailing one: frames stay on axis 0')
            elif _is_const(items[0], None):
                ck.bad(rule, mod, s, F, u(s), 'a 1-D trajectory of n frames must become an (n, 1) array (frames x one feature); `%s` puts the '
                       'unit axis FIRST: one frame with n features' % u(val))
                continue
            else:
                ck.missing(rule, 'position of the unit axis in `%s`' % u(s)[:80])
                continue
            # ---- only for 1-D arrays
            want = 'len(%s.shape)' % val.value.id
            verdicts = []
            for a in _atoms(fi, s, stop=tuple(ids)):
                if not isinstance(a, Cmp) or a.op not in _NUM_HOLDS:
                    continue
                for x, k, op in ((a.lhs, a.rhs, a.op), (a.rhs, a.lhs, _FLIP_OP[a.op])):
                    if _shape_text(x) == want and type(_num(k)) is int:
                        h = {n: _NUM_HOLDS[op](n, _num(k)) for n in (1, 2)}
                        verdicts.append((h[1] and not h[2], a))
            if not verdicts:
                ck.missing(rule, 'the test of the number of dimensions of `%s` that guards `%s`' % (val.value.id, u(s)[:60]))
            elif all(v for v, _ in verdicts):
                ck.ok(rule, mod, s, '%s under %r' % (u(s), verdicts[0][1]), 'the unit axis is added to 1-D arrays only')
            else:
                a = [a for v, a in verdicts if not v][0]
                ck.bad(rule, mod, s, F, '%s under %r' % (u(s), a), 'the unit axis must be added exactly when the array is 1-D; under `%r` a '
                       '2-D trajectory (frames x features) becomes 3-D and/or a 1-D one stays a vector: the 2-D kernel rejects both' % a)


# ---------------------------------------------------------------------------
# D7 entropy

def _unwrap_where(idx):
    """np.where(m) / np.nonzero(m) / m.nonzero() -> m."""
    if isinstance(idx, ast.Call):
        cn = call_name(idx) or ''
        if cn in ('np.where', 'np.nonzero', 'numpy.where', 'numpy.nonzero') and len(idx.args) == 1 and not idx.keywords:
            return idx.args[0]
        if isinstance(idx.func, ast.Attribute) and idx.func.attr == 'nonzero' and not idx.args:
            return idx.func.value
    return idx


_UNKI = type('UnknownInt', (), {'__repr__': lambda self: '<unknown>'})()


def _ndim_value(fi, e, at, arrays, k, depth=4):
    """Value of the small integer expression / test `e` (evaluated at
    statement `at`) under the hypothesis that every array in `arrays` (names of
    parameters) has k dimensions; _UNKI when it depends on anything else.  A
    name is followed through the straight-line / if-else code that assigns it
    (_small_int_at).  Only literals, len(A.shape) / A.ndim, + - comparisons,
    not/and/or and conditional expressions are evaluated - the rule's own
    arithmetic on the abstract value `k`, nothing of the analysed code runs."""
    def ev(x):
        if isinstance(x, ast.Constant):
            return x.value if type(x.value) in (int, bool) else _UNKI
        if isinstance(x, ast.Call) and call_name(x) == 'len' and len(x.args) == 1 and not x.keywords and \
                isinstance(x.args[0], ast.Attribute) and x.args[0].attr == 'shape' and isinstance(x.args[0].value, ast.Name) \
                and x.args[0].value.id in arrays:
            return k
        if isinstance(x, ast.Name):
            return _small_int_at(fi, x.id, at, arrays, k, depth - 1) if depth > 0 and x.id in fi.rd.locals and x.id not in arrays else _UNKI
        if isinstance(x, ast.UnaryOp):
            v = ev(x.operand)
            if v is _UNKI:
                return v
            return -v if isinstance(x.op, ast.USub) else (not v) if isinstance(x.op, ast.Not) else v if isinstance(x.op, ast.UAdd) else _UNKI
        if isinstance(x, ast.BinOp) and isinstance(x.op, (ast.Add, ast.Sub)):
            a, b = ev(x.left), ev(x.right)
            if a is _UNKI or b is _UNKI:
                return _UNKI
            return a + b if isinstance(x.op, ast.Add) else a - b
        if isinstance(x, ast.Compare) and len(x.ops) == 1 and type(x.ops[0]) in _NUM_HOLDS:
            a, b = ev(x.left), ev(x.comparators[0])
            return _UNKI if a is _UNKI or b is _UNKI else _NUM_HOLDS[type(x.ops[0])](a, b)
        if isinstance(x, ast.BoolOp):
            vs = [ev(v) for v in x.values]
            if any(v is _UNKI for v in vs):
                return _UNKI
            return all(vs) if isinstance(x.op, ast.And) else any(vs)
        if isinstance(x, ast.IfExp):
            t = ev(x.test)
            return _UNKI if t is _UNKI else ev(x.body if t else x.orelse)
        return _UNKI
    alts = _input_exprs(fi, e, at, keep=tuple(n.id for n in ast.walk(e) if isinstance(n, ast.Name) and n.id in fi.rd.locals
                                              and len(fi.rd.defs_at(at, n.id)) > 1))
    if len(alts) != 1:
        return _UNKI
    x = _ShapeSpelling().visit(copy.deepcopy(alts[0]))
    return ev(x)


def _small_int_at(fi, name, at, arrays, k, depth=3):
    """Value of the local `name` when control reaches statement `at`, for
    k-dimensional `arrays`: the function body is followed in order; an `if`
    whose test is decided by k takes that arm, an undecided one must give the
    same value on both arms; a loop / try that assigns the name gives
    _UNKI.  None: `at` is not reached for this k."""
    def stores(s):
        return any(isinstance(n, ast.Name) and n.id == name and isinstance(n.ctx, ast.Store) for n in ast.walk(s))

    def run(stmts, val):
        for s in stmts:
            if s is at:
                return val, True
            inside = fi._within(at, s)
            if isinstance(s, (ast.Assign, ast.AnnAssign)) and stores(s):
                v = fi.def_value(s, name)
                val = _ndim_value(fi, v, s, arrays, k, depth) if v is not None else _UNKI
            elif isinstance(s, ast.If):
                t = _ndim_value(fi, s.test, s, arrays, k, depth)
                arms = [s.body, s.orelse] if t is _UNKI else [s.body] if t else [s.orelse]
                if inside:
                    arm = s.body if any(x is at or fi._within(at, x) for x in s.body) else s.orelse
                    if not any(arm is a for a in arms):
                        return None, True             # `at` sits in the arm that is not taken for this k
                    return run(arm, val)
                res = [run(a, val)[0] for a in arms]
                val = res[0] if all(r is not _UNKI and r == res[0] for r in res) else _UNKI
            elif isinstance(s, (ast.With, ast.AsyncWith)):
                val, hit = run(s.body, val)
                if hit:
                    return val, True
            elif inside:
                return _UNKI, True
            elif stores(s):
                val = _UNKI
        return val, False
    val, hit = run(fi.fn.body, _UNKI)
    return val if hit else _UNKI


def _entropy_rebindings(ck, rule, mod, fn, fi, F, p, at):
    """The entropy formula is decided over the NAME of the distribution; every
    rebinding of that name that reaches the formula must therefore keep the
    distribution: a copy / re-typed copy, or the normalisation `p / p.sum()`
    (the identity on a distribution, which sums to 1).  The reciprocal
    `p.sum() / p` is recognised as a wrong content."""
    def total_of(e):
        while isinstance(e, ast.Call) and call_name(e) in ('float', 'np.float64') and len(e.args) == 1 and not e.keywords:
            e = e.args[0]
        if isinstance(e, ast.Call) and isinstance(e.func, ast.Attribute) and e.func.attr == 'sum' and not e.args and not e.keywords:
            n = _same_shape_passthrough(e.func.value)
            return n is not None and n.id == p
        return False

    def is_p(e):
        n = _same_shape_passthrough(e)
        return n is not None and n.id == p
    for site in sorted((x for x in fi.rd.defs_at(at, p) if x not in ('PARAM', 'UNBOUND')), key=lambda x: getattr(x, 'lineno', 0)):
        if isinstance(site, ast.AugAssign) and isinstance(site.target, ast.Name):
            v = canon(fi.expand(site.value, stop=(p,)))
            if isinstance(site.op, ast.Div) and total_of(v):
                ck.ok(rule, mod, site, u(site), 'normalised by its sum')
            else:
                ck.missing(rule, 'in-place update `%s` of the distribution before the entropy sum' % u(site)[:80])
            continue
        v = fi.def_value(site, p) if isinstance(site, (ast.Assign, ast.AnnAssign)) else None
        if v is None:
            ck.missing(rule, 'definition of `%s` at %s that reaches the entropy sum' % (p, mod.loc(site)))
            continue
        v = canon(fi.expand(v, stop=(p,)))
        if is_p(v):
            ck.ok(rule, mod, site, u(site), 'a copy of the distribution')
            continue
        num = den = None
        if isinstance(v, ast.BinOp) and isinstance(v.op, ast.Div):
            num, den = v.left, v.right
        elif isinstance(v, ast.Call) and call_name(v) in ('np.divide', 'np.true_divide') and len(v.args) == 2 and not v.keywords:
            num, den = v.args
        if num is not None and is_p(num) and total_of(den):
            ck.ok(rule, mod, site, u(site), 'the distribution divided by its sum (the identity on a distribution)')
        elif num is not None and total_of(num) and is_p(den):
            ck.bad(rule, mod, site, F, u(site), 'the distribution is replaced by `sum / p`, the reciprocal of the normalisation `p / sum`: '
                   'the entropy is then computed from 1/p_i instead of p_i')
        else:
            ck.missing(rule, 'rebinding `%s` of the distribution before the entropy sum is neither a copy nor `p / p.sum()`' % u(site)[:80])


def _kl_sum_axis(ck, rule, mod, fn, fi, F, L, P, Q):
    """The divergence of one distribution is the sum of its terms over the
    VALUES of that distribution: the last axis of the term array (axis 0 of a
    1-D P, axis 1 of a 2-D P whose rows are distributions).  A sum over the
    other axis adds up one term of each distribution - such a partial sum
    can be negative - and an axis beyond the array's rank raises for every
    input.  Decided for k = 1 and k = 2 dimensions by following the value of
    the axis expression through the code that selects it."""
    sums = [c for c in calls_in(fn) if isinstance(c.func, ast.Attribute) and c.func.attr == 'sum'
            and isinstance(c.func.value, ast.Name) and c.func.value.id == L]
    for c in sums:
        ax = kwarg(c, 'axis') or (c.args[0] if c.args and not isinstance(c.args[0], ast.Starred) else None)
        st = fi.stmt(c)
        if ax is None or _is_const(ax, None):
            ck.ok(rule, mod, c, u(c), 'all terms are summed')
            continue
        got = {}
        for k in (1, 2):
            got[k] = _ndim_value(fi, ax, st, (P, Q), k)
        con = '%s with axis = %s' % (u(c), ', '.join('%s for %d-D input' % (got[k], k) for k in (1, 2)))
        if any(v is _UNKI or v is None or type(v) is not int for v in got.values()):
            ck.missing(rule, 'axis of the summation `%s` of the relative-entropy terms as a function of the rank of %s' % (u(c)[:80], P))
            continue
        wrong = [k for k in (1, 2) if not (-k <= got[k] < k) or got[k] % k != k - 1]
        ck.check(not wrong, rule, mod, c, F, con, 'the terms of one distribution (last axis) are summed',
                 'the terms p log(p/q) must be summed over the values of each distribution, i.e. the LAST axis of `%s`; for %s the '
                 'sum runs over axis %s: %s' % (L, ' and '.join('%d-D input' % k for k in wrong), ', '.join(str(got[k]) for k in wrong),
                                               'an axis the array does not have (AxisError for every such input)'
                                               if all(not (-k <= got[k] < k) for k in wrong) else
                                               'the axis that enumerates the distributions - one term of every distribution is added up, a '
                                               'partial sum that can be negative and is not zero for equal distributions only'))



def d7_entropy(ck):
    rule = 'C18.D7.entropy'
    mod = ck.repo.mod(EN)
    F = 'kl_divergence'
    fn = mod.func(F)
    ck.analysed(mod, fn)
    fi = _fi(mod, fn)
    if len(params(fn)) < 2:
        ck.missing(rule, 'signature (P, Q) of kl_divergence')
    else:
        P, Q = params(fn)[:2]
        forms = ['%s * np.log(%s / %s)' % (P, P, Q), 'np.log(%s / %s) * %s' % (P, Q, P)]
        # the term array: the one whose cells are reset to 0 / that is defined as p log(p/q)
        zero = [(s, t) for s, t in subscript_stores(fn) if isinstance(s, ast.Assign) and isinstance(t.value, ast.Name)
                and const_value(fi.expand(s.value)) == 0 and not isinstance(const_value(fi.expand(s.value)), bool)]
        terms = [s for s in walk_local(fn) if isinstance(s, ast.Assign) and len(s.targets) == 1 and isinstance(s.targets[0], ast.Name)
                 and classify(fi.expand(s.value, stop=(P, Q)), forms)[0] == 'match']
        names = {t.value.id for s, t in zero} | {s.targets[0].id for s in terms}
        if len(names) != 1:
            ck.missing(rule, 'the array of p log(p/q) terms of kl_divergence (candidates: %s)' % (sorted(names) or 'none'))
        else:
            L = next(iter(names))
            ldefs = [s for s in walk_local(fn) if isinstance(s, ast.Assign) and any(isinstance(t, ast.Name) and t.id == L for t in s.targets)]
            if len(ldefs) != 1:
                ck.missing(rule, 'one definition of the term array `%s`' % L)
            else:
                v = classify(fi.expand(ldefs[0].value, stop=(P, Q)), forms, scope={P, Q})
                ck.decide(v, rule, mod, ldefs[0], F, u(ldefs[0]), 'p log(p/q)', 'relative entropy term must be %s * np.log(%s / %s)' % (P, P, Q))
            mine = [(s, t) for s, t in zero if t.value.id == L]
            if not mine:
                masked = [c for c in calls_in(fn) if (kwarg(c, 'where') is not None or (call_name(c) == 'np.where' and len(c.args) == 3)
                                                      or call_name(c) in ('np.nan_to_num', 'np.nansum', 'scipy.special.xlogy', 'scipy.special.rel_entr'))
                          and ({L, P, Q} & {x.id for x in ast.walk(c) if isinstance(x, ast.Name)})]
                if masked:
                    ck.missing(rule, 'treatment of the undefined 0 log 0 cells of `%s` not recognised' % L)
                else:
                    ck.bad(rule, mod, ldefs[0] if ldefs else fn, F, 'nan->0', 'undefined 0 log 0 cells must be set to zero: '
                           'no store `%s[isnan(%s)] = 0` found, the divergence is NaN whenever P has a zero' % (L, L))
            for s, t in mine:
                m = _unwrap_where(canon(fi.expand(t.slice)))
                v = classify(m, ['np.isnan(%s)' % L, '%s != %s' % (L, L)], scope={L})
                ck.decide(v, rule, mod, s, F, '%s[%s] = 0' % (L, _cx(m)), '0 log 0 = 0: exactly the NaN cells are zeroed',
                          'exactly the undefined (NaN) 0 log 0 cells must be set to zero; a wider mask also drops the +inf of '
                          'cells with P > 0 and Q == 0 (the divergence must be infinite there), a narrower one leaves NaN')
                sums = [c for c in calls_in(fn) if isinstance(c.func, ast.Attribute) and c.func.attr == 'sum'
                        and isinstance(c.func.value, ast.Name) and c.func.value.id == L]
                if not sums:
                    ck.missing(rule, 'summation of the term array `%s`' % L)
                else:
                    ck.check(all(fi.cfg.dominates(s, fi.stmt(c)) for c in sums), rule, mod, s, F, '%s before %s' % (u(s)[:80], u(sums[0])),
                             'cells are zeroed before the terms are summed', 'the undefined cells must be zeroed BEFORE the terms are summed')
            _kl_sum_axis(ck, rule + '.axis', mod, fn, fi, F, L, P, Q)
    F = 'shannon_entropy'
    fs = mod.func(F)
    ck.analysed(mod, fs)
    fis = _fi(mod, fs)
    rstm = [r for r in returns_of(fs) if r.value is not None]
    rets = [r.value for r in rstm]
    if len(rets) != 1 or not params(fs):
        ck.missing(rule, 'shannon_entropy returns one value')
        return
    p = params(fs)[0]
    _entropy_rebindings(ck, rule + '.normalise', mod, fs, fis, F, p, rstm[0])
    val = _xp(fis, rets[0], rstm[0], stop=(p,))
    pats = []
    for mask in ('0 < %s' % p, '%s != 0' % p):
        pats += ['-(%s * np.log(%s, where=%s, out=_O)).sum()' % (p, p, mask), '-(np.log(%s, where=%s, out=_O) * %s).sum()' % (p, mask, p),
                 '-1 * (%s * np.log(%s, where=%s, out=_O)).sum()' % (p, p, mask), '(-%s * np.log(%s, where=%s, out=_O)).sum()' % (p, p, mask)]
    v = classify(val, pats, scope={p})
    ck.decide(v, rule, mod, rets[0], F, _cx(val)[:160], '-sum p log p with log p taken where p > 0',
              'entropy must be -sum(p * log p) with the log evaluated only where p > 0 (0 log 0 = 0)')


# ---------------------------------------------------------------------------
# Rules added for the findings of the fourth hunt (notes/findings/info)

def _fold_int(node):
    """Value of an integer expression built from literals (2**32, 1 << 32,
    2**32 - 1, ...); None for anything else.  Constant folding only."""
    if isinstance(node, ast.Constant):
        return node.value if type(node.value) is int else None
    if isinstance(node, ast.UnaryOp) and isinstance(node.op, (ast.USub, ast.UAdd)):
        v = _fold_int(node.operand)
        return None if v is None else (-v if isinstance(node.op, ast.USub) else v)
    if isinstance(node, ast.BinOp):
        a, b = _fold_int(node.left), _fold_int(node.right)
        if a is None or b is None:
            return None
        if isinstance(node.op, ast.Add):
            return a + b
        if isinstance(node.op, ast.Sub):
            return a - b
        if isinstance(node.op, ast.Mult):
            return a * b
        if isinstance(node.op, ast.Pow) and 0 <= b <= 128:
            return a ** b
        if isinstance(node.op, ast.LShift) and 0 <= b <= 128:
            return a << b
    return None


_C_ELEM = {'np.uint8_t': (8, False), 'np.uint16_t': (16, False), 'np.uint32_t': (32, False), 'np.uint64_t': (64, False),
           'np.int8_t': (8, True), 'np.int16_t': (16, True), 'np.int32_t': (32, True), 'np.int64_t': (64, True)}
_NP_ELEM = {k.replace('_t', ''): v for k, v in _C_ELEM.items()}
_NP_ELEM.update({k.replace('np.', 'numpy.'): v for k, v in list(_NP_ELEM.items())})
_SSIZE_MAX = 2 ** 63 - 1            # an extent (Py_ssize_t) never exceeds this


def _cell_capacity(fn, fi, JC, at):
    """Largest count one cell of the returned table can hold: from the
    declared buffer element type and the dtype= of its allocation (they must
    agree).  None when neither is readable."""
    seen = set()
    t = getattr(fn, 'cy_locals', {}).get(JC)
    if t is not None and getattr(t, 'elem', None) in _C_ELEM:
        seen.add(_C_ELEM[t.elem])
    elif t is not None and getattr(t, 'elem', None) is not None:
        return None
    for site in fi.rd.defs_at(at, JC):
        val = fi.def_value(site, JC) if isinstance(site, (ast.Assign, ast.AnnAssign)) else None
        if val is None:
            continue                  # the bare cdef declaration
        val = fi.expand(val)
        if not (isinstance(val, ast.Call) and call_name(val) in _ALLOCS):
            return None
        d = kwarg(val, 'dtype')
        if d is None:
            return None               # float64 table: not a count table the rule understands
        if u(d) not in _NP_ELEM:
            return None
        seen.add(_NP_ELEM[u(d)])
    if len(seen) != 1:
        return None
    bits, signed = next(iter(seen))
    return 2 ** (bits - 1) - 1 if signed else 2 ** bits - 1


def _capacity(ck, mod, fn, fi, inc, A, B, JC):
    """Every trip of the frame loop adds one to a cell, so a cell can reach
    the number of frames (all frames in one state pair).  The table is exact
    only if that number fits the cell type: either the type holds every
    possible extent, or a dominating guard bounds the FRAME extent (axis 0 of
    the feature arrays - the axis the matched cell `a[t, x]` is indexed by
    with the frame index) by a constant within the capacity."""
    rule = 'C18.D1.capacity'
    F = mod.qualname(fn)
    cap = _cell_capacity(fn, fi, JC, inc)
    if cap is None:
        ck.missing(rule, 'element type of the count table `%s`' % JC)
        return
    if cap >= _SSIZE_MAX:
        ck.ok(rule, mod, inc, '%s cells hold %d' % (JC, cap), 'the cell type holds every possible number of frames')
        return
    guards = []
    for a in _atoms(fi, inc):
        less = a.as_less() if isinstance(a, Cmp) else None
        if less is None:
            continue
        small, strict, big = less
        k = _fold_int(big)
        if k is None:
            continue
        b = match('_X.shape[_K]', small)
        if b is None and match('len(_X)', small) is not None:
            b = dict(match('len(_X)', small), _K=ast.Constant(value=0))
        if b is None or not isinstance(b['_X'], ast.Name) or type(const_value(b['_K'])) is not int:
            continue
        src = _origin(fi, b['_X'].id, inc)
        if src not in (A, B):
            continue
        guards.append((const_value(b['_K']), src, k - 1 if strict else k, a))
    frame = [g for g in guards if g[0] in (0, -2)]
    other = [g for g in guards if g[0] not in (0, -2)]
    good = [g for g in frame if g[2] <= cap]
    if good:
        ck.ok(rule, mod, inc, repr(good[0][3]), 'the number of frames is bounded by what one cell of the count table can hold (%d)' % cap)
    elif frame:
        ck.bad(rule, mod, inc, F, 'frame-count limit of the count table',
               'the guard %r admits %d frames but one cell of `%s` holds at most %d: the count of a state pair wraps' % (
                   frame[0][3], frame[0][2], JC, cap))
    elif other:
        g = other[0]
        ck.bad(rule, mod, inc, F, 'frame-count limit of the count table is tested on another axis',
               'one cell of `%s` holds at most %d and every frame adds one to a cell, so the number of FRAMES (%s.shape[0], the '
               'axis indexed by the frame index) must be bounded; the guard %r bounds axis %d (the features) instead: a '
               'trajectory of more than %d frames is accepted and its counts wrap modulo %d' % (
                   JC, cap, A, g[3], g[0], cap, cap + 1))
    else:
        ck.bad(rule, mod, inc, F, 'no frame-count limit for the count table',
               'one cell of `%s` holds at most %d and every frame adds one to a cell, but no dominating guard bounds '
               '%s.shape[0]: the counts of a longer trajectory wrap modulo %d' % (JC, cap, A, cap + 1))


_WIDE_TYPES = {'np.uint64', 'np.int64', 'np.intp', 'np.uintp', 'np.int_', 'np.uint', 'int', 'float', 'np.float64', 'np.double',
               "'uint64'", "'int64'", "'int'", "'float'", "'float64'", "'u8'", "'i8'", "'f8'"}


def _pooled_capacity(ck, mod, fm, fim, G, POOL, plain, adds, unwidened):
    """One trajectory adds at most its number of frames to a cell, which the
    kernel bounds by the capacity of its cell type; the POOLED table adds up
    an unbounded number of trajectories, so its cells must be wider than the
    kernel's: the running total has to start from a 64-bit (or float64)
    conversion of the first table - `jc = jc_i; jc += jc_i` keeps the
    kernel's 32-bit cells and wraps silently."""
    rule = 'C18.D6.joint-counts.pooled.capacity'
    kmod = ck.repo.mod(LI)
    kfn = kmod.func('matrix_bincount2d')
    kfi = _fi(kmod, kfn)
    rets = [r for r in returns_of(kfn) if isinstance(r.value, ast.Name)]
    cap = _cell_capacity(kfn, kfi, rets[0].value.id, rets[0]) if len(rets) == 1 else None
    if cap is None:
        ck.missing(rule, 'cell type of the table matrix_bincount2d returns')
        return
    if cap >= _SSIZE_MAX:
        ck.ok(rule, mod, adds[0], u(adds[0]), 'the kernel\'s cells are 64 bits wide')
        return
    if not plain:
        ck.missing(rule, 'start of the running total `%s`' % POOL)
        return
    narrow = []
    for site in plain:
        _t, d = unwidened(fim.def_value(site, POOL))
        if d is None or u(d) not in _WIDE_TYPES:
            narrow.append(site)
    inplace = all(isinstance(a, ast.AugAssign) for a in adds)
    if not narrow and inplace:
        ck.ok(rule, mod, plain[0], u(plain[0]), 'the running total is a 64-bit copy of the first table; in-place addition keeps that type')
    elif not narrow:
        ck.missing(rule, 'the running total is widened but rebuilt by `%s`: result type of the sum not decided' % u(adds[0])[:80])
    else:
        ck.bad(rule, mod, narrow[0], G, 'running total of the pooled joint counts keeps the cell type of one trajectory\'s table',
               '`%s` starts the pooled table as the kernel\'s own array (cells hold at most %d) and `%s` adds every further '
               'trajectory into it: the kernel bounds ONE trajectory by that capacity, the sum over trajectories is unbounded, '
               'so a state pair seen in more than %d pooled frames wraps modulo %d without any error and the MI is computed '
               'from wrong counts. Start from a 64-bit copy (`.astype(np.uint64)`)' % (u(narrow[0]), cap, u(adds[0]), cap, cap + 1))


# ---- default state counts are computed in Python integers -------------------

_ID_ARRAYS = {'joint_counts': 2, 'weighted_mi': 1}      # leading parameters that hold state ids of ANY integer dtype


def d6_default_width(ck):
    """`<ids>.max() + 1` is evaluated in the dtype of the id array (a NumPy
    scalar plus a Python int keeps the scalar's type): for an array that uses
    the top value of its dtype (int8 holding 127, uint8 holding 255) the sum
    wraps and the default state count is negative / zero.  The maximum must
    be converted to a Python int (or a 64-bit type) BEFORE one is added."""
    rule = 'C18.D6.defaults.width'
    mod = ck.repo.mod(MI)
    for F, k in _ID_ARRAYS.items():
        fn = mod.func(F)
        ck.analysed(mod, fn)
        fi = _fi(mod, fn)
        ids = params(fn)[:k]
        n = 0
        for node in walk_local(fn):
            if not (isinstance(node, ast.BinOp) and isinstance(node.op, ast.Add)):
                continue
            st = fi.stmt(node)
            if st is None:
                continue
            e = canon(fi.expand(node, stop=tuple(ids)))
            if not isinstance(e, ast.BinOp):
                continue
            for x, one in ((e.left, e.right), (e.right, e.left)):
                if type(const_value(one)) is not int:
                    continue
                wide = None
                for f in ('int(_A.max())', '_A.max().item()', 'operator.index(_A.max())', 'np.int64(_A.max())',
                          '_A.astype(np.int64).max()', '_A.astype(int).max()', '_A.max().astype(np.int64)', '_A.max().astype(int)'):
                    wide = wide or match(f, x)
                narrow = match('_A.max()', x)
                b = wide or narrow
                if b is None:
                    continue
                src = _origin_of(fi, b['_A'], st)
                if src not in ids:
                    continue
                n += 1
                if wide is not None:
                    ck.ok(rule, mod, node, _cx(e), 'the largest id is converted to a wide integer before one is added')
                else:
                    ck.bad(rule, mod, node, F, '%s.max() + %d' % (src, const_value(one)),
                           'the default state count `%s` is computed in the dtype of `%s` (NumPy scalar + Python int keeps the '
                           'array\'s type): when the ids use the top value of a narrow type (int8 holding 127, uint8 holding 255) '
                           'the sum wraps to a negative number / zero and valid data are rejected; convert first: int(%s.max()) + %d' % (
                               _cx(e), src, src, const_value(one)))
                break
        if n == 0:
            ck.missing(rule, 'default state count `<ids>.max() + 1` in %s' % F)


# ---- dtype harmonisation keeps every id (or has it rejected) ------------------

_INT_DT = {'int8': (8, True), 'int16': (16, True), 'int32': (32, True), 'int64': (64, True),
           'uint8': (8, False), 'uint16': (16, False), 'uint32': (32, False), 'uint64': (64, False)}
_DT_ALIASES = {'int': 'int64', 'intp': 'int64', 'int_': 'int64', 'long': 'int64', 'uint': 'uint64', 'uintp': 'uint64',
               'float': 'float64', 'float_': 'float64', 'double': 'float64', 'float64': 'float64', 'float32': 'float32',
               'i1': 'int8', 'i2': 'int16', 'i4': 'int32', 'i8': 'int64', 'u1': 'uint8', 'u2': 'uint16', 'u4': 'uint32', 'u8': 'uint64',
               'f8': 'float64', 'f4': 'float32', 'd': 'float64'}
_C_INT_BITS = {'int': 31, 'long': 63, 'short': 15, 'Py_ssize_t': 63, 'ssize_t': 63, 'long long': 63}


def _dt_range(name):
    bits, signed = _INT_DT[name]
    return (-(2 ** (bits - 1)), 2 ** (bits - 1) - 1) if signed else (0, 2 ** bits - 1)


def _dt_promote(a, b):
    """np.promote_types on the integer dtypes (NumPy's documented table)."""
    if a == b:
        return a
    if a not in _INT_DT or b not in _INT_DT:
        return 'float64'
    (ba, sa), (bb, sb) = _INT_DT[a], _INT_DT[b]
    if sa == sb:
        return a if ba >= bb else b
    sbits, ubits = (ba, bb) if sa else (bb, ba)
    if sbits > ubits:
        return 'int%d' % sbits
    return 'int%d' % (2 * ubits) if 2 * ubits <= 64 else 'float64'


def _dt_contains(dst, src):
    if dst not in _INT_DT or src not in _INT_DT:
        return dst == src or (dst == 'float64' and src in _INT_DT and _INT_DT[src][0] <= 32)
    (lo, hi), (slo, shi) = _dt_range(dst), _dt_range(src)
    return lo <= slo and shi <= hi


class _Unsupported(Exception):
    pass


class _Ids:
    """An array that still holds the state ids of parameter `origin`."""

    def __init__(self, origin, dtype, lost=()):
        self.origin, self.dtype, self.lost = origin, dtype, tuple(lost)


class _Dt:
    def __init__(self, name):
        self.name = name


_UNKV = type('Unknown', (), {'__repr__': lambda self: '<unknown>'})()


class _DtypeRun:
    """Abstract execution of a loop-free function body for ONE assignment of
    element types to the id arrays: values are id arrays with their dtype,
    dtype objects, Python constants, or unknown.  A branch on an unknown
    condition forks.  Nothing of the analysed code is executed: the transfer
    functions below are the rule's own table of NumPy's dtype arithmetic."""

    def __init__(self, kernel, n_bits):
        self.kernel, self.n_bits = kernel, n_bits
        self.done = []
        self.paths = 0

    # -- dtype helpers
    def as_dtype(self, v):
        if isinstance(v, _Dt):
            return v.name
        if isinstance(v, _Ids):
            return v.dtype
        if isinstance(v, str):
            v = v.lstrip('<>=|')
            if v in _INT_DT:
                return v
            return _DT_ALIASES.get(v)
        return None

    def cast_ok(self, src, dst):
        if _dt_contains(dst, src):
            return True
        if src in _INT_DT and dst in _INT_DT and self.n_bits is not None:
            # a wrapped id is negative or >= 2**(bits-1): the kernel's two-sided guard rejects it, rightly so
            # when every admissible state count (a C integer of n_bits value bits) is below that
            return _INT_DT[dst][0] >= _INT_DT[src][0] and _INT_DT[dst][0] - 1 >= self.n_bits
        return False

    def cast(self, arr, dst, node):
        if dst is None or arr.dtype is None:
            raise _Unsupported('target type of `%s` not evaluated' % u(node)[:80])
        lost = () if self.cast_ok(arr.dtype, dst) else ((node, arr.dtype, dst),)
        return _Ids(arr.origin, dst, arr.lost + lost)

    # -- expressions
    def ev(self, e, env):
        if isinstance(e, ast.Constant):
            return e.value
        if isinstance(e, ast.Name):
            if e.id in env:
                return env[e.id]
            return {'int': _Dt('int64'), 'float': _Dt('float64')}.get(e.id, _UNKV)
        if isinstance(e, (ast.Tuple, ast.List)):
            return tuple(self.ev(x, env) for x in e.elts)
        if isinstance(e, ast.Attribute):
            d = u(e)
            if d.startswith(('np.', 'numpy.')) and d.split('.', 1)[1] in set(_INT_DT) | set(_DT_ALIASES):
                return _Dt(self.as_dtype(d.split('.', 1)[1]))
            v = self.ev(e.value, env)
            if isinstance(v, _Ids):
                if e.attr == 'dtype':
                    return _Dt(v.dtype) if v.dtype else _UNKV
                if e.attr == 'itemsize' and v.dtype in _INT_DT:
                    return _INT_DT[v.dtype][0] // 8
                if e.attr == 'T':
                    return v
                return _UNKV
            if isinstance(v, _Dt):
                if e.attr == 'itemsize':
                    return _INT_DT[v.name][0] // 8 if v.name in _INT_DT else {'float64': 8, 'float32': 4}.get(v.name, _UNKV)
                if e.attr == 'kind':
                    return ('i' if _INT_DT[v.name][1] else 'u') if v.name in _INT_DT else 'f'
                if e.attr in ('name', 'str'):
                    return v.name if e.attr == 'name' else _UNKV
                if e.attr in ('type', 'newbyteorder'):
                    return v if e.attr == 'type' else _UNKV
            return _UNKV
        if isinstance(e, ast.Subscript):
            v = self.ev(e.value, env)
            if isinstance(v, _Ids) and all(_is_const(i, None) or _is_const(i, Ellipsis) or _full_slice(i) for i in _index_items(e.slice)):
                return v
            return _UNKV
        if isinstance(e, ast.Call):
            return self.call(e, env)
        if isinstance(e, ast.Compare):
            left = self.ev(e.left, env)
            res = True
            for op, right in zip(e.ops, e.comparators):
                r = self.ev(right, env)
                c = self.compare(left, op, r)
                if c is _UNKV:
                    return _UNKV
                if not c:
                    res = False
                    break
                left = r
            return res
        if isinstance(e, ast.BoolOp):
            is_and = isinstance(e.op, ast.And)
            unknown = False
            v = None
            for x in e.values:
                v = self.ev(x, env)
                t = self.truth(v)
                if t is None:
                    unknown = True
                elif t != is_and:
                    return v if not unknown else (False if is_and else True) if is_and != t else _UNKV
            return _UNKV if unknown else v
        if isinstance(e, ast.UnaryOp) and isinstance(e.op, ast.Not):
            t = self.truth(self.ev(e.operand, env))
            return _UNKV if t is None else (not t)
        if isinstance(e, ast.IfExp):
            t = self.truth(self.ev(e.test, env))
            if t is None:
                a, b = self.ev(e.body, env), self.ev(e.orelse, env)
                return a if a is b else _UNKV
            return self.ev(e.body if t else e.orelse, env)
        if isinstance(e, ast.BinOp):
            a, b = self.ev(e.left, env), self.ev(e.right, env)
            if type(a) is int and type(b) is int:
                k = _fold_int(ast.BinOp(left=ast.Constant(value=a), op=e.op, right=ast.Constant(value=b)))
                return _UNKV if k is None else k
            return _UNKV
        for ch in ast.iter_child_nodes(e):          # a kernel call hidden in an expression the table does not know
            if isinstance(ch, ast.expr):
                self.ev(ch, env)
        return _UNKV

    def compare(self, a, op, b):
        if isinstance(op, (ast.Is, ast.IsNot)):
            if a is _UNKV or b is _UNKV:
                return _UNKV
            same = (a is None and b is None) if (a is None or b is None) else _UNKV
            if same is _UNKV:
                return _UNKV
            return same if isinstance(op, ast.Is) else not same
        if a is _UNKV or b is _UNKV:
            return _UNKV
        if isinstance(op, (ast.Eq, ast.NotEq)):
            if isinstance(a, (_Dt, str)) and isinstance(b, (_Dt, str)) and (isinstance(a, _Dt) or isinstance(b, _Dt)):
                da, db = self.as_dtype(a), self.as_dtype(b)
                if da is None or db is None:
                    return _UNKV
                eq = da == db
            elif isinstance(a, (int, float, str)) and isinstance(b, (int, float, str)) and isinstance(a, str) == isinstance(b, str):
                eq = a == b
            elif a is None or b is None:
                eq = a is b
            else:
                return _UNKV
            return eq if isinstance(op, ast.Eq) else not eq
        if isinstance(op, (ast.Lt, ast.LtE, ast.Gt, ast.GtE)):
            if type(a) in (int, float) and type(b) in (int, float):
                return {ast.Lt: a < b, ast.LtE: a <= b, ast.Gt: a > b, ast.GtE: a >= b}[type(op)]
            return _UNKV
        if isinstance(op, (ast.In, ast.NotIn)):
            if isinstance(a, str) and (isinstance(b, str) or (isinstance(b, tuple) and all(isinstance(x, str) for x in b))):
                r = a in b
                return r if isinstance(op, ast.In) else not r
            return _UNKV
        return _UNKV

    def truth(self, v):
        if v is _UNKV or isinstance(v, (_Ids, tuple)):
            return None
        if isinstance(v, _Dt):
            return True
        return bool(v)

    def call(self, e, env):
        cn = call_name(e) or ''
        args = [self.ev(a.value if isinstance(a, ast.Starred) else a, env) for a in e.args]
        kws = {k.arg: self.ev(k.value, env) for k in e.keywords}
        if cn.split('.')[-1] == self.kernel:
            env['$events'].append((e, args))
            return _UNKV
        if isinstance(e.func, ast.Attribute):
            recv = self.ev(e.func.value, env)
            if isinstance(recv, _Ids):
                if e.func.attr == 'astype' and (args or 'dtype' in kws):
                    return self.cast(recv, self.as_dtype(args[0] if args else kws['dtype']), e)
                if e.func.attr == 'copy':
                    return recv
                if e.func.attr == 'view' and (args or kws):
                    raise _Unsupported('reinterpreting view `%s`' % u(e)[:80])
                return _UNKV
            if isinstance(recv, _Dt):
                return _UNKV
        if cn in ('np.promote_types', 'np.result_type', 'numpy.promote_types', 'numpy.result_type') and len(args) == 2 and not kws:
            d = [self.as_dtype(a) for a in args]
            if None in d:
                raise _Unsupported('operands of `%s` not evaluated' % u(e)[:80])
            return _Dt(_dt_promote(*d))
        if cn in ('np.dtype', 'numpy.dtype') and len(args) == 1 and not kws:
            d = self.as_dtype(args[0])
            return _Dt(d) if d else _UNKV
        if cn in ('np.can_cast', 'numpy.can_cast') and len(args) == 2 and kws.get('casting', 'safe') == 'safe':
            d = [self.as_dtype(a) for a in args]
            return _UNKV if None in d else _dt_contains(d[1], d[0])
        if cn in ('np.issubdtype', 'numpy.issubdtype') and len(args) == 2 and not kws:
            d = self.as_dtype(args[0])
            cls = u(e.args[1]).split('.')[-1]
            if d is not None and cls in ('integer', 'signedinteger', 'unsignedinteger', 'floating', 'number', 'inexact'):
                isint = d in _INT_DT
                return {'integer': isint, 'signedinteger': isint and _INT_DT[d][1], 'unsignedinteger': isint and not _INT_DT[d][1],
                        'floating': not isint, 'inexact': not isint, 'number': True}[cls]
            return _UNKV
        if cn in _PASS_FUNCS and args and isinstance(args[0], _Ids):
            if 'dtype' in kws or len(args) > 1:
                return self.cast(args[0], self.as_dtype(kws.get('dtype', args[1] if len(args) > 1 else None)), e)
            return args[0]
        if cn in ('min', 'max') and args and not kws and all(type(a) is int for a in args):
            return min(args) if cn == 'min' else max(args)
        if cn in ('min', 'max') and set(kws) == {'key'} and args and not any(isinstance(a, ast.Starred) for a in e.args):
            # selection by a key: the FIRST operand whose key is extreme (Python's rule for ties), when the key
            # function is a one-parameter lambda the table can evaluate on every operand (`d.itemsize`, ...)
            cands = list(args[0]) if len(args) == 1 and isinstance(args[0], tuple) else args if len(args) > 1 else None
            lam = kwarg(e, 'key')
            if cands and isinstance(lam, ast.Lambda) and len(lam.args.args) == 1 and not (
                    lam.args.posonlyargs or lam.args.kwonlyargs or lam.args.vararg or lam.args.kwarg or lam.args.defaults):
                inner = dict(env)
                keys = []
                for c in cands:
                    inner[lam.args.args[0].arg] = c
                    keys.append(self.ev(lam.body, inner))
                if all(type(k) in (int, float) for k in keys):
                    best = 0
                    for i, k in enumerate(keys):
                        if (k > keys[best]) if cn == 'max' else (k < keys[best]):
                            best = i
                    return cands[best]
            return _UNKV
        return _UNKV

    # -- statements
    def fork(self, env):
        new = dict(env)
        new['$events'] = list(env['$events'])
        return new

    def bind(self, t, v, env):
        if isinstance(t, ast.Name):
            env[t.id] = v
        elif isinstance(t, (ast.Tuple, ast.List)):
            vs = v if isinstance(v, tuple) and len(v) == len(t.elts) else [_UNKV] * len(t.elts)
            for te, ve in zip(t.elts, vs):
                self.bind(te, ve, env)

    def run(self, stmts, env):
        envs = [env]
        for s in stmts:
            nxt = []
            for en in envs:
                nxt += self.step(s, en)
            envs = nxt
            self.paths = max(self.paths, len(envs))
            if len(envs) > 1024:
                raise _Unsupported('more than 1024 paths')
            if not envs:
                break
        return envs

    def step(self, s, env):
        if isinstance(s, ast.Expr):
            self.ev(s.value, env)
            return [env]
        if isinstance(s, ast.Assign):
            v = self.ev(s.value, env)
            for t in s.targets:
                self.bind(t, v, env)
            return [env]
        if isinstance(s, ast.AnnAssign):
            if s.value is not None:
                self.bind(s.target, self.ev(s.value, env), env)
            return [env]
        if isinstance(s, ast.AugAssign):
            self.ev(s.value, env)
            self.bind(s.target, _UNKV, env)
            return [env]
        if isinstance(s, ast.If):
            t = self.truth(self.ev(s.test, env))
            if t is None:
                return self.run(s.body, self.fork(env)) + self.run(s.orelse, self.fork(env))
            return self.run(s.body if t else s.orelse, env)
        if isinstance(s, ast.Return):
            if s.value is not None:
                self.ev(s.value, env)
            self.done.append(env)
            return []
        if isinstance(s, ast.Raise):
            return []
        if isinstance(s, (ast.Assert, ast.Pass, ast.Import, ast.ImportFrom, ast.Global, ast.Nonlocal)):
            return [env]
        raise _Unsupported('%s statement at line %s' % (type(s).__name__, getattr(s, 'lineno', '?')))


def d6_ids_preserved(ck):
    """Truth table over the element types of the two id arrays (the fused
    integer types of the kernel, every ordered pair, and Y=None): the body of
    joint_counts is executed abstractly and at every kernel call (i) both
    arrays must have ONE element type for which the kernel has a
    specialisation and (ii) every cast on the way must have kept every id, or
    turned an id the cast wraps into one the kernel's range guard rejects.  An
    itemsize ordering does not establish that when the signedness differs:
    int8 -> uint8 turns the invalid id -1 into the valid 255, uint8 -> int8
    turns the valid 200 into -56."""
    rule = 'C18.D6.joint-counts.uptype.ids-preserved'
    F = 'joint_counts'
    mod = ck.repo.mod(MI)
    fn = mod.func(F)
    ck.analysed(mod, fn)
    if len(params(fn)) < 4:
        ck.missing(rule, 'signature (X, Y, n_x, n_y)')
        return 'missing'
    X, Y = params(fn)[:2]
    kmod = ck.repo.mod(LI)
    kfn = kmod.func('matrix_bincount2d')
    fused = getattr(kmod.tree, 'cy_fused', {})
    kp = params(kfn)
    types = getattr(kfn, 'cy_argtypes', {})
    elems = []
    if len(kp) >= 4 and kp[0] in types and kp[1] in types and types[kp[0]].base == types[kp[1]].base:
        elems = [t.elem.replace('np.', '').replace('_t', '') for t in fused.get(types[kp[0]].base, []) if getattr(t, 'elem', None)]
    if not elems or any(x not in _INT_DT for x in elems):
        ck.missing(rule, 'fused integer element types of matrix_bincount2d(a, b, ...)')
        return 'missing'
    nb = [_C_INT_BITS.get(types[p].base) if p in types else None for p in kp[2:4]]
    n_bits = None if None in nb else max(nb)
    problems, runs, paths = {}, 0, 0
    try:
        for dx in elems:
            for dy in elems + [None]:
                r = _DtypeRun('matrix_bincount2d', n_bits)
                env = {p: _UNKV for p in params(fn)}
                env.update({X: _Ids(X, dx), Y: _Ids(Y, dy) if dy else None, '$events': []})
                r.done += r.run(fn.body, env)
                runs += 1
                paths += len(r.done)
                for en in r.done:
                    for call, args in en['$events']:
                        if len(args) < 2 or not all(isinstance(a, _Ids) and a.dtype for a in args[:2]):
                            raise _Unsupported('array arguments of `%s` not traced back to %s / %s' % (u(call)[:80], X, Y))
                        a, b = args[:2]
                        wit = '%s %s, %s %s' % (X, dx, Y, dy)
                        if a.dtype != b.dtype:
                            problems.setdefault(('mixed', u(call)), []).append('%s: the kernel receives %s and %s' % (wit, a.dtype, b.dtype))
                        elif a.dtype not in elems:
                            problems.setdefault(('nospec', u(call)), []).append('%s: the kernel receives %s arrays' % (wit, a.dtype))
                        for arr in (a, b):
                            for node, src, dst in arr.lost:
                                problems.setdefault(('wrap', u(node)), []).append('%s: %s -> %s' % (wit, src, dst))
    except _Unsupported as e:
        ck.missing(rule, 'joint_counts is not a loop-free harmonisation the dtype table can follow (%s)' % e)
        return 'missing'
    if not problems:
        ck.ok(rule, mod, fn, '%d element-type pairs, %d paths' % (runs, paths),
              'for every pair of integer element types the kernel receives two arrays of one type and no cast wraps an id '
              'into the admissible range')
        return 'ok'
    parts = []
    for (kind, text), wits in sorted(problems.items()):
        uniq = sorted(set(wits))
        what = {'wrap': 'the cast `%s` does not keep the ids', 'mixed': 'the call `%s` gets two element types',
                'nospec': 'the call `%s` gets a type without kernel specialisation'}[kind] % text[:80]
        parts.append('%s (%d type pairs, e.g. %s)' % (what, len(uniq), '; '.join(uniq[:2])))
    ck.bad(rule, mod, fn, F, 'dtype harmonisation of %s and %s before the kernel call' % (X, Y),
           'enumerating the kernel\'s integer element types for %s and %s: %s. A signed id cast to an unsigned type of less '
           'than 32 bits (or an unsigned id to a signed type that does not contain it) lands in another valid state: the '
           'negative id -1 is counted as 255, the valid id 200 is rejected as -56. An itemsize comparison does not decide '
           'value preservation when the signedness differs' % (X, Y, ' | '.join(parts)))
    return 'bad'


# ---- out= buffers of float-valued ufuncs have a floating dtype ---------------

_FLOAT_UFUNCS = {'np.divide', 'np.true_divide', 'np.log', 'np.log2', 'np.log10', 'np.log1p', 'np.exp', 'np.expm1', 'np.sqrt'}
# what the contract (docstrings + the quantifier of C18) says about the element type of each parameter:
# 'real' = any real dtype (bool, integer or float: "all weight vectors"), 'int' = any integer dtype, 'float' = floating
_PARAM_DTYPES = {
    'weighted_mi': {0: 'int', 1: 'real', 2: 'int'},
    'mutual_information': {0: 'int'},
    'channel_capacity_normalization': {0: 'float', 1: 'int', 2: 'int'},
    'shannon_entropy': {0: 'real'},
    'kl_divergence': {0: 'real', 1: 'real'},
}
_LIKE = {'np.zeros_like', 'np.ones_like', 'np.empty_like', 'np.full_like'}
_FRESH = {'np.zeros', 'np.ones', 'np.empty'}
_KEEP_FUNCS = {'np.array', 'np.asarray', 'np.asanyarray', 'np.ascontiguousarray', 'np.copy', 'np.atleast_1d', 'np.atleast_2d',
               'np.vstack', 'np.hstack', 'np.dstack', 'np.stack', 'np.concatenate', 'np.column_stack', 'np.squeeze', 'np.transpose',
               'np.ravel', 'np.reshape', 'np.abs', 'np.absolute', 'np.negative', 'np.cumsum', 'np.diag', 'np.triu', 'np.tril',
               'np.clip', 'np.sort', 'np.flip', 'np.roll', 'np.tile', 'np.repeat', 'np.broadcast_to', 'np.expand_dims'}
_PROMOTE_FUNCS = {'np.matmul', 'np.dot', 'np.multiply', 'np.add', 'np.subtract', 'np.outer', 'np.kron', 'np.fmin', 'np.fmax',
                  'np.minimum', 'np.maximum', 'np.meshgrid', 'np.inner', 'np.tensordot', 'np.einsum'}
_KEEP_METHODS = {'copy', 'reshape', 'ravel', 'flatten', 'transpose', 'squeeze', 'max', 'min', 'cumsum', 'clip', 'repeat', 'take', 'diagonal'}
_F, _B, _I, _U = 'float', 'bool', 'int', 'unknown'


def _dt_join2(a, b):
    if _F in (a, b):
        return _F
    if _U in (a, b):
        return _U
    pa, pb = isinstance(a, tuple), isinstance(b, tuple)
    if pa and pb:
        return ('arg', a[1] | b[1])
    if pa or pb:
        return a if pa else b
    return _I if _I in (a, b) else _B


def _dt_join(*sets):
    out = sets[0]
    for s in sets[1:]:
        out = frozenset(_dt_join2(a, b) for a in out for b in s)
    return out


def _dt_literal(fi, d, at, seen):
    t = u(d).strip('\'"')
    t = t.split('.', 1)[1] if t.startswith(('np.', 'numpy.')) else t
    if t in ('float', 'float64', 'float32', 'float16', 'double', 'float_', 'longdouble', 'f8', 'f4', 'd', 'single', 'half'):
        return frozenset([_F])
    if t in _INT_DT or t in ('int', 'uint', 'intp', 'uintp', 'int_', 'long', 'i1', 'i2', 'i4', 'i8', 'u1', 'u2', 'u4', 'u8'):
        return frozenset([_I])
    if t in ('bool', 'bool_'):
        return frozenset([_B])
    if isinstance(d, ast.Attribute) and d.attr == 'dtype':
        return _dtype_of(fi, d.value, at, seen)
    return frozenset([_U])


def _dtype_of(fi, e, at, seen=frozenset()):
    """Provenance of the ELEMENT TYPE of an array expression evaluated at
    statement `at`: a set (one member per path / alternative) of 'float',
    'bool', 'int', ('arg', {parameters whose element type it inherits}),
    'unknown'.  Transfer functions are NumPy's documented result types."""
    one = lambda x: frozenset([x])
    F = fi.mod.qualname(fi.fn)
    if isinstance(e, ast.Constant):
        v = e.value
        return one(_B if isinstance(v, bool) else _I if isinstance(v, int) else _F if isinstance(v, float) else _U)
    if isinstance(e, ast.Name):
        out = set()
        for site in fi.rd.defs_at(at, e.id):
            if site == 'UNBOUND':
                continue
            if site == 'PARAM':
                ps = params(fi.fn)
                kind = _PARAM_DTYPES.get(F, {}).get(ps.index(e.id)) if e.id in ps else None
                out.add(_F if kind == 'float' else ('arg', frozenset([e.id])) if kind in ('real', 'int') else _U)
                continue
            key = (id(site), e.id)
            if key in seen:
                continue                  # loop-carried redefinition: contributes nothing new
            if isinstance(site, ast.AugAssign) and isinstance(site.target, ast.Name):
                prev = _dtype_of(fi, ast.Name(id=e.id, ctx=ast.Load()), site, seen | {key})
                out |= one(_F) if isinstance(site.op, ast.Div) else _dt_join(prev or one(_U), _dtype_of(fi, site.value, site, seen | {key}))
                continue
            val = fi.def_value(site, e.id) if isinstance(site, (ast.Assign, ast.AnnAssign)) else None
            out |= _dtype_of(fi, val, site, seen | {key}) if val is not None else one(_U)
        return frozenset(out) if out else one(_U)
    if isinstance(e, ast.Compare) or (isinstance(e, ast.UnaryOp) and isinstance(e.op, ast.Not)):
        return one(_B)
    if isinstance(e, ast.UnaryOp):
        return _dtype_of(fi, e.operand, at, seen)
    if isinstance(e, ast.BinOp):
        if isinstance(e.op, ast.Div):
            return one(_F)
        return _dt_join(_dtype_of(fi, e.left, at, seen), _dtype_of(fi, e.right, at, seen))
    if isinstance(e, ast.BoolOp):
        return _dt_join(*[_dtype_of(fi, x, at, seen) for x in e.values])
    if isinstance(e, ast.IfExp):
        return _dtype_of(fi, e.body, at, seen) | _dtype_of(fi, e.orelse, at, seen)
    if isinstance(e, (ast.List, ast.Tuple)):
        return _dt_join(*[_dtype_of(fi, x, at, seen) for x in e.elts]) if e.elts else one(_F)
    if isinstance(e, (ast.ListComp, ast.GeneratorExp)):
        return _dtype_of(fi, e.elt, at, seen)
    if isinstance(e, ast.Starred):
        return _dtype_of(fi, e.value, at, seen)
    if isinstance(e, ast.Subscript):
        return _dtype_of(fi, e.value, at, seen)
    if isinstance(e, ast.Attribute):
        if e.attr in ('T', 'real', 'flat'):
            return _dtype_of(fi, e.value, at, seen)
        if e.attr in ('shape', 'size', 'ndim', 'itemsize', 'nbytes'):
            return one(_I)
        return one(_U)
    if isinstance(e, ast.Call):
        cn = call_name(e) or ''
        cn = 'np.' + cn[len('numpy.'):] if cn.startswith('numpy.') else cn
        dkw = kwarg(e, 'dtype')
        out = kwarg(e, 'out')
        if out is not None and cn.startswith('np.'):
            return _dtype_of(fi, out, at, seen)          # the value of a ufunc call with out= IS the buffer
        if cn in _LIKE:
            return _dt_literal(fi, dkw, at, seen) if dkw is not None else (_dtype_of(fi, e.args[0], at, seen) if e.args else one(_U))
        if cn in _FRESH:
            d = dkw if dkw is not None else (e.args[1] if len(e.args) > 1 else None)
            return _dt_literal(fi, d, at, seen) if d is not None else one(_F)
        if cn == 'np.full':
            d = dkw if dkw is not None else (e.args[2] if len(e.args) > 2 else None)
            return _dt_literal(fi, d, at, seen) if d is not None else (_dtype_of(fi, e.args[1], at, seen) if len(e.args) > 1 else one(_U))
        if cn in _KEEP_FUNCS and e.args:
            return _dt_literal(fi, dkw, at, seen) if dkw is not None else _dtype_of(fi, e.args[0], at, seen)
        if cn in _PROMOTE_FUNCS and e.args:
            return _dt_join(*[_dtype_of(fi, a, at, seen) for a in e.args if not (isinstance(a, ast.Constant) and isinstance(a.value, str))])
        if cn in _FLOAT_UFUNCS or cn in ('np.linalg.norm', 'np.mean', 'np.std', 'np.var', 'float', 'np.float64', 'np.rad2deg', 'np.deg2rad'):
            return one(_F)
        if cn == 'np.bincount':
            return one(_F) if (kwarg(e, 'weights') is not None or len(e.args) > 1) else one(_I)
        if cn == 'np.where' and len(e.args) == 3:
            return _dt_join(_dtype_of(fi, e.args[1], at, seen), _dtype_of(fi, e.args[2], at, seen))
        if cn in ('int', 'len', 'np.count_nonzero', 'np.argmax', 'np.argmin', 'np.arange', 'range', 'np.argsort', 'np.flatnonzero'):
            return one(_I)
        if cn in ('bool', 'np.isnan', 'np.isinf', 'np.isfinite', 'np.logical_and', 'np.logical_or', 'np.logical_not', 'np.any', 'np.all'):
            return one(_B)
        if isinstance(e.func, ast.Attribute) and not (isinstance(e.func.value, ast.Name) and e.func.value.id in _MODULE_ALIASES):
            m = e.func.attr
            if m == 'astype' and (e.args or dkw is not None):
                return _dt_literal(fi, e.args[0] if e.args else dkw, at, seen)
            if m in _KEEP_METHODS:
                return _dtype_of(fi, e.func.value, at, seen)
            if m in ('sum', 'prod', 'dot'):
                base = _dtype_of(fi, e.func.value, at, seen)
                if m == 'dot' and e.args:
                    return _dt_join(base, _dtype_of(fi, e.args[0], at, seen))
                return _dt_literal(fi, dkw, at, seen) if dkw is not None else frozenset(_I if x == _B else x for x in base)
            if m in ('mean', 'std', 'var'):
                return one(_F)
            if m in ('any', 'all'):
                return one(_B)
        return one(_U)
    return one(_U)


def d5_out_dtype(ck):
    """A ufunc whose result is floating (true division, log, exp, sqrt)
    cannot write into an integer or boolean out= buffer (casting rule
    'same_kind': UFuncTypeError).  The element type of every such buffer is
    traced back through its allocation: it must be floating on every path -
    not the element type of an argument whose dtype the contract leaves open
    (weights may be integers or booleans: a one-hot distribution)."""
    rule = 'C18.D5.out-dtype'
    n = 0
    for rel in (MI, EN):
        mod = ck.repo.mod(rel)
        for q, fn in list(mod.functions.items()):
            calls = [c for c in calls_in(fn) if (call_name(c) or '').replace('numpy.', 'np.') in _FLOAT_UFUNCS and kwarg(c, 'out') is not None]
            if not calls:
                continue
            fi = _fi(mod, fn)
            ck.analysed(mod, fn)
            reported = set()
            for c in sorted(calls, key=lambda c: (getattr(c, 'lineno', 0), getattr(c, 'col_offset', 0))):
                n += 1
                st = fi.stmt(c)
                prov = _dtype_of(fi, kwarg(c, 'out'), st)
                wrong = sorted((x for x in prov if x not in (_F, _U)), key=str)
                cn = call_name(c)
                if not wrong and _U not in prov:
                    ck.ok(rule, mod, c, '%s(..., out=%s)' % (cn, u(kwarg(c, 'out'))[:60]), 'the out= buffer is floating on every path')
                    continue
                if not wrong:
                    ck.missing(rule, 'element type of the out= buffer of `%s` in %s' % (u(c)[:100], q))
                    continue
                w = wrong[0]
                if isinstance(w, tuple):
                    what = 'argument %s' % ', '.join('`%s`' % p for p in sorted(w[1]))
                    key = (q, w[1])
                    con = 'out= buffer of a float-valued ufunc inherits the element type of %s' % what
                    why = ('the buffer passed as out= to %s gets its element type from %s (allocated with the dtype of an array '
                           'computed from it, no float conversion on some path): for integer or boolean %s - admissible, e.g. a one-hot '
                           'weight vector - NumPy refuses to write the floating result (UFuncTypeError, casting rule same_kind). '
                           'Allocate the buffer with dtype=float' % (cn, what, what))
                else:
                    key = (q, w)
                    con = 'out= buffer of a float-valued ufunc has a %s element type' % w
                    why = 'the buffer passed as out= to %s is %s: the floating result cannot be written into it (UFuncTypeError)' % (cn, w)
                if key in reported:
                    continue
                reported.add(key)
                ck.bad(rule, mod, c, q, con, why)
    ck.floor(rule, n, 6, 'float-valued ufunc calls with out= in info_theory')


# ---- the mask of a masked division / logarithm is the defined set of its operand ----

_CMP_FUNCS = {'np.not_equal': ast.NotEq, 'np.equal': ast.Eq, 'np.greater': ast.Gt, 'np.greater_equal': ast.GtE,
              'np.less': ast.Lt, 'np.less_equal': ast.LtE}
_FLIP_OP = {ast.Lt: ast.Gt, ast.Gt: ast.Lt, ast.LtE: ast.GtE, ast.GtE: ast.LtE, ast.Eq: ast.Eq, ast.NotEq: ast.NotEq}
_OP_TXT = {ast.Lt: '<', ast.Gt: '>', ast.LtE: '<=', ast.GtE: '>=', ast.Eq: '==', ast.NotEq: '!='}


def _unit_index(sl):
    return all(_is_const(i, None) or _is_const(i, Ellipsis) or _full_slice(i) for i in _index_items(sl))


def _elementwise_cmp(e):
    """patterns.Cmp of an element-wise comparison in any of its spellings:
    `a op b`, `np.not_equal(a, b)` ..., `~(a op b)`, `np.logical_not(a op b)`,
    and `(a op b)[..., None]` == `a[..., None] op b[..., None]` (adding unit
    axes commutes with an element-wise operation).  None for anything else."""
    if isinstance(e, ast.Compare) and len(e.ops) == 1 and type(e.ops[0]) in _FLIP_OP:
        return Cmp(e.left, type(e.ops[0]), e.comparators[0])
    if isinstance(e, ast.UnaryOp) and isinstance(e.op, (ast.Invert, ast.Not)):
        c = _elementwise_cmp(e.operand)
        return c.negated() if c is not None else None
    if isinstance(e, ast.Call):
        cn = (call_name(e) or '').replace('numpy.', 'np.')
        if cn in _CMP_FUNCS and len(e.args) == 2 and not e.keywords and not any(isinstance(a, ast.Starred) for a in e.args):
            return Cmp(e.args[0], _CMP_FUNCS[cn], e.args[1])
        if cn == 'np.logical_not' and len(e.args) == 1 and not e.keywords:
            c = _elementwise_cmp(e.args[0])
            return c.negated() if c is not None else None
    if isinstance(e, ast.Subscript) and _unit_index(e.slice):
        c = _elementwise_cmp(e.value)
        if c is not None:
            ix = lambda x: x if isinstance(x, ast.Constant) else ast.Subscript(value=x, slice=e.slice, ctx=ast.Load())
            return Cmp(ix(c.lhs), c.op, ix(c.rhs))
    return None


def _against_zero(c):
    """(X, op) for an element-wise comparison `X op 0` / `0 op' X`, else None."""
    z = lambda x: type(const_value(x)) in (int, float) and const_value(x) == 0
    if z(c.rhs) and not z(c.lhs):
        return c.lhs, c.op
    if z(c.lhs) and not z(c.rhs):
        return c.rhs, _FLIP_OP[c.op]
    return None


_MASKED_OPERAND = {'np.divide': 1, 'np.true_divide': 1, 'np.log': 0, 'np.log2': 0, 'np.log10': 0}


def d5_mask_content(ck):
    """`np.divide(a, d, where=m, out=zeros)` is the guarded division of the
    property (x/d where defined, 0 elsewhere) only if m is exactly the set
    where d is non-zero - element for element, i.e. the mask is a comparison
    of THE SAME array expression as the divisor (same unit axes, so that it
    broadcasts the same way) with zero, `!= 0` or `> 0` (counts and
    probabilities are non-negative).  A mask that admits d == 0 writes NaN /
    inf into the distribution, a mask that is empty or inverted leaves the
    zeros of the buffer: every probability, hence every MI, is 0.  Likewise
    `np.log(x, where=m, out=...)`: m is the set where x is non-zero."""
    rule = 'C18.D5.mask'
    n = 0
    for rel in (MI, EN):
        mod = ck.repo.mod(rel)
        for q, fn in list(mod.functions.items()):
            calls = [c for c in calls_in(fn) if kwarg(c, 'where') is not None
                     and (call_name(c) or '').replace('numpy.', 'np.') in _MASKED_OPERAND]
            if not calls:
                continue
            fi = _fi(mod, fn)
            ck.analysed(mod, fn)
            for c in sorted(calls, key=lambda c: (getattr(c, 'lineno', 0), getattr(c, 'col_offset', 0))):
                cn = (call_name(c) or '').replace('numpy.', 'np.')
                k = _MASKED_OPERAND[cn]
                if len(c.args) <= k or any(isinstance(a, ast.Starred) for a in c.args):
                    ck.missing(rule, 'operands of the masked %s at %s' % (cn, mod.loc(c)))
                    continue
                n += 1
                role = 'divisor' if k == 1 else 'argument'
                D = canon(fi.expand(c.args[k]))
                m = canon(fi.expand(kwarg(c, 'where')))
                cmp_ = _elementwise_cmp(m)
                az = _against_zero(cmp_) if cmp_ is not None else None
                con = '%s(..., where=%s) with %s %s' % (cn, _cx(m)[:80], role, _cx(D)[:60])
                if az is None:
                    ck.missing(rule, 'mask of the masked %s at %s is not a comparison with zero: %s' % (cn, mod.loc(c), _cx(m)[:100]))
                    continue
                X, op = az
                if _cx(X) == _cx(D):
                    ck.check(op in (ast.NotEq, ast.Gt), rule, mod, c, q, con,
                             'the mask is the set where the %s is non-zero' % role,
                             'the mask of a guarded %s must select exactly the cells whose %s is non-zero (`%s != 0` / `> 0`); '
                             '`%s %s 0` %s' % ('division' if k == 1 else 'logarithm', role, _cx(D)[:60], _cx(D)[:60], _OP_TXT[op],
                                               'also selects cells where it is zero: 0/0 = NaN, x/0 = inf, log 0 = -inf enter the result'
                                               if op in (ast.GtE, ast.LtE, ast.Eq) else
                                               'selects no cell of a non-negative array: the zeros of the out= buffer are returned, every '
                                               'probability (and so every MI entry) is 0'))
                    continue
                if isinstance(X, ast.Subscript) and isinstance(D, ast.Subscript) and _unit_index(X.slice) and _unit_index(D.slice) \
                        and _cx(X.value) == _cx(D.value) and \
                        sorted(u(i) for i in _index_items(X.slice)) == sorted(u(i) for i in _index_items(D.slice)):
                    ck.bad(rule, mod, c, q, con, 'the mask compares `%s` but the %s is `%s`: the unit axes sit at different positions, so '
                           'the mask broadcasts along other axes than the %s (shape error, or cells guarded by the total of another '
                           'feature pair)' % (_cx(X)[:60], role, _cx(D)[:60], role))
                    continue
                ck.missing(rule, 'the mask of the masked %s at %s tests `%s`, which is not recognised as its %s `%s`' % (
                    cn, mod.loc(c), _cx(X)[:80], role, _cx(D)[:80]))
    ck.floor(rule, n, 6, 'masked divisions / logarithms in info_theory')



# ---------------------------------------------------------------------------
# D10 rejections: an argument check may only reject inputs outside the quantifier

def _same_shape_passthrough(v):
    """The Name whose array the value `v` still is, element for element and
    with the SAME SHAPE (a copy, a re-typed copy, np.asarray): unlike
    _passthrough no added unit axes and no validation helpers."""
    while v is not None:
        if isinstance(v, ast.Name):
            return v
        if isinstance(v, ast.Call) and not any(isinstance(a, ast.Starred) for a in v.args):
            cn = call_name(v) or ''
            if isinstance(v.func, ast.Attribute) and v.func.attr in ('astype', 'copy') and \
                    not (isinstance(v.func.value, ast.Name) and v.func.value.id in _MODULE_ALIASES):
                v = v.func.value
                continue
            if cn in ('np.asarray', 'np.array', 'np.ascontiguousarray', 'np.asanyarray', 'np.copy') and v.args:
                v = v.args[0]
                continue
        return None
    return None


class _ShapeSpelling(ast.NodeTransformer):
    """len(E) -> E.shape[0] (E an array, not itself a shape), E.ndim / np.ndim(E) -> len(E.shape), np.shape(E) -> E.shape."""

    def visit_Call(self, node):
        self.generic_visit(node)
        cn = call_name(node)
        if len(node.args) == 1 and not node.keywords and not isinstance(node.args[0], ast.Starred):
            a = node.args[0]
            if cn == 'len' and not (isinstance(a, ast.Attribute) and a.attr == 'shape') and \
                    isinstance(a, (ast.Name, ast.Attribute)):
                return ast.Subscript(value=ast.Attribute(value=a, attr='shape', ctx=ast.Load()), slice=ast.Constant(value=0), ctx=ast.Load())
            if cn in ('np.ndim', 'numpy.ndim'):
                return ast.Call(func=ast.Name(id='len', ctx=ast.Load()), args=[ast.Attribute(value=a, attr='shape', ctx=ast.Load())], keywords=[])
            if cn in ('np.shape', 'numpy.shape'):
                return ast.Attribute(value=a, attr='shape', ctx=ast.Load())
        return node

    def visit_Attribute(self, node):
        self.generic_visit(node)
        if node.attr == 'ndim' and isinstance(node.ctx, ast.Load):
            return ast.Call(func=ast.Name(id='len', ctx=ast.Load()), args=[ast.Attribute(value=node.value, attr='shape', ctx=ast.Load())], keywords=[])
        return node


def _shape_text(e):
    e = _ShapeSpelling().visit(copy.deepcopy(canon(e)))
    ast.fix_missing_locations(e)
    return u(e)


def _input_exprs(fi, e, at, keep=()):
    """The test `e`, evaluated at statement `at`, as a function of the
    function's INPUTS: temporaries expanded; every local that on every path
    holds a same-shape copy of a parameter spelled as that parameter.  A loop
    variable that runs over a literal tuple of such names (`for M in (P, Q)`)
    yields one alternative per element.  -> [expression]"""
    ren = {}
    for nm in fi.rd.locals:
        if nm in keep:
            continue
        o = _origin(fi, nm, at, _same_shape_passthrough)
        if o is not None:
            ren[nm] = o
    x = _xp(fi, e, at, stop=tuple(ren) + tuple(keep))
    alts = [{}]
    for n in ast.walk(x):
        if isinstance(n, ast.Name) and n.id not in ren and n.id in fi.rd.locals and not any(n.id in a for a in alts):
            defs = fi.rd.defs_at(at, n.id)
            site = next(iter(defs)) if len(defs) == 1 else None
            if isinstance(site, ast.For) and isinstance(site.target, ast.Name) and site.target.id == n.id and \
                    isinstance(site.iter, (ast.Tuple, ast.List)) and site.iter.elts and \
                    all(isinstance(el, ast.Name) for el in site.iter.elts):
                els = [ren.get(el.id) or (_origin(fi, el.id, site, _same_shape_passthrough)) for el in site.iter.elts]
                if all(els) and len(alts) == 1:
                    alts = [dict(alts[0], **{n.id: o}) for o in els]
    out = []
    for a in alts:
        m = dict(ren, **a)

        class R(ast.NodeTransformer):
            def visit_Name(self, n):
                return ast.copy_location(ast.Name(id=m[n.id], ctx=n.ctx), n) if n.id in m else n
        y = R().visit(copy.deepcopy(x))
        ast.fix_missing_locations(y)
        out.append(canon(y))
    return out


_COUNT_FORMS = ['len(np.where(_E)[0])', 'np.where(_E)[0].size', 'np.where(_E)[0].shape[0]', 'len(np.nonzero(_E)[0])',
                'np.nonzero(_E)[0].size', 'np.nonzero(_E)[0].shape[0]', 'len(_E.nonzero()[0])', '_E.nonzero()[0].size',
                '_E.nonzero()[0].shape[0]', 'np.count_nonzero(_E)', '_E.sum()']
_NUM_HOLDS = {ast.Lt: lambda a, b: a < b, ast.LtE: lambda a, b: a <= b, ast.Gt: lambda a, b: a > b, ast.GtE: lambda a, b: a >= b,
              ast.Eq: lambda a, b: a == b, ast.NotEq: lambda a, b: a != b}


def _count_of(e):
    """E when `e` is the number of cells of the element-wise comparison E that hold."""
    for f in _COUNT_FORMS:
        b = match(f, e)
        if b is not None and _elementwise_cmp(b['_E']) is not None:
            return b['_E']
    return None


def _num(x):
    v = const_value(x)
    return v if type(v) in (int, float) else None


def _quantified(atom):
    """Normal form of one atomic condition: ('scalar', lhs, op, rhs) |
    ('all', lhs, op, rhs) | ('any', lhs, op, rhs) - the comparison holds for the
    value / for all cells / for some cell - | ('const', bool) | None."""
    if isinstance(atom, Cmp):
        if atom.op not in _NUM_HOLDS:
            return None
        for cnt, k, op in ((atom.lhs, atom.rhs, atom.op), (atom.rhs, atom.lhs, _FLIP_OP[atom.op])):
            E = _count_of(cnt)
            if E is not None and type(_num(k)) is int:
                h = [_NUM_HOLDS[op](n, _num(k)) for n in range(0, 6)]
                c = _elementwise_cmp(E)
                if all(h) or not any(h):
                    return ('const', h[0])
                if not h[0] and all(h[1:]):
                    return ('any', c.lhs, c.op, c.rhs)
                if h[0] and not any(h[1:]):
                    c = c.negated()
                    return ('all', c.lhs, c.op, c.rhs)
                return None
        return ('scalar', atom.lhs, atom.op, atom.rhs)
    _k, e, pol = atom
    if isinstance(e, ast.Call) and isinstance(e.func, ast.Attribute) and e.func.attr in ('all', 'any') and not e.args and not e.keywords:
        c = _elementwise_cmp(e.func.value)
        if c is None or c.op not in _NUM_HOLDS:
            return None
        q = e.func.attr
        if not pol:
            c, q = c.negated(), {'all': 'any', 'any': 'all'}[q]
        return (q, c.lhs, c.op, c.rhs)
    if isinstance(e, ast.Constant):
        return ('const', bool(e.value) == pol)
    return ('scalar', e, ast.NotEq if pol else ast.Eq, ast.Constant(value=0))


class _Fact:
    """`operand op other` holds for every admissible input (for every cell when quant == 'all')."""

    def __init__(self, quant, operand, op, other, integer=False):
        self.quant, self.op, self.integer = quant, op, integer
        self.operand = _shape_text(ast.parse(operand, mode='eval').body)
        self.other = other if type(other) in (int, float) else _shape_text(ast.parse(other, mode='eval').body)

    def __repr__(self):
        return '%s%s %s %s' % ('all ' if self.quant == 'all' else '', self.operand, _OP_TXT[self.op], self.other)


def _relate(q, facts):
    """'valid' (holds for every admissible input), 'invalid' (for none),
    'partial' (for some), None (no fact speaks about these operands)."""
    quant, lhs, op, rhs = q
    for f in facts:
        if (f.quant == 'scalar') != (quant == 'scalar'):
            continue
        for a, b, o in ((lhs, rhs, op), (rhs, lhs, _FLIP_OP[op])):
            if _shape_text(a) != f.operand:
                continue
            if type(f.other) in (int, float):
                k = _num(b)
                if k is None or (f.integer and type(k) is not int):
                    continue
                ks = sorted({k, f.other})
                if f.integer:
                    dom = list(range(ks[0] - 1, ks[-1] + 2))
                else:
                    dom = [ks[0] - 1.0] + ks + [(ks[0] + ks[-1]) / 2.0] + [ks[-1] + 1.0]
                Fs = {p for p in dom if _NUM_HOLDS[f.op](p, f.other)}
                As = {p for p in dom if _NUM_HOLDS[o](p, k)}
            else:
                if _shape_text(b) != f.other:
                    continue
                dom = (-1, 0, 1)                 # sign of operand - other
                Fs = {p for p in dom if _NUM_HOLDS[f.op](p, 0)}
                As = {p for p in dom if _NUM_HOLDS[o](p, 0)}
            if not (Fs & As):
                return 'invalid'
            if Fs <= As:
                return 'valid'
            return 'partial'
    return None


def _exit_conditions(fi, stmt, keep=()):
    """[[atom]] - one list of atomic conditions (over the inputs) per way to
    reach the exception exit `stmt` (a raise, or an assert that fails); None
    for a condition that is not a conjunction."""
    base = [[]]
    for test, pol, owner in _facts(fi, stmt):
        at = owner if not isinstance(owner, ast.Assert) else owner
        alts = _input_exprs(fi, test, at, keep)
        nxt = []
        for e in alts:
            cs = conjuncts(e, pol)
            for b in base:
                nxt.append(None if b is None or cs is None else b + cs)
        base = nxt[:8]
    if isinstance(stmt, ast.Assert):
        tests = stmt.test.values if isinstance(stmt.test, ast.BoolOp) and isinstance(stmt.test.op, ast.And) else [stmt.test]
        out = []
        for t in tests:
            for e in _input_exprs(fi, t, stmt, keep):
                cs = conjuncts(e, False)
                for b in base:
                    out.append(None if b is None or cs is None else b + cs)
        return out
    return base


def _check_rejections(ck, rule, mod, fn, fi, facts, keep=(), extra=None):
    """Every raise / failing assert whose condition is a function of the
    inputs must be a rejection of an input the contract excludes: some atomic
    condition on the way to it contradicts a fact that holds for every
    admissible input.  If every condition holds for all or for some admissible
    inputs the check rejects valid data (VIOLATION); conditions the table
    cannot relate to a fact leave the exit undecided (incomplete).  Exits
    whose conditions read values computed inside the function (internal
    consistency assertions) are not argument checks and are left alone."""
    F = mod.qualname(fn)
    P = set(params(fn))
    from ..match import _NEUTRAL
    handlers = [h for t in ast.walk(fn) if isinstance(t, ast.Try) for h in t.handlers]
    n = 0
    for s in walk_local(fn):
        if not isinstance(s, (ast.Raise, ast.Assert)) or any(fi._within(s, h) for h in handlers):
            continue
        worst = None
        shown = ''
        for atoms in _exit_conditions(fi, s, keep):
            if atoms is None:
                verdict, why = 'unknown', 'a condition on the way to it is a disjunction'
            else:
                classes, txt = [], []
                free = set()
                for a in atoms:
                    q = _quantified(a)
                    t = repr(a) if isinstance(a, Cmp) else ('' if a[2] else 'not ') + u(a[1])
                    txt.append(t[:70])
                    c = None
                    if q is not None and q[0] == 'const':
                        c = 'valid' if q[1] else 'invalid'
                    elif q is not None:
                        c = _relate(q, facts)
                    if c is None and extra is not None:
                        c = extra(a)
                    if c is None:
                        es = [a.lhs, a.rhs] if isinstance(a, Cmp) else [a[1]]
                        free |= {x.id for e in es for x in ast.walk(e) if isinstance(x, ast.Name)} - P - set(_NEUTRAL) - set(_MODULE_ALIASES)
                    classes.append(c)
                shown = ' and '.join(txt)[:200] or 'unconditional'
                if 'invalid' in classes:
                    verdict, why = 'ok', ''
                elif free or not classes:
                    continue                      # reads values computed inside the function (or unconditional): not an argument check
                elif None in classes:
                    verdict, why = 'unknown', 'a condition is not related to a known fact about admissible inputs'
                elif classes.count('partial') > 1:
                    verdict, why = 'unknown', 'several conditions each hold for some admissible inputs'
                else:
                    verdict, why = 'bad', ''
            rank = {'ok': 0, 'unknown': 1, 'bad': 2}[verdict]
            if worst is None or rank > worst[0]:
                worst = (rank, verdict, why, shown)
        if worst is None:
            continue
        n += 1
        kind = 'assert' if isinstance(s, ast.Assert) else 'raise'
        con = '%s when %s' % (kind, worst[3])
        if worst[1] == 'ok':
            ck.ok(rule, mod, s, con, 'rejects only inputs outside the contract')
        elif worst[1] == 'bad':
            ck.bad(rule, mod, s, F, con, 'this %s is reached by admissible inputs: none of its conditions contradicts what holds for '
                   'every input of the contract (%s), so valid data are rejected instead of being processed' % (
                       kind, '; '.join(repr(f) for f in facts)[:240]))
        else:
            ck.missing(rule, 'argument check at %s (%s): %s' % (mod.loc(s), con[:140], worst[2]))
    return n


_INPUT_FACTS = {
    # what holds for EVERY input inside the quantifier of C18 (positional parameters {0}, {1}, ...)
    (EN, 'kl_divergence'): [('scalar', '{0}.shape', ast.Eq, '{1}.shape'), ('all', '{0}', ast.GtE, 0), ('all', '{1}', ast.GtE, 0)],
    (MI, 'weighted_mi'): [('scalar', 'len({0}.shape)', ast.Eq, 2, True), ('scalar', 'len({1}.shape)', ast.Eq, 1, True),
                          ('scalar', '{1}.shape[0]', ast.Eq, '{0}.shape[0]'), ('scalar', '{2}.shape[0]', ast.Eq, '{0}.shape[1]'),
                          ('all', '{1}', ast.GtE, 0), ('scalar', '{1}.sum()', ast.NotEq, 0)],
    (MI, 'channel_capacity_normalization'): [('all', '{1}', ast.GtE, 2, True), ('all', '{2}', ast.GtE, 2, True)],
}


def d10_rejections(ck):
    rule = 'C18.D10.rejections'
    for (rel, F), table in _INPUT_FACTS.items():
        mod = ck.repo.mod(rel)
        fn = mod.func(F)
        ck.analysed(mod, fn)
        ps = params(fn)
        try:
            facts = [_Fact(t[0], t[1].format(*ps), t[2], t[3].format(*ps) if isinstance(t[3], str) else t[3], *t[4:]) for t in table]
        except IndexError:
            ck.missing(rule, 'signature of %s' % F)
            continue
        _check_rejections(ck, rule, mod, fn, _fi(mod, fn), facts)


# ---------------------------------------------------------------------------
# D9 weighted estimator: ONE weight vector behind marginals and joints

_VIEW_ATTRS = {'T'}
_VIEW_METHODS = {'reshape', 'ravel', 'flatten', 'squeeze', 'transpose'}


def _same_elements(v):
    """The Name whose elements `v` holds unchanged: a (validated / re-typed)
    copy, a view with extra unit axes, a reshape or a transpose of it."""
    while v is not None:
        n = _passthrough(v)
        if n is not None:
            return n
        if isinstance(v, ast.Attribute) and v.attr in _VIEW_ATTRS:
            v = v.value
        elif isinstance(v, ast.Call) and isinstance(v.func, ast.Attribute) and v.func.attr in _VIEW_METHODS and \
                not (isinstance(v.func.value, ast.Name) and v.func.value.id in _MODULE_ALIASES):
            v = v.func.value
        elif isinstance(v, ast.Call) and (call_name(v) or '') in ('np.reshape', 'np.ravel', 'np.squeeze', 'np.transpose', 'np.expand_dims') \
                and v.args and not isinstance(v.args[0], ast.Starred):
            v = v.args[0]
        elif isinstance(v, ast.Subscript) and all(_is_const(i, None) or _is_const(i, Ellipsis) or _full_slice(i) for i in _index_items(v.slice)):
            v = v.value
        elif isinstance(v, ast.Call) and (call_name(v) or '') in _PASS_FUNCS | {'np.array'} and v.args and not isinstance(v.args[0], ast.Starred):
            v = v.args[0]
        else:
            return None
    return None


class _Versions:
    """Which VALUES of one vector-valued parameter W a local may hold.

    A local is a W-vector when every definition that reaches the point of
    interest is (a) the parameter itself, (b) a copy / view / re-typed form of
    a W-vector (same elements: the value class of its source), (c) an
    element-wise rescaling `v / e`, `v * e`, `v op= e` of a W-vector `v`, or
    any rebinding of W itself computed from a W-vector (a NEW value: the
    class is the defining statement).  vclass(name, at) is the set of value
    classes ('PARAM' or a value-changing definition) the name may hold at
    statement `at`, None when the name is not a W-vector there."""

    def __init__(self, fi, W):
        self.fi, self.W = fi, W
        self.memo = {}
        self.src = {}           # id(value-changing definition) -> value classes of the vector it was computed from

    def vclass(self, name, at, stack=None):
        stack = set() if stack is None else stack
        fi = self.fi
        sites = fi.rd.defs_at(at, name)
        if not sites:
            return None
        out = set()
        for site in sites:
            if site == 'PARAM':
                if name != self.W:
                    return None
                out.add('PARAM')
                continue
            if site == 'UNBOUND':
                return None
            key = (id(site), name)
            if key in stack:
                continue                    # loop-carried: adds no class of its own
            if key not in self.memo:
                stack.add(key)
                self.memo[key] = self._one(site, name, stack)
                stack.discard(key)
            r = self.memo[key]
            if r is None:
                return None
            out |= r
        return frozenset(out)

    def _one(self, site, name, stack):
        fi = self.fi
        if isinstance(site, ast.AugAssign):
            prev = self.vclass(name, site, stack) if isinstance(site.target, ast.Name) else None
            if prev is not None:
                self.src[id(site)] = prev
                return {site}
            return None
        v = fi.def_value(site, name)
        if v is None:
            return None
        inner = _same_elements(v)
        if inner is not None:
            return self.vclass(inner.id, site, stack)
        if isinstance(v, ast.BinOp) and isinstance(v.op, (ast.Div, ast.Mult)):
            inner = _same_elements(v.left)
            prev = self.vclass(inner.id, site, stack) if inner is not None else None
            if prev is not None:
                self.src[id(site)] = prev
                return {site}
        if name == self.W:
            prev = set()
            for n in ast.walk(v):
                if isinstance(n, ast.Name) and isinstance(n.ctx, ast.Load) and n.id not in _MODULE_ALIASES:
                    prev |= self.vclass(n.id, site, stack) or set()
            if prev:
                self.src[id(site)] = frozenset(prev)
                return {site}
        return None


def _consumers(fi, V, roots):
    """Backward DATA slice from the statements `roots` (reaching definitions
    of every name read + in-place updates of the object that can execute
    before the reader), cut at the W-vectors: returns [(name node, statement,
    value classes)] for every read of a W-vector by a statement that is not
    itself the definition of one - the places where the weights enter the
    estimate."""
    from ..cfg import header_uses
    seen, work, out = set(), list(roots), []
    while work:
        s = work.pop()
        if id(s) in seen or isinstance(s, Assume):
            continue
        seen.add(id(s))
        for n in header_uses(s):
            if n.id in _MODULE_ALIASES:
                continue
            vc = V.vclass(n.id, s)
            if vc is not None:
                out.append((n, s, vc))
                continue
            for site in fi.rd.defs_at(s, n.id):
                if site not in ('PARAM', 'UNBOUND'):
                    work.append(site)
            for ms in fi._mutated_in_place(n.id):
                if ms is not s and fi.cfg.reachable(ms, s):
                    work.append(ms)
    out.sort(key=lambda t: (getattr(t[0], 'lineno', 0), getattr(t[0], 'col_offset', 0)))
    return out


def _l1_forms(x):
    return ['np.linalg.norm(%s, ord=1)' % x, 'np.linalg.norm(%s, 1)' % x, '%s.sum()' % x, 'np.abs(%s).sum()' % x, 'abs(%s).sum()' % x,
            'float(%s.sum())' % x, 'np.sum(%s)' % x, 'np.add.reduce(%s)' % x, 'np.linalg.norm(%s, ord=1, axis=0)' % x]


def d9_weighted(ck):
    """weighted_mi estimates P(x), P(y) and P(x, y) from weighted frames; the
    identities of the property (bounded by the marginal entropies, equal to
    the count-based estimator for uniform weights, unchanged by a common
    factor of the weights) need ONE weight vector behind all of them: every
    place where the weights enter the returned value reads the same value of
    the weight vector - in particular no copy, view or rescaled form taken
    BEFORE the vector is rebound (normalised) may be consumed after it - and
    the rebinding that normalises is a division by the sum of the weights,
    skipped only when that sum is already 1."""
    rule = 'C18.D9.weighted'
    mod = ck.repo.mod(MI)
    F = 'weighted_mi'
    fn = mod.func(F)
    ck.analysed(mod, fn)
    P = params(fn)
    if len(P) < 2:
        ck.missing(rule, 'signature (features, weights, ...) of weighted_mi')
        return
    W = P[1]
    fi = _fi(mod, fn)
    V = _Versions(fi, W)
    roots = [r for r in returns_of(fn) if r.value is not None]
    cons = _consumers(fi, V, roots)
    ck.floor(rule + '.one-vector', len(cons), 1, 'places where the weight vector `%s` enters the value returned by weighted_mi' % W)
    if not cons:
        return
    # names that denote a W-vector somewhere, in-place updates of their objects are not versioned by reaching definitions
    vec_names = {n.id for n, s, vc in cons} | {W}
    for key, r in V.memo.items():
        if r is not None:
            vec_names.add(key[1])
    inplace = [ms for nm in sorted(vec_names) for ms in fi._mutated_in_place(nm)]
    if inplace:
        ck.missing(rule + '.one-vector', 'a weight vector of weighted_mi is updated in place (%s): which readers see the update depends on '
                   'aliasing, not decided' % u(inplace[0])[:80])
        return

    def marginal(n, s):
        for c in calls_in(s.value if isinstance(s, (ast.Assign, ast.Return, ast.Expr, ast.AugAssign)) and s.value is not None else s):
            if (call_name(c) or '') in ('np.bincount', 'numpy.bincount'):
                w = kwarg(c, 'weights') or (c.args[1] if len(c.args) > 1 else None)
                if w is not None and any(x is n for x in ast.walk(w)):
                    return True
        return False

    def show(vc):
        return ', '.join(sorted('the argument' if d == 'PARAM' else '`%s` (line %s)' % (u(d)[:60], getattr(d, 'lineno', '?')) for d in vc))

    full = set()
    for n, s, vc in cons:
        full |= set(vc)
    undecided = False
    for n, s, vc in cons:
        role = 'weighted marginal (np.bincount weights=)' if marginal(n, s) else 'weighted joint / product'
        what = '`%s` read by `%s`' % (n.id, u(s)[:70])
        # 'PARAM' is never lacking: every other class is computed from it, a reader of the newer value is not stale
        lacking = [d for d in full if d not in vc and d != 'PARAM']
        if not lacking:
            ck.ok(rule + '.one-vector', mod, n, what, '%s reads the weight vector as defined by: %s' % (role, show(vc)))
            continue
        # stale: the reader holds exactly what the rebinding d was computed FROM, although d can execute before the reader
        stale = [d for d in lacking if fi.cfg.reachable(d, s) and d is not s and set(vc) <= set(V.src.get(id(d), ()))]
        if not stale:
            undecided = True
            ck.missing(rule + '.one-vector', '%s at %s sees other definitions of the weight vector (%s) than another consumer (%s) on '
                       'different branches' % (what, mod.loc(n), show(vc), show(full)))
            continue
        if any(isinstance(d, ast.AugAssign) for d in stale):
            undecided = True
            ck.missing(rule + '.one-vector', '%s at %s: the weight vector is rescaled by an augmented assignment (%s); whether the value '
                       'taken before it is a view that follows the update is not decided' % (what, mod.loc(n), u(stale[0])[:60]))
            continue
        d = sorted(stale, key=lambda x: getattr(x, 'lineno', 0))[0]
        # where the stale value was taken: the definition of the consumed name that precedes the rebinding
        taken = [site for site in fi.rd.defs_at(s, n.id) if site not in ('PARAM', 'UNBOUND')]
        origin = u(taken[0])[:80] if taken and n.id != W else 'the value `%s` held before' % W
        ck.bad(rule + '.one-vector', mod, n, F, 'stale weight vector consumed: %s' % what,
               '%s consumes `%s`, whose elements are those of the weight vector BEFORE it is rebound by `%s` (line %s) [%s], while other '
               'parts of the estimate (%s) read the vector after that rebinding: marginals and joints are computed from two different '
               'weight vectors, so the result depends on the scale of the weights, is not bounded by the marginal entropies and differs '
               'from the count-based estimator for un-normalised uniform weights' % (
                   role, n.id, u(d)[:80], getattr(d, 'lineno', '?'), origin,
                   '; '.join('`%s`' % u(s2)[:50] for n2, s2, vc2 in cons if d in vc2)[:200]))
    if undecided:
        return
    # ---- the value-changing definitions: normalisation to unit sum
    rn = rule + '.normalised'
    norm_defs = sorted((d for d in full if d != 'PARAM'), key=lambda x: getattr(x, 'lineno', 0))
    recognised = 0
    for d in norm_defs:
        if isinstance(d, ast.AugAssign):
            tgt, val, op = d.target, d.value, d.op
            src = tgt if isinstance(tgt, ast.Name) else None
            if src is None or not isinstance(op, ast.Div):
                continue
            den = val
        else:
            tn = [t.id for t in d.targets if isinstance(t, ast.Name)] if isinstance(d, ast.Assign) else \
                ([d.target.id] if isinstance(getattr(d, 'target', None), ast.Name) else [])
            v = fi.def_value(d, tn[0]) if tn else None
            if not (isinstance(v, ast.BinOp) and isinstance(v.op, ast.Div)):
                continue
            src = _same_elements(v.left)
            den = v.right
            if src is None:
                continue
        x = src.id
        dx = fi.expand(den, stop=(x,))
        # the denominator must be computed from the vector that is divided (same value)
        alias = {m.id for m in ast.walk(dx) if isinstance(m, ast.Name) and m.id not in _MODULE_ALIASES and m.id != x
                 and V.vclass(m.id, d) is not None and V.vclass(m.id, d) == V.vclass(x, d)}
        if alias:
            class R(ast.NodeTransformer):
                def visit_Name(self, m):
                    return ast.copy_location(ast.Name(id=x, ctx=m.ctx), m) if m.id in alias else m
            dx = R().visit(copy.deepcopy(dx))
        verdict = classify(dx, _l1_forms(x), scope={x})
        if verdict[0] == 'far' and const_value(canon(dx)) is not None:
            continue                        # a constant rescaling, not the normalisation
        if ck.decide(verdict, rn, mod, d, F, 'weights normalised by `%s`' % _cx(dx)[:80],
                     'the weight vector is divided by its sum (unit L1 norm)',
                     'the weights must be normalised to unit SUM (they are probabilities of the frames: marginals and joints must add '
                     'up to 1); another norm leaves a scale factor in every probability'):
            recognised += 1
        if verdict[0] != 'match':
            continue
        # conditions under which this normalisation is skipped
        last = cons[-1][1]
        guards = [a for a in fi.cfg.nodes if isinstance(a, Assume) and fi.cfg.dominates(a, d) and not fi.cfg.dominates(a, last)]
        if not guards:
            continue
        if len(guards) > 1:
            ck.missing(rn, 'the normalisation `%s` of weighted_mi is nested in %d conditions' % (u(d)[:60], len(guards)))
            continue
        g = guards[0]
        gx = canon(fi.expand(g.test, stop=(x,)))
        names = {m.id for m in ast.walk(gx) if isinstance(m, ast.Name) and m.id not in _MODULE_ALIASES}
        atoms = conjuncts(gx, g.polarity)
        dec = None
        if names == {x} and fi.rd.defs_at(g.owner, x) == fi.rd.defs_at(d, x) and atoms and len(atoms) == 1 and isinstance(atoms[0], Cmp):
            a = atoms[0]
            for lhs, rhs, cmp in ((a.lhs, a.rhs, a), (a.rhs, a.lhs, a.flipped())):
                c = const_value(rhs)
                if classify(lhs, _l1_forms(x))[0] == 'match' and isinstance(c, (int, float)) and not isinstance(c, bool) and c == 1:
                    dec = cmp.op is ast.NotEq
        if dec is None:
            ck.missing(rn, 'condition `%s` under which weighted_mi normalises its weights not recognised' % _cx(gx)[:80])
        else:
            ck.check(dec, rn, mod, g.owner, F, 'normalisation skipped unless `%s`' % _cx(gx)[:80],
                     'the normalisation is skipped only when the weights already sum to 1',
                     'the normalisation may be skipped only when the weights already sum to 1; under this test weight vectors with '
                     'another sum reach the estimate un-normalised')
    if not recognised and not ck_has_bad(ck, rn):
        ck.missing(rn, 'normalisation of the weight vector of weighted_mi to unit sum (no definition `w / w.sum()` reaches the estimate)')


def _flag_polarity(fi, st, flag):
    """True / False: control reaches `st` only when the boolean parameter
    `flag` is true / false; None: no dominating test of the flag."""
    if fi.rd.defs_at(st, flag) != {'PARAM'}:
        return None
    pol = None
    for a in _atoms(fi, st, stop=(flag,)):
        if isinstance(a, Cmp):
            if u(a.lhs) == flag and isinstance(a.rhs, ast.Constant) and type(a.rhs.value) is bool and \
                    a.op in (ast.Is, ast.IsNot, ast.Eq, ast.NotEq):
                pol = (a.rhs.value is True) == (a.op in (ast.Is, ast.Eq))
        elif isinstance(a[1], ast.Name) and a[1].id == flag:
            pol = a[2]
    return pol


def _normalize_flag(ck, rule, mod, fn, fi, F, call, default_index):
    """channel_capacity_normalization is applied exactly when the caller asks
    for it (`normalize`): with the test inverted the default call returns the
    raw MI and normalize=False returns the normalised one, so the estimators
    of the property (count-based vs weighted, both un-normalised) differ."""
    ps = params(fn)
    flag = 'normalize' if 'normalize' in ps else ps[default_index] if len(ps) > default_index else None
    if flag is None:
        ck.missing(rule, 'the `normalize` parameter of %s' % F)
        return
    pol = _flag_polarity(fi, fi.stmt(call), flag)
    if pol is None:
        ck.missing(rule, 'the test of `%s` that guards %s in %s' % (flag, u(call)[:60], F))
    else:
        ck.check(pol, rule, mod, call, F, '%s under `%s%s`' % (u(call)[:80], '' if pol else 'not ', flag),
                 'normalised exactly when `%s` is true' % flag,
                 'the channel-capacity normalisation runs when `%s` is FALSE and is skipped when it is true: the default call '
                 'returns the un-normalised MI and %s(..., %s=False) a normalised one' % (flag, F, flag))


def _weighted_term(ck, rule, mod, fn, fi, F):
    """The summand of the mutual information is p * log(p / q) with the SAME
    array p (the joint distribution) as multiplier and as numerator of the
    ratio, q being the product of the marginals.  Located by role: the
    logarithm, the quotient it is taken of, the product it enters - written
    as one expression or as the in-place chain
    divide(A, B, out=O); log(O, out=O); multiply(C, O, out=O)."""
    found = []
    for lg in calls_in(fn, 'np.log'):
        if not lg.args or isinstance(lg.args[0], ast.Starred):
            continue
        st = fi.stmt(lg)
        out, arg = kwarg(lg, 'out'), lg.args[0]
        if isinstance(out, ast.Name) and isinstance(arg, ast.Name) and out.id == arg.id:
            O = out.id
            into = lambda c: (isinstance(kwarg(c, 'out'), ast.Name) and kwarg(c, 'out').id == O) or (
                kwarg(c, 'out') is not None and isinstance(fi.stmt(c), ast.Assign) and fi.stmt(c).value is c and
                any(isinstance(t, ast.Name) and t.id == O for t in fi.stmt(c).targets))
            divs = [c for c in calls_in(fn, 'np.divide', 'np.true_divide') if len(c.args) >= 2 and into(c) and fi.cfg.dominates(fi.stmt(c), st)]
            muls = [c for c in calls_in(fn, 'np.multiply') if len(c.args) >= 2 and isinstance(kwarg(c, 'out'), ast.Name) and
                    kwarg(c, 'out').id == O and fi.cfg.dominates(st, fi.stmt(c)) and
                    sum(1 for a in c.args[:2] if isinstance(a, ast.Name) and a.id == O) == 1]
            if len(divs) == 1 and len(muls) == 1:
                other = [a for a in muls[0].args[:2] if not (isinstance(a, ast.Name) and a.id == O)][0]
                found.append((muls[0], other, divs[0].args[0], divs[0].args[1]))
            continue
        # one expression: <C> * np.log(<A> / <B>)
        par = mod.parent.get(lg)
        other = None
        if isinstance(par, ast.BinOp) and isinstance(par.op, ast.Mult):
            other = par.right if par.left is lg else par.left
        elif isinstance(par, ast.Call) and call_name(par) == 'np.multiply' and len(par.args) >= 2 and any(a is lg for a in par.args[:2]):
            other = par.args[1] if par.args[0] is lg else par.args[0]
        r = canon(_xp(fi, arg, st))
        a = b = None
        if isinstance(r, ast.BinOp) and isinstance(r.op, ast.Div):
            a, b = r.left, r.right
        elif isinstance(r, ast.Call) and call_name(r) in ('np.divide', 'np.true_divide') and len(r.args) >= 2:
            a, b = r.args[:2]
        if other is not None and a is not None:
            found.append((par, other, a, b))
    if not found:
        ck.missing(rule, 'the summand p * log(p / q) of weighted_mi (a logarithm of a quotient that is multiplied by an array)')
        return
    for node, mult, num, den in found:
        st = fi.stmt(node)
        tm, tn, td = (_cx(_xp(fi, x, st)) for x in (mult, num, den))
        con = '%s * log(%s / %s)' % tuple(t if len(t) < 40 else t[:37] + '...' for t in (u(mult), u(num), u(den)))
        if tm == tn and tm != td:
            ck.ok(rule, mod, node, con, 'the multiplier of the logarithm is the numerator of the ratio: p log(p/q)')
        elif tm == td and tm != tn:
            ck.bad(rule, mod, node, F, con, 'the summand must be p * log(p / q) with the joint distribution p as multiplier AND numerator; '
                   'here the multiplier is the DENOMINATOR of the ratio: p * log(q / p) = -p log(p/q), every term changes sign')
        else:
            ck.missing(rule, 'multiplier `%s` of the logarithm in weighted_mi is neither the numerator nor the denominator of the ratio' % u(mult)[:60])


def d9_weighted_structure(ck):
    """Structural clauses of weighted_mi that the one-weight-vector rule (D9)
    does not cover: default state counts only when none are given, the
    normalisation flag, the arguments of the normalisation."""
    rule = 'C18.D9.weighted'
    mod = ck.repo.mod(MI)
    F = 'weighted_mi'
    fn = mod.func(F)
    ck.analysed(mod, fn)
    P = params(fn)
    if len(P) < 3:
        ck.missing(rule, 'signature (features, weights, n_feature_states, ...) of weighted_mi')
        return
    X, W, NS = P[:3]
    fi = _fi(mod, fn)
    # ---- the default state count replaces only a missing argument
    n = 0
    for site in walk_local(fn):
        if not isinstance(site, (ast.Assign, ast.AnnAssign)):
            continue
        v = fi.def_value(site, NS)
        if v is None:
            continue
        ve = fi.expand(v, stop=(X, NS))
        uses_max = any(isinstance(c, ast.Call) and isinstance(c.func, ast.Attribute) and c.func.attr == 'max' and
                       _origin_of(fi, c.func.value, site) == X for c in ast.walk(ve))
        if not uses_max:
            continue
        n += 1
        gs = [a.op is ast.Is for a in _atoms(fi, site, stop=(X, NS))
              if isinstance(a, Cmp) and a.op in (ast.Is, ast.IsNot) and u(a.lhs) == NS and _is_const(a.rhs, None)]
        ck.check(bool(gs) and all(gs), rule + '.defaults', mod, site, F, u(site)[:120],
                 'the default state counts are computed only when %s is None' % NS,
                 'the default state counts (largest id + 1) must replace `%s` only when it is None; here they are computed %s, so a '
                 'caller-supplied vector is overwritten%s' % (
                     NS, 'when it is NOT None' if gs else 'unconditionally',
                     ' and the None of the default call reaches the code that expects an array' if gs else ''))
    if n == 0:
        ck.missing(rule + '.defaults', 'default `%s` = largest id of `%s` + 1 in weighted_mi' % (NS, X))
    _weighted_term(ck, rule + '.term', mod, fn, fi, F)
    # ---- normalisation: flag and arguments
    cc = [c for c in calls_in(fn) if (call_name(c) or '').split('.')[-1] == 'channel_capacity_normalization']
    if len(cc) != 1 or len(cc[0].args) != 3 or cc[0].keywords or any(isinstance(a, ast.Starred) for a in cc[0].args):
        ck.missing(rule + '.ccn', 'one call channel_capacity_normalization(mi, n, n) in weighted_mi')
        return
    c = cc[0]
    st = fi.stmt(c)
    _normalize_flag(ck, rule + '.ccn', mod, fn, fi, F, c, 3)
    held = [(_passthrough(a).id if _passthrough(a) is not None else None) for a in c.args]
    # the state-count vector is whatever the local of that name holds (argument or default); the MI matrix is not it
    con = u(c)[:120]
    if held[0] in (NS, X, W) or any(h is not None and h in (X, W, held[0]) for h in held[1:]):
        ck.bad(rule + '.ccn', mod, c, F, con,
               'channel_capacity_normalization(mi, n_x, n_y) must receive the MI matrix first and the state counts `%s` for both '
               'sides (weighted_mi compares the features with themselves); it receives (%s)' % (NS, ', '.join(str(h) for h in held)))
    elif held[1] == NS and held[2] == NS and held[0] is not None:
        ck.ok(rule + '.ccn', mod, c, con, 'called as (mi, n_states, n_states): both sides of the matrix are the same features')
    else:
        ck.missing(rule + '.ccn', 'arguments of %s are not recognised as (MI matrix, %s, %s)' % (con, NS, NS))


# ---- symbolic shapes of the weighted estimator ------------------------------------------------

_SUNK = ('unk',)
_SEMPTY = ('seq', None, 0)
_DIM_NAMES = {'T': 'observations', 'F': 'features', 'S': 'states', 'K': 'state pairs'}


class _Shapes:
    """Abstract interpretation of weighted_mi over SYMBOLIC array shapes: the
    extents T (observations), F (features), S (states), K (pairs of states)
    are independent of each other inside the quantifier (any number of
    frames, features and states), so two axes can be combined element-wise /
    contracted by a matrix product / indexed by a loop variable only if they
    carry the same symbol (or one is a unit axis).  Values:
      ('arr', dims, elem)   dims of symbols, ints or None (unknown); elem = what the cells hold ('ids', 'count', an index kind) or None
      ('int', sym)          an integer equal to the extent `sym`
      ('idx', sym)          an integer that indexes an axis of extent `sym`
      ('seq', elem, sym)    a list / iterable of `elem` values, `sym` long
      ('tup', [values])     a tuple
      ('maxid',)            the largest state id
      ('unk',)              anything else
    A conflict of two KNOWN symbols is a recognised wrong content; anything
    the table does not know evaluates to unknown and can never produce a
    conflict.  Nothing of the analysed code is executed."""

    def __init__(self):
        self.problems = []
        self.loops = []
        self.returns = []
        self.skips = []           # per open loop: its body can skip the rest of a trip / leave early (continue, break)
        self.born = {}            # name -> loop depth at which it was bound to a fresh empty list

    def problem(self, node, msg):
        if not any(n is node and m == msg for n, m in self.problems):
            self.problems.append((node, msg))

    # -- helpers
    @staticmethod
    def arr(dims, elem=None):
        return ('arr', tuple(dims), elem)

    def bdim(self, a, b, node, what):
        if a == b:
            return a
        if a == 1:
            return b
        if b == 1:
            return a
        if a is None or b is None:
            return None
        if isinstance(a, str) and isinstance(b, str):
            self.problem(node, '%s combines an axis over the %s with an axis over the %s' % (what, _DIM_NAMES[a], _DIM_NAMES[b]))
        return None

    def broadcast(self, x, y, node, what='an element-wise operation'):
        if x[0] != 'arr' or y[0] != 'arr':
            ax = x if x[0] == 'arr' else y if y[0] == 'arr' else None
            other = y if ax is x else x
            if ax is not None and other[0] in ('int', 'idx', 'const', 'maxid', 'scalar'):
                return self.arr(ax[1])
            return _SUNK
        a, b = list(x[1]), list(y[1])
        n = max(len(a), len(b))
        a, b = [1] * (n - len(a)) + a, [1] * (n - len(b)) + b
        return self.arr([self.bdim(p, q, node, what) for p, q in zip(a, b)])

    def length(self, v):
        if v[0] == 'arr' and v[1]:
            return v[1][0]
        if v[0] == 'seq':
            return v[2]
        if v[0] == 'tup':
            return len(v[1])
        return None

    def element(self, v):
        if v[0] == 'seq':
            return v[1]
        if v[0] == 'arr' and v[1]:
            if len(v[1]) == 1:
                return ('idx', v[2]) if isinstance(v[2], str) and v[2] in _DIM_NAMES else ('scalar',)
            return self.arr(v[1][1:], v[2])
        return _SUNK

    def bind(self, target, v, env):
        if isinstance(target, ast.Name):
            env[target.id] = v
        elif isinstance(target, (ast.Tuple, ast.List)):
            vs = v[1] if v[0] == 'tup' and len(v[1]) == len(target.elts) else [_SUNK] * len(target.elts)
            for t, x in zip(target.elts, vs):
                self.bind(t, x, env)

    def dims_of(self, v):
        """dims named by a shape argument: an int value or a tuple of them."""
        one = lambda x: x[1] if x[0] == 'int' else x[1] if x[0] == 'const' and type(x[1]) is int else None
        if v[0] == 'tup':
            return [one(x) for x in v[1]]
        if v[0] in ('int', 'const'):
            return [one(v)]
        return None

    # -- expressions
    def ev(self, e, env):
        m = getattr(self, 'ev_' + type(e).__name__, None)
        return m(e, env) if m is not None else _SUNK

    def ev_Name(self, e, env):
        return env.get(e.id, _SUNK)

    def ev_Constant(self, e, env):
        return ('const', e.value)

    def ev_Tuple(self, e, env):
        return ('tup', [self.ev(x, env) for x in e.elts])

    def ev_List(self, e, env):
        # `[]`: a list nothing was appended to yet (see `append` in ev_Call and the loop join in `run`)
        return _SEMPTY if not e.elts else self.ev_Tuple(e, env)

    def ev_IfExp(self, e, env):
        self.ev(e.test, env)
        a, b = self.ev(e.body, env), self.ev(e.orelse, env)
        return a if a == b else _SUNK

    def ev_UnaryOp(self, e, env):
        v = self.ev(e.operand, env)
        return v if v[0] == 'arr' else _SUNK

    def ev_Attribute(self, e, env):
        v = self.ev(e.value, env)
        if v[0] == 'arr':
            if e.attr == 'T':
                return self.arr(reversed(v[1]), v[2])
            if e.attr == 'shape':
                return ('tup', [('int', d) if isinstance(d, str) else ('const', d) if isinstance(d, int) else _SUNK for d in v[1]])
        return _SUNK

    def ev_BinOp(self, e, env):
        a, b = self.ev(e.left, env), self.ev(e.right, env)
        if isinstance(e.op, ast.MatMult):
            return self.matmul(a, b, e)
        if a[0] == 'maxid' and isinstance(e.op, ast.Add) and b == ('const', 1) or b[0] == 'maxid' and isinstance(e.op, ast.Add) and a == ('const', 1):
            return ('int', 'S')
        if a[0] == 'arr' or b[0] == 'arr':
            return self.broadcast(a, b, e)
        return _SUNK

    def ev_Compare(self, e, env):
        if len(e.ops) != 1:
            return _SUNK
        a, b = self.ev(e.left, env), self.ev(e.comparators[0], env)
        for x, y in ((a, b), (b, a)):
            if x[0] == 'arr' and x[2] == 'ids' and y == ('idx', 'S') and not isinstance(e.ops[0], ast.Eq):
                self.problem(e, 'the indicator of a state is `ids == state`; `%s` marks the observations that are NOT in that state '
                             '(or orders the ids)' % u(e))
        if a[0] == 'arr' or b[0] == 'arr':
            r = self.broadcast(a, b, e, 'a comparison')
            return self.arr(r[1], 'bool') if r[0] == 'arr' else r
        return _SUNK

    def ev_Subscript(self, e, env):
        v = self.ev(e.value, env)
        items = _index_items(e.slice)
        if v[0] == 'tup':
            k = const_value(e.slice)
            if type(k) is int and -len(v[1]) <= k < len(v[1]):
                return v[1][k]
            if isinstance(e.slice, ast.Slice) and e.slice.step is None:
                lo = 0 if e.slice.lower is None else const_value(e.slice.lower)
                hi = len(v[1]) if e.slice.upper is None else const_value(e.slice.upper)
                if type(lo) is int and type(hi) is int:
                    return ('tup', v[1][lo:hi])
            return _SUNK
        if v[0] == 'seq':
            return v[1] if len(items) == 1 and not isinstance(items[0], ast.Slice) else _SUNK
        if v[0] != 'arr':
            for it in items:
                self.ev(it, env) if not isinstance(it, ast.Slice) else None
            return _SUNK
        dims = list(v[1])
        real = [it for it in items if not _is_const(it, None) and not _is_const(it, Ellipsis)]
        if len(real) > len(dims) or sum(1 for it in items if _is_const(it, Ellipsis)) > 1:
            return _SUNK
        out, pos = [], 0
        for it in items:
            if _is_const(it, Ellipsis):
                fill = len(dims) - len(real)
                out += dims[pos:pos + fill]
                pos += fill
            elif _is_const(it, None):
                out.append(1)
            elif isinstance(it, ast.Slice):
                out.append(dims[pos] if _full_slice(it) else None)
                pos += 1
            else:
                iv = self.ev(it, env)
                d = dims[pos]
                if iv[0] == 'idx' and isinstance(iv[1], str) and isinstance(d, str) and iv[1] != d:
                    self.problem(e, '`%s` indexes the axis over the %s (axis %d of `%s`) with an index that runs over the %s' % (
                        u(e)[:60], _DIM_NAMES[d], pos, u(e.value)[:40], _DIM_NAMES[iv[1]]))
                if iv[0] == 'arr':
                    return _SUNK              # fancy / mask indexing
                pos += 1
        out += dims[pos:]
        return self.arr(out, v[2])

    def comprehension(self, e, env):
        if len(e.generators) != 1 or e.generators[0].is_async:
            return _SUNK
        g = e.generators[0]
        it = self.ev(g.iter, env)
        inner = dict(env)
        self.bind(g.target, self.element(it), inner)
        for c in g.ifs:
            self.ev(c, inner)
        elem = self.ev(e.elt, inner)
        return ('seq', elem, None if g.ifs else self.length(it))

    def ev_ListComp(self, e, env):
        return self.comprehension(e, env)

    ev_GeneratorExp = ev_ListComp

    def matmul(self, a, b, node):
        if a[0] != 'arr' or b[0] != 'arr' or len(a[1]) != 2 or len(b[1]) != 2:
            return _SUNK
        (n, m), (m2, p) = a[1], b[1]
        if isinstance(m, str) and isinstance(m2, str) and m != m2:
            self.problem(node, 'the matrix product contracts an axis over the %s with an axis over the %s (operand shapes (%s) and (%s)): '
                         'the joint weight of a pair of features is the sum over the OBSERVATIONS of weight x indicator x indicator' % (
                             _DIM_NAMES[m], _DIM_NAMES[m2], ', '.join(map(str, a[1])), ', '.join(map(str, b[1]))))
        return self.arr([n, p])

    def stack(self, v, how):
        if v[0] == 'tup':
            elems, n = v[1], len(v[1])
            if not elems or any(x != elems[0] for x in elems):
                return _SUNK
            el = elems[0]
        elif v[0] == 'seq':
            el, n = v[1], v[2]
        else:
            return _SUNK
        if el is None:
            return _SUNK
        if el[0] == 'tup' and how == 'array':
            inner = self.stack(el, 'array')
            return self.arr((n,) + inner[1], inner[2]) if inner[0] == 'arr' else _SUNK
        if el[0] in ('idx', 'int', 'const', 'scalar') and how == 'array':
            return self.arr((n,), el[1] if el[0] == 'idx' else None)
        if el[0] != 'arr':
            return _SUNK
        d = el[1]
        if how == 'array':
            return self.arr((n,) + d, el[2])
        if how == 'vstack':
            return self.arr((n,) + d, el[2]) if len(d) == 1 else self.arr((None,) + d[1:], el[2]) if d else _SUNK
        if how == 'dstack':
            return self.arr(d + (n,), el[2]) if len(d) == 2 else self.arr((1,) + d + (n,), el[2]) if len(d) == 1 else _SUNK
        return _SUNK

    def ev_Call(self, e, env):
        cn = (call_name(e) or '').replace('numpy.', 'np.')
        if any(isinstance(a, ast.Starred) for a in e.args) or any(k.arg is None for k in e.keywords):
            for a in e.args:
                self.ev(a.value if isinstance(a, ast.Starred) else a, env)
            return _SUNK
        args = [self.ev(a, env) for a in e.args]
        kw = {k.arg: self.ev(k.value, env) for k in e.keywords}
        a0 = args[0] if args else _SUNK
        last = cn.split('.')[-1]
        if isinstance(e.func, ast.Attribute) and cn.split('.')[0] not in _MODULE_ALIASES + ('itertools',):
            recv = self.ev(e.func.value, env)
            m = e.func.attr
            if m == 'append' and isinstance(e.func.value, ast.Name) and recv[0] == 'seq' and len(args) == 1:
                # the length is known for a list that was born empty at this loop depth (one element more) or
                # just outside the innermost loop and receives its first append of the iteration (one per trip)
                born, depth = self.born.get(e.func.value.id), len(self.loops)
                if born == depth and type(recv[2]) is int:
                    n = recv[2] + 1
                elif born is not None and born + 1 == depth and recv == _SEMPTY and not self.skips[-1]:
                    n = self.loops[-1]
                else:
                    n = None
                env[e.func.value.id] = ('seq', args[0] if recv[1] in (None, args[0]) else _SUNK, n)
                return _SUNK
            if recv[0] == 'seq' and m == 'copy' and not args and not kw:
                # the front end spells `np.array(<name>)` as `<name>.copy()`; a true list copy that is converted
                # later has the same extents, and nothing but array operations is defined on the result here
                return self.stack(recv, 'array')
            if recv[0] == 'arr':
                if m in ('copy', 'astype', 'clip', 'cumsum', 'round'):
                    return recv
                if m == 'max' and not args and not kw:
                    return ('int', 'S') if recv[2] == 'count' else ('maxid',) if recv[2] == 'ids' else ('scalar',)
                if m in ('sum', 'mean', 'any', 'all', 'max', 'min', 'prod'):
                    ax = kw.get('axis', args[0] if args else ('const', None))
                    if ax == ('const', None):
                        return ('scalar',)
                    k = ax[1] if ax[0] == 'const' and type(ax[1]) is int else None
                    n = len(recv[1])
                    if k is None or kw.get('keepdims', ('const', False)) != ('const', False):
                        return _SUNK
                    if not -n <= k < n:
                        self.problem(e, '`%s` reduces axis %d of an array with %d axes' % (u(e)[:60], k, n))
                        return _SUNK
                    return self.arr([d for i, d in enumerate(recv[1]) if i != k % n])
                if m == 'transpose' and not args:
                    return self.arr(reversed(recv[1]), recv[2])
            return _SUNK
        if cn == 'len' and len(args) == 1:
            d = self.length(a0)
            return ('int', d) if isinstance(d, str) else ('const', d) if isinstance(d, int) else _SUNK
        if cn == 'int' and len(args) == 1:
            return a0 if a0[0] in ('int', 'maxid', 'idx') else _SUNK
        if cn == 'max' and len(args) == 1:
            return ('int', 'S') if a0[0] == 'arr' and a0[2] == 'count' else _SUNK
        if cn == 'range' and len(args) == 1:
            return ('seq', ('idx', a0[1]), a0[1]) if a0[0] == 'int' else _SUNK
        if cn == 'np.arange' and len(args) == 1:
            return self.arr((a0[1],), a0[1]) if a0[0] == 'int' else _SUNK
        if cn in ('list', 'tuple', 'iter') and len(args) == 1:
            if a0[0] == 'arr':
                return ('seq', self.element(a0), self.length(a0))
            return a0 if a0[0] in ('seq', 'tup') else _SUNK
        if cn in ('itertools.product', 'product') and len(args) == 2 and not kw:
            el = [self.element(x) for x in args]
            both = all(x == ('idx', 'S') for x in el)
            return ('seq', ('tup', el), 'K' if both else None)
        if cn in ('enumerate',) and len(args) == 1:
            return ('seq', ('tup', [('idx', self.length(a0)) if isinstance(self.length(a0), str) else _SUNK, self.element(a0)]), self.length(a0))
        if cn == 'zip' and args:
            return ('seq', ('tup', [self.element(x) for x in args]), self.length(a0))
        if cn == 'np.bincount' and args:
            w = kw.get('weights', args[1] if len(args) > 1 else None)
            ml = kw.get('minlength', args[2] if len(args) > 2 else None)
            if a0[0] == 'arr' and w is not None and w[0] == 'arr' and len(a0[1]) == 1 and len(w[1]) == 1:
                p, q = a0[1][0], w[1][0]
                if isinstance(p, str) and isinstance(q, str) and p != q:
                    self.problem(e, 'np.bincount counts a vector over the %s with weights over the %s: a weighted marginal adds the weight '
                                 'of every OBSERVATION to the state of one feature in that observation' % (_DIM_NAMES[p], _DIM_NAMES[q]))
            return self.arr((ml[1],)) if ml is not None and ml[0] == 'int' else self.arr((None,))
        if cn in ('np.vstack', 'np.dstack') and len(args) == 1:
            return self.stack(a0, last)
        if cn in ('np.array', 'np.asarray', 'np.asanyarray', 'np.ascontiguousarray', 'np.copy', 'np.stack') and args:
            if a0[0] == 'arr':
                return a0
            if cn == 'np.stack' and (len(args) > 1 or 'axis' in kw):
                return _SUNK
            return self.stack(a0, 'array')
        if cn == 'np.meshgrid' and len(args) == 2:
            ix = kw.get('indexing', ('const', 'xy'))
            if all(x[0] == 'arr' and len(x[1]) == 1 for x in args) and ix in (('const', 'xy'), ('const', 'ij')):
                d = (args[1][1][0], args[0][1][0]) if ix[1] == 'xy' else (args[0][1][0], args[1][1][0])
                return ('tup', [self.arr(d), self.arr(d)])
            return _SUNK
        if cn in ('np.matmul', 'np.dot') and len(args) == 2 and 'out' not in kw:
            return self.matmul(args[0], args[1], e)
        if cn in ('np.zeros', 'np.ones', 'np.empty', 'np.full') and args:
            d = self.dims_of(kw.get('shape', a0))
            fill = args[1] if cn == 'np.full' and len(args) > 1 else kw.get('fill_value')
            return self.arr(d, 'count' if fill == ('int', 'S') else None) if d is not None else _SUNK
        if cn in ('np.zeros_like', 'np.ones_like', 'np.empty_like', 'np.full_like') and args:
            return self.arr(a0[1]) if a0[0] == 'arr' else _SUNK
        if cn in ('np.divide', 'np.true_divide', 'np.multiply', 'np.add', 'np.subtract', 'np.fmin', 'np.fmax', 'np.minimum', 'np.maximum') \
                and len(args) == 2:
            r = self.broadcast(args[0], args[1], e, cn)
            for extra in ('where', 'out'):
                if extra in kw and kw[extra][0] == 'arr' and r[0] == 'arr':
                    r = self.broadcast(r, kw[extra], e, '%s (%s=)' % (cn, extra))
            return r
        if cn in ('np.log', 'np.log2', 'np.exp', 'np.abs', 'np.sqrt', 'np.isnan', 'np.isinf', 'np.isfinite', 'np.clip', 'np.nan_to_num',
                  'np.negative', 'np.logical_not') and args:
            r = a0
            for extra in ('where', 'out'):
                if extra in kw and kw[extra][0] == 'arr' and r[0] == 'arr':
                    r = self.broadcast(r, kw[extra], e, '%s (%s=)' % (cn, extra))
            return r if r[0] == 'arr' else _SUNK
        if cn in ('np.linalg.norm', 'float') and args:
            return ('scalar',)
        if last == 'channel_capacity_normalization' and len(args) == 3:
            mi = a0
            if mi[0] == 'arr' and len(mi[1]) == 2:
                for k, nv in enumerate(args[1:]):
                    if nv[0] == 'arr' and len(nv[1]) == 1 and isinstance(nv[1][0], str) and isinstance(mi[1][k], str) and nv[1][0] != mi[1][k]:
                        self.problem(e, 'axis %d of the matrix passed to channel_capacity_normalization runs over the %s, its state-count '
                                     'vector over the %s' % (k, _DIM_NAMES[mi[1][k]], _DIM_NAMES[nv[1][0]]))
            elif mi[0] == 'arr' and len(mi[1]) == 1 and mi[2] == 'count':
                self.problem(e, 'the state-count vector is passed to channel_capacity_normalization in the place of the MI matrix')
            return mi if mi[0] == 'arr' else _SUNK
        return _SUNK

    # -- statements
    def join(self, envs, trips=None):
        """`trips`: the join is that of a loop with this many trips, envs =
        [before, after one pass of the body]."""
        envs = [x for x in envs if x is not None]
        if not envs:
            return None
        out = {}
        for k in set().union(*[set(x) for x in envs]):
            vs = [x.get(k, _SUNK) for x in envs]
            if trips is not None and len(vs) == 2 and vs[0] == _SEMPTY and vs[1][0] == 'seq' and vs[1][2] == trips:
                # an empty list that gets one element per trip: `trips` elements after the loop (none after zero trips)
                out[k] = vs[1]
                continue
            out[k] = vs[0] if all(v == vs[0] for v in vs) else _SUNK
        return out

    def run(self, stmts, env):
        """-> env after the statements, None when every path ends (return / raise)."""
        for s in stmts:
            if env is None:
                return None
            if isinstance(s, ast.Assign):
                v = self.ev(s.value, env)
                for t in s.targets:
                    if isinstance(t, ast.Subscript):
                        self.ev(t, env)
                    else:
                        self.bind(t, v, env)
                        for nm in ast.walk(t):
                            if isinstance(nm, ast.Name):
                                self.born.pop(nm.id, None)
                        if isinstance(t, ast.Name) and v == _SEMPTY and len(s.targets) == 1:
                            self.born[t.id] = len(self.loops)
            elif isinstance(s, ast.AnnAssign) and s.value is not None:
                self.bind(s.target, self.ev(s.value, env), env)
            elif isinstance(s, ast.AugAssign):
                v = self.ev(ast.BinOp(left=ast.Name(id=s.target.id, ctx=ast.Load()), op=s.op, right=s.value), env) \
                    if isinstance(s.target, ast.Name) else self.ev(s.value, env)
                if isinstance(s.target, ast.Name):
                    env[s.target.id] = v
            elif isinstance(s, ast.Expr):
                self.ev(s.value, env)
            elif isinstance(s, ast.Assert):
                self.ev(s.test, env)
            elif isinstance(s, ast.If):
                self.ev(s.test, env)
                env = self.join([self.run(s.body, dict(env)), self.run(s.orelse, dict(env))])
            elif isinstance(s, (ast.For, ast.AsyncFor)):
                it = self.ev(s.iter, env)
                self.bind(s.target, self.element(it), env)
                self.loops.append(self.length(it))
                self.skips.append(any(isinstance(x, (ast.Continue, ast.Break, ast.Return, ast.Raise, ast.Try)) for b in s.body for x in ast.walk(b)))
                after = self.run(s.body, dict(env))
                self.loops.pop()
                self.skips.pop()
                env = self.join([env, after], trips=self.length(it) if isinstance(self.length(it), str) else None) if after is not None else env
                if s.orelse:
                    env = self.run(s.orelse, env)
            elif isinstance(s, (ast.With, ast.AsyncWith)):
                env = self.run(s.body, env)
            elif isinstance(s, ast.Return):
                self.returns.append((s, self.ev(s.value, env) if s.value is not None else _SUNK))
                return None
            elif isinstance(s, ast.Raise):
                return None
            elif isinstance(s, (ast.Pass, ast.Import, ast.ImportFrom, ast.Global, ast.Nonlocal, ast.Continue, ast.Break)):
                pass
            else:
                # a statement the model does not follow: whatever it binds is unknown from here on
                for n in ast.walk(s):
                    if isinstance(n, ast.Name) and isinstance(n.ctx, ast.Store):
                        env[n.id] = _SUNK
        return env


def d9_weighted_shapes(ck):
    rule = 'C18.D9.weighted.axes'
    mod = ck.repo.mod(MI)
    F = 'weighted_mi'
    fn = mod.func(F)
    ck.analysed(mod, fn)
    P = params(fn)
    if len(P) < 3:
        ck.missing(rule, 'signature (features, weights, n_feature_states, ...) of weighted_mi')
        return
    sh = _Shapes()
    env = {P[0]: sh.arr(('T', 'F'), 'ids'), P[1]: sh.arr(('T',)), P[2]: sh.arr(('F',), 'count')}
    for a, d in zip(reversed(fn.args.args), reversed(fn.args.defaults)):
        if a.arg not in env and isinstance(d, ast.Constant):
            env[a.arg] = ('const', d.value) if not isinstance(d.value, bool) else _SUNK
    try:
        sh.run(fn.body, env)
    except RecursionError:
        ck.missing(rule, 'symbolic shapes of weighted_mi (expression too deep)')
        return
    for node, msg in sh.problems:
        ck.bad(rule, mod, node, F, u(node)[:120], msg + '. Observations, features and states are independent extents: for unequal '
               'extents this is a shape / index error, for equal ones a silently wrong estimate')
    if sh.problems:
        return
    if not sh.returns:
        ck.missing(rule, 'return value of weighted_mi')
    for s, v in sh.returns:
        if v[0] == 'arr' and all(d is not None for d in v[1]):
            ck.check(v[1] == ('F', 'F'), rule, mod, s, F, 'returns an array over (%s)' % ', '.join(_DIM_NAMES.get(d, str(d)) for d in v[1]),
                     'the result is a features x features matrix',
                     'weighted_mi must return one MI value per PAIR OF FEATURES; the returned array runs over (%s) - the terms must be '
                     'summed over the axis that enumerates the state pairs' % ', '.join(_DIM_NAMES.get(d, str(d)) for d in v[1]))
        else:
            ck.missing(rule, 'symbolic shape of the value weighted_mi returns (%s)' % (v,))


# ---- range limiters on the returned MI ---------------------------------------------------------

_INF_TEXTS = {'np.inf', 'numpy.inf', 'math.inf', 'np.Inf', 'np.infty', 'np.Infinity', 'np.PINF', "float('inf')", "float('Inf')",
              "float('infinity')", "float('+inf')"}
_NINF_TEXTS = {'np.NINF', "float('-inf')", "float('-Inf')", "float('-infinity')"}


def _bound_value(fi, b):
    """A bound of a range limiter as ('none',) (absent / None / infinite on
    its own side is decided by the caller), ('num', x) or ('unk', text)."""
    if b is None:
        return ('none',)
    e = canon(fi.expand(b))
    if _is_const(e, None):
        return ('none',)
    c = const_value(e)
    if isinstance(c, (int, float)) and not isinstance(c, bool):
        return ('num', float(c))
    t = u(e)
    if t in _INF_TEXTS:
        return ('num', float('inf'))
    if t in _NINF_TEXTS:
        return ('num', float('-inf'))
    if isinstance(e, ast.UnaryOp) and isinstance(e.op, (ast.USub, ast.UAdd)) and u(e.operand) in _INF_TEXTS:
        return ('num', float('-inf') if isinstance(e.op, ast.USub) else float('inf'))
    return ('unk', t)


def _limiter(call):
    """(carrier, lo, hi) when `call` limits the range of its first operand
    element-wise (clip / maximum / minimum and their spellings), else None.
    lo / hi are expressions or None (no bound on that side)."""
    if not isinstance(call, ast.Call) or any(isinstance(a, ast.Starred) for a in call.args) or any(k.arg is None for k in call.keywords):
        return None
    cn = call_name(call) or ''
    kw = {k.arg: k.value for k in call.keywords}
    is_method = isinstance(call.func, ast.Attribute) and not (
        isinstance(call.func.value, ast.Name) and call.func.value.id in _MODULE_ALIASES)
    if cn in ('np.clip', 'numpy.clip'):
        a = list(call.args)
        if not a and 'a' not in kw:
            return None
        car = a[0] if a else kw['a']
        lo = a[1] if len(a) > 1 else kw.get('a_min', kw.get('min'))
        hi = a[2] if len(a) > 2 else kw.get('a_max', kw.get('max'))
        return car, lo, hi
    if is_method and call.func.attr == 'clip':
        a = list(call.args)
        lo = a[0] if a else kw.get('min', kw.get('a_min'))
        hi = a[1] if len(a) > 1 else kw.get('max', kw.get('a_max'))
        return call.func.value, lo, hi
    if cn in ('np.maximum', 'np.fmax', 'np.minimum', 'np.fmin') and len(call.args) >= 2:
        x, y = call.args[:2]
        # the carrier is the operand that is not a constant
        cx, cy = const_value(canon(x)), const_value(canon(y))
        if (cx is None) == (cy is None) and not (u(x) in _INF_TEXTS or u(y) in _INF_TEXTS):
            return None
        car, b = (y, x) if (cx is not None or u(x) in _INF_TEXTS) else (x, y)
        return (car, b, None) if cn in ('np.maximum', 'np.fmax') else (car, None, b)
    return None


def _masked_limiter(fi, st, name):
    """`R[R < c] = c` / `R[c < R] = c` as (lo, hi); ('other',) for any other
    value-dependent store into R; None when `st` is not a masked store."""
    if not (isinstance(st, ast.Assign) and len(st.targets) == 1 and isinstance(st.targets[0], ast.Subscript)):
        return None
    t = st.targets[0]
    if not (isinstance(t.value, ast.Name) and t.value.id == name):
        return None
    m = canon(fi.expand(t.slice, stop=(name,)))
    if not (isinstance(m, ast.Compare) and len(m.ops) == 1):
        return None
    l, r, op = m.left, m.comparators[0], m.ops[0]
    if not isinstance(op, (ast.Lt, ast.LtE)):
        return ('other',)
    v = _bound_value(fi, st.value)
    if isinstance(l, ast.Name) and l.id == name:            # R < c: cells below c are overwritten
        b = _bound_value(fi, r)
        return (r, None) if b[0] == 'num' and v == b else ('other',)
    if isinstance(r, ast.Name) and r.id == name:            # c < R: cells above c are overwritten
        b = _bound_value(fi, l)
        return (None, l) if b[0] == 'num' and v == b else ('other',)
    return ('other',)


def d11_result_range(ck):
    """The value an MI estimator returns is the sum of the terms p log(p/q),
    optionally divided by the channel capacity.  Whatever LIMITS THE RANGE of
    that value on its way to the return (clip, maximum / minimum against a
    constant, `R[R < c] = c`) must be the identity on every value the property
    admits there: MI in nats lies in [0, +inf) - it equals the entropy on the
    diagonal, which exceeds any constant once a feature has enough evenly
    populated states - so a lower bound must be <= 0 and a FINITE upper bound
    is only admissible for the channel-capacity-normalised matrix (values in
    [0, 1]): bound >= 1, at a place that control reaches only under the
    `normalize` flag and after the normalisation.  The result is followed
    backwards from every return through names (reaching definitions), copies,
    the normalisation call and the limiters themselves; in-place limiters
    (`out=R`, masked stores) of the objects on that path are included."""
    rule = 'C18.D11.result-range'
    mod = ck.repo.mod(MI)
    for F in ('weighted_mi', 'mi_matrix', 'mutual_information'):
        fn = mod.func(F)
        if fn is None:
            ck.missing(rule, 'function %s' % F)
            continue
        ck.analysed(mod, fn)
        fi = _fi(mod, fn)
        ps = params(fn)
        flag = 'normalize' if 'normalize' in ps else None
        ccn_calls = [c for c in calls_in(fn) if (call_name(c) or '').split('.')[-1] == 'channel_capacity_normalization']
        rets = [r for r in returns_of(fn) if r.value is not None]
        if not rets:
            ck.missing(rule, 'return value of %s' % F)
            continue
        found = []          # (node, stmt, lo, hi, through_ccn)
        other = []          # value-dependent stores the rule does not read as a limiter
        seen = set()

        def inplace(name, at):
            for ms in fi._mutated_in_place(name):
                if (id(ms), name) in seen or not (ms is at or fi.cfg.reachable(ms, at)):
                    continue
                seen.add((id(ms), name))
                ml = _masked_limiter(fi, ms, name)
                if ml is not None:
                    if ml == ('other',):
                        other.append(ms)
                    else:
                        found.append((ms, ms, ml[0], ml[1]))
                    continue
                if isinstance(ms, (ast.Expr, ast.Assign)) and isinstance(ms.value, ast.Call):
                    c = ms.value
                    o = kwarg(c, 'out')
                    lim = _limiter(c)
                    if lim is not None and isinstance(o, ast.Name) and o.id == name:
                        found.append((c, ms, lim[1], lim[2]))
                        visit(lim[0], ms, 0)

        def visit(e, at, depth):
            if depth > 16 or e is None:
                return
            if isinstance(e, ast.Name):
                if e.id in _MODULE_ALIASES or (e.id, id(at)) in seen:
                    return
                seen.add((e.id, id(at)))
                inplace(e.id, at)
                for d in fi.rd.defs_at(at, e.id):
                    if d in ('PARAM', 'UNBOUND') or d is at:
                        continue
                    v = fi.def_value(d, e.id)
                    if v is not None:
                        visit(v, d, depth + 1)
                return
            if isinstance(e, ast.IfExp):
                visit(e.body, at, depth + 1)
                visit(e.orelse, at, depth + 1)
                return
            if isinstance(e, ast.Call):
                if e in ccn_calls and e.args and not isinstance(e.args[0], ast.Starred):
                    visit(e.args[0], at, depth + 1)
                    return
                lim = _limiter(e)
                if lim is not None:
                    found.append((e, at, lim[1], lim[2]))
                    visit(lim[0], at, depth + 1)
                    return
            p = _passthrough(e)
            if p is not None and p is not e:
                visit(p, at, depth + 1)
            # anything else (the reduction over the state pairs, arithmetic): the values behind it are not the MI matrix

        for r in rets:
            visit(r.value, r, 0)
        for ms in other:
            ck.missing(rule, 'value-dependent store `%s` into the result of %s is not read as a range limiter' % (u(ms)[:80], F))
        done = set()
        for node, st, lo, hi in found:
            if id(node) in done:
                continue
            done.add(id(node))
            con = 'range limiter on the result: %s' % u(node)[:100]
            blo, bhi = _bound_value(fi, lo), _bound_value(fi, hi)
            # ---- lower bound
            if blo[0] == 'unk':
                ck.missing(rule, 'lower bound `%s` of %s in %s' % (blo[1][:60], u(node)[:60], F))
                continue
            if bhi[0] == 'unk' and not (blo[0] == 'num' and blo[1] > 0):
                ck.missing(rule, 'upper bound `%s` of %s in %s' % (bhi[1][:60], u(node)[:60], F))
                continue
            if blo[0] == 'num' and blo[1] > 0:
                ck.bad(rule, mod, node, F, con,
                       'the lower bound %g is positive: mutual information is 0 for independent features, every value in [0, %g) the '
                       'estimator computes is raised to %g' % (blo[1], blo[1], blo[1]))
                continue
            if bhi[0] == 'none' or bhi[1] == float('inf'):
                ck.ok(rule, mod, node, con, 'identity on [0, +inf): lower bound %s, no finite upper bound' % (
                    'absent' if blo[0] == 'none' else '%g' % blo[1]))
                continue
            c = bhi[1]
            pol = _flag_polarity(fi, st, flag) if flag is not None else None
            after = any(fi.cfg.dominates(fi.stmt(cc), st) or any(x is cc for x in ast.walk(node)) for cc in ccn_calls)
            if pol is True and after and c >= 1:
                ck.ok(rule, mod, node, con, 'upper bound %g >= 1 applied only to the channel-capacity-normalised matrix (under `%s`)' % (c, flag))
            elif pol is True and after:
                ck.bad(rule, mod, node, F, con,
                       'the upper bound %g is below 1: the channel-capacity-normalised MI of a feature with itself is 1' % c)
            else:
                ck.bad(rule, mod, node, F, con,
                       'the result is limited from above by the constant %g on a path where it is NOT the channel-capacity-normalised '
                       'matrix (%s): mutual information in nats is unbounded - on the diagonal it equals the Shannon entropy, which is '
                       'ln 3 = 1.0986 for three evenly populated states - so every entry above %g is silently truncated: the diagonal '
                       'no longer equals the entropy and the weighted estimator with uniform weights differs from the count-based one. '
                       'A finite upper bound is valid only for values in [0, 1], i.e. inside the `normalize` branch after '
                       'channel_capacity_normalization' % (
                           c, 'no test of `%s` dominates it' % flag if flag is not None and pol is None else
                           'it runs when `%s` is false' % flag if flag is not None else 'this function does not normalise', c))
        if not found and not other:
            ck.ok(rule, mod, fn, 'no range limiter between the sum of the terms and the return of %s' % F,
                  'the returned value is not clipped')


def ck_has_bad(ck, rule):
    return any(o.get('rule') == rule and o.get('status') in ('VIOLATED', 'KNOWN-FINDING') for o in ck.obligations)


def check(ck):
    d1_kernel(ck)
    d3_axes(ck)
    d4_grid(ck)
    n = 0
    for rel in (MI, EN):
        n += check_masked_ufuncs(ck, 'C18.D5.masked-ufunc', ck.repo.mod(rel))
    ck.floor('C18.D5.masked-ufunc', n, 6, 'masked ufunc calls in info_theory')
    d5_mask_content(ck)
    d6_joint_counts(ck, d6_ids_preserved(ck))
    d6_default_width(ck)
    d6_unit_axis(ck)
    d5_out_dtype(ck)
    d7_entropy(ck)
    d9_weighted(ck)
    d9_weighted_structure(ck)
    d9_weighted_shapes(ck)
    d11_result_range(ck)
    d10_rejections(ck)
    check_no_arg_mutation(ck, 'C18.D8.inputs-unmodified', [
        (MI, 'joint_counts'), (MI, 'mutual_information'), (MI, 'mi_matrix'),
        (MI, 'weighted_mi'), (MI, 'channel_capacity_normalization'),
        (MI, 'mi_to_nmi'), (MI, 'mi_to_apc'), (MI, 'mi_to_nmi_apc'),
        (EN, 'kl_divergence'), (EN, 'shannon_entropy'), (EN, 'js_divergence'),
        (LI, 'matrix_bincount2d')])
    return EXPLANATION
